/-
  The scope bookkeeping of the evaluator never panics (C12, scope part).

  * `SWF rt`: the current scope chain is non-empty, every id in it is allocated, every frame has a
    non-nil variable map, and every chain captured by the content closure is non-empty and allocated.
  * `Scoped m`: from an `SWF` runtime, on EVERY outcome of `m` the runtime is `SWF` again, frames
    were only appended, and the resulting chain ends in the chain `m` started from (on success it
    IS that chain); a `crash` outcome never carries one of the messages of the scope primitives.

  One lemma per function of Model/Eval.lean, in the order of Lemmas/EvalGood.lean.
-/
import JetVerif.Lemmas.EvalInv

namespace JetVerif.Eval

/-! ### the invariant -/

/-- chains stored in a closure are non-empty and allocated -/
def ClosureOK (n : Nat) : Closure → Prop
  | .mk _ scope outer => scope ≠ [] ∧ (∀ id ∈ scope, id < n) ∧
      (match outer with
       | none => True
       | some c => ClosureOK n c)

theorem ClosureOK.mono {n m : Nat} (h : n ≤ m) : ∀ c, ClosureOK n c → ClosureOK m c
  | .mk _ sc none, hc => by
    unfold ClosureOK at hc ⊢
    exact ⟨hc.1, fun id hid => Nat.lt_of_lt_of_le (hc.2.1 id hid) h, trivial⟩
  | .mk _ sc (some c), hc => by
    unfold ClosureOK at hc ⊢
    exact ⟨hc.1, fun id hid => Nat.lt_of_lt_of_le (hc.2.1 id hid) h, ClosureOK.mono h c hc.2.2⟩

theorem ClosureOK.mk_iff (n : Nat) (body : List Stmt) (sc : List Nat) (outer : Option Closure) :
    ClosureOK n (.mk body sc outer) ↔
      sc ≠ [] ∧ (∀ id ∈ sc, id < n) ∧ (∀ c, outer = some c → ClosureOK n c) := by
  cases outer with
  | none => unfold ClosureOK; simp
  | some c =>
    rw [ClosureOK]
    constructor
    · intro h; exact ⟨h.1, h.2.1, fun c' hc' => by cases hc'; exact h.2.2⟩
    · intro h; exact ⟨h.1, h.2.1, h.2.2 c rfl⟩

structure SWF (rt : RT) : Prop where
  nonempty : rt.scope ≠ []
  alloc    : ∀ id ∈ rt.scope, id < rt.frames.length
  maps     : ∀ f ∈ rt.frames, f.vars.isSome = true
  content  : ∀ c, rt.content = some c → ClosureOK rt.frames.length c

/-- the crash messages of the scope primitives of Model/Eval.lean
    (`newScope`, `releaseScope`, `letVar`, `setBlocks`, `setValue`, `letGlobal`) -/
def ScopeMsg (m : String) : Prop :=
  m ∈ ["nil pointer dereference (newScope on nil scope)", "dangling scope",
       "nil pointer dereference (releaseScope on nil scope)", "nil pointer dereference",
       "assignment to entry in nil map", "unreachable"]

instance (m : String) : Decidable (ScopeMsg m) := by unfold ScopeMsg; infer_instance

/-- what every outcome keeps: the runtime is well-formed again, frames were only appended, and
    the chain ends in the chain we started from -/
structure Kept (a b : RT) : Prop where
  swf : SWF b
  len : a.frames.length ≤ b.frames.length
  suffix : ∃ xs, b.scope = xs ++ a.scope

def SPost {α} (rt : RT) : Res α → Prop
  | .ok _ rt' => Kept rt rt' ∧ rt'.scope = rt.scope
  | .err _ rt' => Kept rt rt'
  | .crash s rt' => ¬ ScopeMsg s ∧ Kept rt rt'
  | .fuel => True
  | .unsupported _ => True

/-- the invariant every piece of the interpreter satisfies -/
structure Scoped {α} (m : M α) : Prop where
  post : ∀ rt, SWF rt → SPost rt (m rt)

theorem Kept.refl {a : RT} (h : SWF a) : Kept a a := ⟨h, Nat.le_refl _, ⟨[], rfl⟩⟩

theorem Kept.trans {a b c : RT} (h1 : Kept a b) (h2 : Kept b c) : Kept a c := by
  obtain ⟨xs, e1⟩ := h1.suffix
  obtain ⟨ys, e2⟩ := h2.suffix
  exact ⟨h2.swf, Nat.le_trans h1.len h2.len, ⟨ys ++ xs, by rw [e2, e1, List.append_assoc]⟩⟩

/-- `SWF` only looks at frames, scope chain and content -/
theorem SWF.congr {a b : RT} (h : SWF a) (hf : b.frames = a.frames) (hs : b.scope = a.scope)
    (hc : b.content = a.content) : SWF b := by
  refine ⟨by rw [hs]; exact h.nonempty, ?_, ?_, ?_⟩
  · intro id hid; rw [hs] at hid; rw [hf]; exact h.alloc id hid
  · intro f hfm; rw [hf] at hfm; exact h.maps f hfm
  · intro c hcc; rw [hc] at hcc; rw [hf]; exact h.content c hcc

theorem Kept.congr_right {a b b' : RT} (h : Kept a b) (hf : b'.frames = b.frames)
    (hs : b'.scope = b.scope) (hc : b'.content = b.content) : Kept a b' :=
  ⟨h.swf.congr hf hs hc, by rw [hf]; exact h.len, by rw [hs]; exact h.suffix⟩

theorem Kept.congr_left {a a' b : RT} (h : Kept a b) (hf : a'.frames = a.frames)
    (hs : a'.scope = a.scope) : Kept a' b :=
  ⟨h.swf, by rw [hf]; exact h.len, by rw [hs]; exact h.suffix⟩

/-- putting a saved chain and a saved content back (try, isset, the content closure, ...):
    frames were only appended, so what was saved is still allocated -/
theorem kept_restore {a b b' : RT} (ha : SWF a) (hb : SWF b) (hl : a.frames.length ≤ b.frames.length)
    (hf : b'.frames = b.frames) (hs : b'.scope = a.scope) (hc : b'.content = a.content) : Kept a b' := by
  refine ⟨⟨by rw [hs]; exact ha.nonempty, ?_, ?_, ?_⟩, by rw [hf]; exact hl, ⟨[], by rw [hs]; rfl⟩⟩
  · intro id hid; rw [hs] at hid; rw [hf]; exact Nat.lt_of_lt_of_le (ha.alloc id hid) hl
  · intro f hfm; rw [hf] at hfm; exact hb.maps f hfm
  · intro c hcc; rw [hc] at hcc; rw [hf]; exact ClosureOK.mono hl c (ha.content c hcc)

/-- a shorter chain made of ids of a well-formed chain -/
theorem SWF.subchain {b b' : RT} (hb : SWF b) (hf : b'.frames = b.frames) (hc : b'.content = b.content)
    (hne : b'.scope ≠ []) (hsub : ∀ id ∈ b'.scope, id ∈ b.scope) : SWF b' := by
  refine ⟨hne, ?_, ?_, ?_⟩
  · intro id hid; rw [hf]; exact hb.alloc id (hsub id hid)
  · intro f hfm; rw [hf] at hfm; exact hb.maps f hfm
  · intro c hcc; rw [hc] at hcc; rw [hf]; exact hb.content c hcc

/-! ### the monad -/

theorem scoped_pure {α} (a : α) : Scoped (pure a : M α) :=
  ⟨fun _ h => ⟨Kept.refl h, rfl⟩⟩

theorem Scoped.bind {α β} {m : M α} {f : α → M β} (hm : Scoped m) (hf : ∀ a, Scoped (f a)) :
    Scoped (m >>= f) := by
  refine ⟨fun rt hwf => ?_⟩
  have h1 := hm.post rt hwf
  cases hmr : m rt with
  | ok a rt1 =>
    rw [hmr] at h1
    rw [bind_ok hmr]
    have h2 := (hf a).post rt1 h1.1.swf
    cases hfr : f a rt1 with
    | ok b rt2 => rw [hfr] at h2; exact ⟨h1.1.trans h2.1, h2.2.trans h1.2⟩
    | err e rt2 => rw [hfr] at h2; exact h1.1.trans h2
    | crash s rt2 => rw [hfr] at h2; exact ⟨h2.1, h1.1.trans h2.2⟩
    | fuel => trivial
    | unsupported w => trivial
  | err e rt1 => rw [hmr] at h1; rw [bind_err hmr]; exact h1
  | crash s rt1 => rw [hmr] at h1; rw [bind_crash hmr]; exact h1
  | fuel => rw [bind_fuel hmr]; trivial
  | unsupported w => rw [bind_unsupported hmr]; trivial

theorem scoped_throwErr {α} (e : Err) : Scoped (throwErr e : M α) := ⟨fun _ h => Kept.refl h⟩
theorem scoped_errAt {α} (l : Loc) (s : String) : Scoped (errAt l s : M α) := ⟨fun _ h => Kept.refl h⟩
theorem scoped_errPlain {α} (s : String) : Scoped (errPlain s : M α) := ⟨fun _ h => Kept.refl h⟩
theorem scoped_unsupported {α} (s : String) : Scoped (unsupported s : M α) := ⟨fun _ _ => trivial⟩
theorem scoped_outOfFuel {α} : Scoped (outOfFuel : M α) := ⟨fun _ _ => trivial⟩

/-- a crash of the modelled code that is not one of the scope primitives' -/
theorem scoped_crash {α} (s : String) (hs : ¬ ScopeMsg s) : Scoped (crash s : M α) :=
  ⟨fun _ h => ⟨hs, Kept.refl h⟩⟩

theorem scoped_liftOpt {α} (w : String) (o : Option α) : Scoped (liftOpt w o : M α) := by
  cases o with
  | none => exact scoped_unsupported w
  | some a => exact scoped_pure a

theorem scoped_getRT : Scoped getRT := ⟨fun _ h => ⟨Kept.refl h, rfl⟩⟩

/-- a computation none of whose outcomes touches frames, chain or content, and which has no
    crash outcome -/
theorem scoped_of_same {α} (m : M α)
    (h : ∀ rt, match m rt with
      | .ok _ rt' | .err _ rt' => rt'.frames = rt.frames ∧ rt'.scope = rt.scope ∧ rt'.content = rt.content
      | .crash _ _ => False
      | _ => True) : Scoped m := by
  refine ⟨fun rt hwf => ?_⟩
  have := h rt
  cases hm : m rt with
  | ok a rt' => rw [hm] at this; exact ⟨(Kept.refl hwf).congr_right this.1 this.2.1 this.2.2, this.2.1⟩
  | err e rt' => rw [hm] at this; exact (Kept.refl hwf).congr_right this.1 this.2.1 this.2.2
  | crash s rt' => rw [hm] at this; exact this.elim
  | fuel => trivial
  | unsupported w => trivial

theorem scoped_modify (f : RT → RT)
    (h : ∀ rt, (f rt).frames = rt.frames ∧ (f rt).scope = rt.scope ∧ (f rt).content = rt.content) :
    Scoped (modifyRT f) :=
  scoped_of_same _ (fun rt => h rt)

theorem scoped_logE (e : LogE) : Scoped (logE e) := by
  apply scoped_modify; intro rt; exact ⟨rfl, rfl, rfl⟩

theorem scoped_modify_log (f : List LogE → List LogE) :
    Scoped (modifyRT fun rt => { rt with log := f rt.log }) := by
  apply scoped_modify; intro rt; exact ⟨rfl, rfl, rfl⟩

theorem scoped_modify_ctx (v : Val) : Scoped (modifyRT fun rt => { rt with ctx := v }) := by
  apply scoped_modify; intro rt; exact ⟨rfl, rfl, rfl⟩

theorem appendTo_same (rt : RT) (w : Wr) (cs : List Chunk) :
    (appendTo rt w cs).frames = rt.frames ∧ (appendTo rt w cs).scope = rt.scope ∧
      (appendTo rt w cs).content = rt.content := by
  unfold appendTo
  split <;> exact ⟨rfl, rfl, rfl⟩

theorem spost_ok_same {α} {rt rt' : RT} (h : SWF rt) (a : α)
    (hs : rt'.frames = rt.frames ∧ rt'.scope = rt.scope ∧ rt'.content = rt.content) :
    SPost rt (Res.ok a rt') :=
  ⟨(Kept.refl h).congr_right hs.1 hs.2.1 hs.2.2, hs.2.1⟩

theorem spost_err_same {α} {rt : RT} (h : SWF rt) (e : Err) : SPost rt (Res.err e rt : Res α) :=
  Kept.refl h

theorem scoped_writeLit (b : Bytes) : Scoped (writeLit b) :=
  ⟨fun rt h => spost_ok_same h _ (appendTo_same rt _ _)⟩

theorem scoped_printEscaped (env : Env) (v : Val) : Scoped (printEscaped env v) := by
  refine ⟨fun rt h => ?_⟩
  unfold printEscaped
  split
  · trivial
  · split
    · exact spost_ok_same h _ (appendTo_same rt _ _)
    · split
      · trivial
      · exact spost_ok_same h _ (appendTo_same rt _ _)

theorem scoped_printSafe (sw : String) (v : Val) : Scoped (printSafe sw v) := by
  refine ⟨fun rt h => ?_⟩
  unfold printSafe
  split
  · exact spost_err_same h _
  · split
    · trivial
    · split
      · trivial
      · exact spost_ok_same h _ (appendTo_same rt _ _)

theorem scoped_getBlock (n : Bytes) : Scoped (getBlock n) := ⟨fun _ h => ⟨Kept.refl h, rfl⟩⟩

theorem scoped_resolve (env : Env) (n : Bytes) : Scoped (resolve env n) := by
  refine ⟨fun rt h => ?_⟩
  unfold resolve
  split
  · exact spost_ok_same h _ ⟨rfl, rfl, rfl⟩
  · split
    · exact spost_ok_same h _ ⟨rfl, rfl, rfl⟩
    · split
      · exact spost_ok_same h _ ⟨rfl, rfl, rfl⟩
      · split <;> exact spost_ok_same h _ ⟨rfl, rfl, rfl⟩

theorem scoped_ctxSwap (v : Val) : Scoped (ctxSwap v) :=
  scoped_of_same _ (fun _ => ⟨rfl, rfl, rfl⟩)

/-! ### scope primitives: from a well-formed runtime none of their crash outcomes is reachable -/

theorem frameAt_of_lt (rt : RT) (id : Nat) (h : id < rt.frames.length) :
    ∃ f, frameAt rt id = some f ∧ f ∈ rt.frames := by
  refine ⟨rt.frames[id], ?_, List.getElem_mem h⟩
  unfold frameAt
  exact List.getElem?_eq_getElem h

theorem frameAt_mem {rt : RT} {id : Nat} {f : Frame} (h : frameAt rt id = some f) : f ∈ rt.frames :=
  List.mem_of_getElem? h

/-- updating a frame in place with a frame whose map is non-nil -/
theorem kept_setFrame {rt : RT} (h : SWF rt) (id : Nat) (f : Frame) (hf : f.vars.isSome = true) :
    Kept rt (setFrame rt id f) := by
  refine ⟨⟨h.nonempty, ?_, ?_, ?_⟩, ?_, ⟨[], rfl⟩⟩
  · intro i hi
    simp only [setFrame, List.length_set]
    exact h.alloc i hi
  · intro g hg
    simp only [setFrame] at hg
    rcases List.mem_or_eq_of_mem_set hg with hg | rfl
    · exact h.maps g hg
    · exact hf
  · intro c hc
    simp only [setFrame, List.length_set]
    exact h.content c hc
  · simp [setFrame]

theorem spost_setFrame {α} {rt : RT} (h : SWF rt) (a : α) (id : Nat) (f : Frame) (hf : f.vars.isSome = true) :
    SPost rt (Res.ok a (setFrame rt id f)) := ⟨kept_setFrame h id f hf, rfl⟩

/-- the current scope of a well-formed runtime -/
theorem SWF.cur {rt : RT} (h : SWF rt) :
    ∃ cur tl f, rt.scope = cur :: tl ∧ frameAt rt cur = some f ∧ f ∈ rt.frames := by
  cases hs : rt.scope with
  | nil => exact (h.nonempty hs).elim
  | cons cur tl =>
    obtain ⟨f, hf, hm⟩ := frameAt_of_lt rt cur (h.alloc cur (by rw [hs]; exact List.mem_cons_self))
    exact ⟨cur, tl, f, rfl, hf, hm⟩

theorem scoped_letVar (n : Bytes) (v : Val) : Scoped (letVar n v) := by
  refine ⟨fun rt h => ?_⟩
  obtain ⟨cur, tl, f, hs, hf, hm⟩ := h.cur
  unfold letVar
  rw [hs]; simp only; rw [hf]; simp only
  have hv := h.maps f hm
  cases hvs : f.vars with
  | none => rw [hvs] at hv; cases hv
  | some vs => exact spost_setFrame h _ _ _ rfl

theorem scoped_setBlocks (b : List (Bytes × BlockN)) : Scoped (setBlocks b) := by
  refine ⟨fun rt h => ?_⟩
  obtain ⟨cur, tl, f, hs, hf, hm⟩ := h.cur
  unfold setBlocks
  rw [hs]; simp only; rw [hf]
  exact spost_setFrame h _ _ _ (h.maps f hm)

/-- what `lookupChain` finds is an allocated frame with a non-nil map: `setValue`'s two crash
    outcomes are unreachable from ANY runtime -/
theorem lookupChain_some (rt : RT) (name : Bytes) :
    ∀ (l : List Nat) (id : Nat) (v : Val), lookupChain rt name l = some (id, v) →
      ∃ f vs, frameAt rt id = some f ∧ f.vars = some vs := by
  intro l
  induction l with
  | nil => intro id v h; simp [lookupChain] at h
  | cons i rest ih =>
    intro id v h
    unfold lookupChain at h
    split at h
    · cases h
    · rename_i f hf
      split at h
      · rename_i vs hvs
        split at h
        · cases h; exact ⟨f, vs, hf, hvs⟩
        · exact ih id v h
      · exact ih id v h

theorem scoped_setValue (n : Bytes) (v : Val) : Scoped (setValue n v) := by
  refine ⟨fun rt h => ?_⟩
  unfold setValue
  cases hl : lookupChain rt n rt.scope with
  | none => exact ⟨Kept.refl h, rfl⟩
  | some p =>
    obtain ⟨id, w⟩ := p
    obtain ⟨f, vs, hf, hvs⟩ := lookupChain_some rt n rt.scope id w hl
    simp only
    rw [hf]; simp only; rw [hvs]
    exact spost_setFrame h _ _ _ rfl

theorem letGlobalTarget_mem (rt : RT) :
    ∀ l : List Nat, l ≠ [] → ∃ id, letGlobalTarget rt l = some id ∧ id ∈ l := by
  intro l
  induction l with
  | nil => intro h; exact (h rfl).elim
  | cons a tl ih =>
    intro _
    cases tl with
    | nil => exact ⟨a, rfl, List.mem_cons_self⟩
    | cons p rest =>
      unfold letGlobalTarget
      split
      · split
        · obtain ⟨id, h1, h2⟩ := ih (by simp)
          exact ⟨id, h1, List.mem_cons_of_mem _ h2⟩
        · exact ⟨a, rfl, List.mem_cons_self⟩
      · exact ⟨a, rfl, List.mem_cons_self⟩

theorem scoped_letGlobal (n : Bytes) (v : Val) : Scoped (letGlobal n v) := by
  refine ⟨fun rt h => ?_⟩
  obtain ⟨id, ht, hid⟩ := letGlobalTarget_mem rt rt.scope h.nonempty
  obtain ⟨f, hf, hm⟩ := frameAt_of_lt rt id (h.alloc id hid)
  unfold letGlobal
  rw [ht]; simp only; rw [hf]; simp only
  have hv := h.maps f hm
  cases hvs : f.vars with
  | none => rw [hvs] at hv; cases hv
  | some vs => exact spost_setFrame h _ _ _ rfl

/-- `newScope` from a well-formed runtime succeeds and pushes one allocated scope -/
theorem newScope_ok {rt : RT} (h : SWF rt) :
    ∃ rt1, newScope rt = .ok () rt1 ∧ SWF rt1 ∧ rt1.scope = rt.frames.length :: rt.scope ∧
      rt.frames.length ≤ rt1.frames.length := by
  obtain ⟨cur, tl, f, hs, hf, hm⟩ := h.cur
  refine ⟨{ rt with frames := rt.frames ++ [{ vars := some [], blocks := f.blocks }],
                    scope := rt.frames.length :: rt.scope }, ?_, ⟨?_, ?_, ?_, ?_⟩, rfl, ?_⟩
  · unfold newScope
    rw [hs]; simp only; rw [hf]
  · simp
  · intro id hid
    simp only [List.length_append, List.length_cons, List.length_nil]
    rcases List.mem_cons.mp hid with rfl | hid
    · omega
    · have := h.alloc id hid; omega
  · intro g hg
    rcases List.mem_append.mp hg with hg | hg
    · exact h.maps g hg
    · rw [List.mem_singleton.mp hg]; rfl
  · intro c hc
    exact ClosureOK.mono (by simp) c (h.content c hc)
  · simp

theorem newScope_kept {rt rt1 : RT} (h1 : SWF rt1) (hs : rt1.scope = rt.frames.length :: rt.scope)
    (hl : rt.frames.length ≤ rt1.frames.length) : Kept rt rt1 :=
  ⟨h1, hl, ⟨[rt.frames.length], by rw [hs]; rfl⟩⟩

theorem popScope_same (rt : RT) :
    (popScope rt).frames = rt.frames ∧ (popScope rt).content = rt.content ∧
      (popScope rt).scope = rt.scope.tail := by
  unfold popScope
  cases h : rt.scope <;> simp [h]

/-- `defer st.releaseScope()` running on a chain that is at least one level above the chain `a`
    started from: the result still ends in `a`'s chain -/
theorem kept_popScope {a b : RT} {id : Nat} (ha : SWF a) (hb : SWF b)
    (hl : a.frames.length ≤ b.frames.length) (hs : ∃ xs, b.scope = xs ++ id :: a.scope) :
    Kept a (popScope b) := by
  obtain ⟨hf, hc, hsc⟩ := popScope_same b
  obtain ⟨xs, hxs⟩ := hs
  have hsuf : ∃ ys, (popScope b).scope = ys ++ a.scope := by
    rw [hsc, hxs]
    cases xs with
    | nil => exact ⟨[], rfl⟩
    | cons x xs' => exact ⟨xs' ++ [id], by simp⟩
  refine ⟨hb.subchain hf hc ?_ ?_, by rw [hf]; exact hl, hsuf⟩
  · obtain ⟨ys, hy⟩ := hsuf
    rw [hy]
    intro hnil
    exact ha.nonempty (List.append_eq_nil_iff.mp hnil).2
  · intro i hi
    rw [hsc] at hi
    exact List.mem_of_mem_tail hi

/-! ### scoping combinators -/

theorem scoped_withNewScopeND {α} {body : M α} (hb : Scoped body) : Scoped (withNewScopeND body) := by
  refine ⟨fun rt h => ?_⟩
  unfold withNewScopeND
  obtain ⟨rt1, hn, h1, hs1, hl1⟩ := newScope_ok h
  rw [bind_ok hn]
  have k1 : Kept rt rt1 := newScope_kept h1 hs1 hl1
  have hb1 := hb.post rt1 h1
  cases hbr : body rt1 with
  | ok a rt2 =>
    rw [hbr] at hb1; rw [bind_ok hbr]
    have hs2 : rt2.scope = rt.frames.length :: rt.scope := hb1.2.trans hs1
    have hr : releaseScope rt2 = .ok () { rt2 with scope := rt.scope } := by
      unfold releaseScope; rw [hs2]
    rw [bind_ok hr]
    show SPost rt (Res.ok a { rt2 with scope := rt.scope })
    refine ⟨⟨?_, Nat.le_trans hl1 hb1.1.len, ⟨[], rfl⟩⟩, rfl⟩
    exact hb1.1.swf.subchain rfl rfl h.nonempty
      (fun id hid => by rw [hs2]; exact List.mem_cons_of_mem _ hid)
  | err e rt2 => rw [hbr] at hb1; rw [bind_err hbr]; exact k1.trans hb1
  | crash s rt2 => rw [hbr] at hb1; rw [bind_crash hbr]; exact ⟨hb1.1, k1.trans hb1.2⟩
  | fuel => rw [bind_fuel hbr]; trivial
  | unsupported w => rw [bind_unsupported hbr]; trivial

/-- `defer st.releaseScope()` after a `newScope`: whatever the body does, the chain the deferred
    function sees is the pushed scope or deeper, so popping one level is harmless -/
theorem spost_deferred_pop {α} {body : M α} (hb : Scoped body) {rt rt1 : RT} {id : Nat} (h : SWF rt)
    (h1 : SWF rt1) (hs1 : rt1.scope = id :: rt.scope) (hl1 : rt.frames.length ≤ rt1.frames.length) :
    SPost rt (deferred popScope body rt1) := by
  have hb1 := hb.post rt1 h1
  unfold deferred
  have key : ∀ rt2, Kept rt1 rt2 → Kept rt (popScope rt2) := by
    intro rt2 k
    obtain ⟨xs, hx⟩ := k.suffix
    exact kept_popScope h k.swf (Nat.le_trans hl1 k.len) ⟨xs, by rw [hx, hs1]⟩
  cases hbr : body rt1 with
  | ok a rt2 =>
    rw [hbr] at hb1
    refine ⟨key rt2 hb1.1, ?_⟩
    rw [(popScope_same rt2).2.2, hb1.2, hs1]; rfl
  | err e rt2 => rw [hbr] at hb1; exact key rt2 hb1
  | crash s rt2 => rw [hbr] at hb1; exact ⟨hb1.1, key rt2 hb1.2⟩
  | fuel => trivial
  | unsupported w => trivial

theorem scoped_withNewScopeD {α} {body : M α} (hb : Scoped body) : Scoped (withNewScopeD body) := by
  refine ⟨fun rt h => ?_⟩
  unfold withNewScopeD
  obtain ⟨rt1, hn, h1, hs1, hl1⟩ := newScope_ok h
  rw [bind_ok hn]
  exact spost_deferred_pop hb h h1 hs1 hl1

theorem scoped_withCtxND {α} (v : Val) {body : M α} (hb : Scoped body) : Scoped (withCtxND v body) := by
  refine ⟨fun rt h => ?_⟩
  unfold withCtxND
  have hb1 := hb.post { rt with ctx := v } (h.congr rfl rfl rfl)
  cases hbr : body { rt with ctx := v } with
  | ok a rt2 =>
    rw [hbr] at hb1
    exact ⟨(hb1.1.congr_left (a' := rt) rfl rfl).congr_right rfl rfl rfl, hb1.2⟩
  | err e rt2 => rw [hbr] at hb1; exact hb1.congr_left (a' := rt) rfl rfl
  | crash s rt2 => rw [hbr] at hb1; exact ⟨hb1.1, hb1.2.congr_left (a' := rt) rfl rfl⟩
  | fuel => trivial
  | unsupported w => trivial

/-- a deferred function that touches neither frames nor chain nor content -/
theorem scoped_deferred_same {α} (fin : RT → RT)
    (hfin : ∀ rt, (fin rt).frames = rt.frames ∧ (fin rt).scope = rt.scope ∧ (fin rt).content = rt.content)
    {m : M α} (hm : Scoped m) : Scoped (deferred fin m) := by
  refine ⟨fun rt h => ?_⟩
  unfold deferred
  have h1 := hm.post rt h
  cases hmr : m rt with
  | ok a rt2 =>
    rw [hmr] at h1
    obtain ⟨f1, f2, f3⟩ := hfin rt2
    exact ⟨h1.1.congr_right f1 f2 f3, f2.trans h1.2⟩
  | err e rt2 => rw [hmr] at h1; obtain ⟨f1, f2, f3⟩ := hfin rt2; exact h1.congr_right f1 f2 f3
  | crash s rt2 =>
    rw [hmr] at h1; obtain ⟨f1, f2, f3⟩ := hfin rt2; exact ⟨h1.1, h1.2.congr_right f1 f2 f3⟩
  | fuel => trivial
  | unsupported w => trivial

theorem scoped_withCtxD {α} {e : M Val} {body : M α} (he : Scoped e) (hb : Scoped body) :
    Scoped (withCtxD e body) := by
  refine ⟨fun rt h => ?_⟩
  unfold withCtxD
  exact (scoped_deferred_same (fun rt' => { rt' with ctx := rt.ctx }) (fun _ => ⟨rfl, rfl, rfl⟩)
    (he.bind fun nv => (scoped_modify_ctx nv).bind fun _ => hb)).post rt h

theorem scoped_withWriterD {α} (w' : Wr) {body : M α} (hb : Scoped body) : Scoped (withWriterD w' body) := by
  refine ⟨fun rt h => ?_⟩
  unfold withWriterD
  have h1 := (scoped_deferred_same (fun rt' => { rt' with writer := rt.writer }) (fun _ => ⟨rfl, rfl, rfl⟩)
    hb).post { rt with writer := w' } (h.congr rfl rfl rfl)
  revert h1
  cases deferred (fun rt' => { rt' with writer := rt.writer }) body { rt with writer := w' } with
  | ok a rt2 => intro h1; exact ⟨h1.1.congr_left (a' := rt) rfl rfl, h1.2⟩
  | err e rt2 => intro h1; exact h1.congr_left (a' := rt) rfl rfl
  | crash s rt2 => intro h1; exact ⟨h1.1, h1.2.congr_left (a' := rt) rfl rfl⟩
  | fuel => intro _; trivial
  | unsupported w => intro _; trivial

/-- `st.content = c; body; st.content = mycontent` for a closure whose chains are allocated -/
theorem spost_withContentND {α} (c : Option Closure) {body : M α} (hb : Scoped body) (rt : RT) (h : SWF rt)
    (hc : ∀ c', c = some c' → ClosureOK rt.frames.length c') : SPost rt (withContentND c body rt) := by
  unfold withContentND
  have h0 : SWF { rt with content := c } := ⟨h.nonempty, h.alloc, h.maps, hc⟩
  have hb1 := hb.post _ h0
  cases hbr : body { rt with content := c } with
  | ok a rt2 =>
    rw [hbr] at hb1
    exact ⟨kept_restore h hb1.1.swf hb1.1.len rfl hb1.2 rfl, hb1.2⟩
  | err e rt2 => rw [hbr] at hb1; exact hb1.congr_left (a' := rt) rfl rfl
  | crash s rt2 => rw [hbr] at hb1; exact ⟨hb1.1, hb1.2.congr_left (a' := rt) rfl rfl⟩
  | fuel => trivial
  | unsupported w => trivial

/-- running a content closure: its chain was allocated when it was captured and frames are never
    removed; the deferred function puts the caller's chain and content back on every outcome -/
theorem spost_withScopeContentD {α} (sc : List Nat) (ct : Option Closure) {body : M α} (hb : Scoped body)
    (rt : RT) (h : SWF rt) (hsc : sc ≠ []) (hal : ∀ id ∈ sc, id < rt.frames.length)
    (hct : ∀ c, ct = some c → ClosureOK rt.frames.length c) :
    SPost rt (withScopeContentD sc ct body rt) := by
  unfold withScopeContentD
  have h0 : SWF { rt with scope := sc, content := ct } := ⟨hsc, hal, h.maps, hct⟩
  have hb1 := hb.post _ h0
  cases hbr : body { rt with scope := sc, content := ct } with
  | ok a rt2 => rw [hbr] at hb1; exact ⟨kept_restore h hb1.1.swf hb1.1.len rfl rfl rfl, rfl⟩
  | err e rt2 => rw [hbr] at hb1; exact kept_restore h hb1.swf hb1.len rfl rfl rfl
  | crash s rt2 => rw [hbr] at hb1; exact ⟨hb1.1, kept_restore h hb1.2.swf hb1.2.len rfl rfl rfl⟩
  | fuel => trivial
  | unsupported w => trivial

/-- isSet's catch-all recover puts the saved chain, context and content back -/
theorem scoped_recoverFalse {m : M Bool} (hm : Scoped m) : Scoped (recoverFalse m) := by
  refine ⟨fun rt h => ?_⟩
  unfold recoverFalse
  have h1 := hm.post rt h
  cases hmr : m rt with
  | ok a rt' => rw [hmr] at h1; exact h1
  | err e rt' => rw [hmr] at h1; exact ⟨kept_restore h h1.swf h1.len rfl rfl rfl, rfl⟩
  | crash s rt' => rw [hmr] at h1; exact ⟨kept_restore h h1.2.swf h1.2.len rfl rfl rfl, rfl⟩
  | fuel => trivial
  | unsupported w => trivial

/-! ### pure helpers: their crash messages are not the scope primitives' -/

/-- a pure computation that does not fail with one of the scope primitives' messages -/
def PClean {α} (p : P α) : Prop := ∀ s, p = .error (.crash s) → ¬ ScopeMsg s

theorem pc_ok {α} (a : α) : PClean (.ok a : P α) := fun _ h => by cases h
theorem pc_pure {α} (a : α) : PClean (pure a : P α) := fun _ h => by cases h
theorem pc_throwErr {α} (e : Err) : PClean (throwErr e : P α) := fun _ h => by cases h
theorem pc_errAt {α} (l : Loc) (s : String) : PClean (errAt l s : P α) := fun _ h => by cases h
theorem pc_errPlain {α} (s : String) : PClean (errPlain s : P α) := fun _ h => by cases h
theorem pc_unsupported {α} (s : String) : PClean (unsupported s : P α) := fun _ h => by cases h
theorem pc_crash {α} (s : String) (hs : ¬ ScopeMsg s) : PClean (crash s : P α) :=
  fun _ h => by cases h; exact hs
theorem pc_liftOpt {α} (w : String) (o : Option α) : PClean (liftOpt w o : P α) := by
  cases o with
  | none => exact pc_unsupported w
  | some a => exact pc_pure a

theorem pc_bind {α β} {p : P α} {f : α → P β} (hp : PClean p) (hf : ∀ a, PClean (f a)) :
    PClean (p >>= f) := by
  cases p with
  | ok a => exact hf a
  | error e =>
    intro s h
    have h' : (Except.error e : P β) = .error (.crash s) := h
    cases h'
    exact hp s rfl

theorem pc_locateP {α} (loc : Loc) {p : P α} (hp : PClean p) : PClean (locateP loc p) := by
  intro s h
  cases p with
  | ok a => cases h
  | error f =>
    cases f with
    | err e =>
      have hl : locateP loc (.error (.err e) : P α) =
          if e.located then .error (.err e) else .error (.err { e with located := true, loc := loc }) := rfl
      rw [hl] at h
      split at h <;> cases h
    | crash m => exact hp s h
    | unsupported w => cases h

theorem pc_mapM {α β} (f : α → P β) (hf : ∀ a, PClean (f a)) : ∀ xs : List α, PClean (xs.mapM f) := by
  intro xs
  induction xs with
  | nil => rw [List.mapM_nil]; exact pc_pure _
  | cons x xs ih =>
    rw [List.mapM_cons]
    exact pc_bind (hf x) fun _ => pc_bind ih fun _ => pc_pure _

theorem pc_foldlM {α β} (f : β → α → P β) (hf : ∀ b a, PClean (f b a)) :
    ∀ (xs : List α) (b : β), PClean (xs.foldlM f b) := by
  intro xs
  induction xs with
  | nil => intro b; rw [List.foldlM_nil]; exact pc_pure _
  | cons x xs ih => intro b; rw [List.foldlM_cons]; exact pc_bind (hf b x) fun b' => ih b'

/-- closes `PClean` goals built from binds, ifs and matches -/
macro "pc_step" : tactic => `(tactic| with_reducible (first
  | exact pc_pure _
  | exact pc_ok _
  | exact pc_errAt _ _
  | exact pc_errPlain _
  | exact pc_throwErr _
  | exact pc_unsupported _
  | exact pc_liftOpt _ _
  | exact pc_crash _ (by decide)
  | apply pc_bind
  | apply pc_locateP
  | apply pc_mapM
  | apply pc_foldlM
  | intro _))

syntax "pc_tac" (" [" term,* "]")? : tactic
macro_rules
  | `(tactic| pc_tac) => `(tactic| repeat (first | pc_step | split | dsimp only))
  | `(tactic| pc_tac [$h0]) => `(tactic| repeat (first | pc_step | (with_reducible apply $h0) | split | dsimp only))
  | `(tactic| pc_tac [$h0, $h1]) => `(tactic| repeat (first | pc_step | (with_reducible apply $h0) | (with_reducible apply $h1) | split | dsimp only))
  | `(tactic| pc_tac [$h0, $h1, $h2]) => `(tactic| repeat (first | pc_step | (with_reducible apply $h0) | (with_reducible apply $h1) | (with_reducible apply $h2) | split | dsimp only))

theorem pc_toInt (v : Val) : PClean (toInt v) := by unfold toInt; pc_tac
theorem pc_toUint (v : Val) : PClean (toUint v) := by unfold toUint; pc_tac
theorem pc_toFloat (v : Val) : PClean (toFloat v) := by unfold toFloat; pc_tac

theorem pc_indexArg (i : Val) (cap : Nat) : PClean (indexArg i cap) := by unfold indexArg; pc_tac

theorem pc_resolveIndex (v i : Val) (s : Option Bytes) : PClean (resolveIndex v i s) := by
  have h := pc_indexArg
  unfold resolveIndex; pc_tac [h]

theorem pc_checkEquality (a c : Val) : PClean (checkEquality a c) := by
  have h1 := pc_toInt; have h2 := pc_toUint; have h3 := pc_toFloat
  unfold checkEquality; pc_tac [h1, h2, h3]

theorem pc_evalAdditive (l1 l2 l3 : Loc) (p : Bool) (a : Option Val) (c : Val) :
    PClean (evalAdditive l1 l2 l3 p a c) := by
  have h1 := pc_toInt; have h2 := pc_toUint; have h3 := pc_toFloat
  unfold evalAdditive; pc_tac [h1, h2, h3]

theorem pc_evalMultiplicative (l1 l2 : Loc) (op : Tok) (a c : Val) :
    PClean (evalMultiplicative l1 l2 op a c) := by
  have h1 := pc_toInt; have h2 := pc_toUint; have h3 := pc_toFloat
  unfold evalMultiplicative; pc_tac [h1, h2, h3]

/-- the `"unreachable"` of the numeric comparison really is unreachable -/
theorem pc_evalNumericComparative (l : Loc) (op : Tok) (a c : Val) :
    PClean (evalNumericComparative l op a c) := by
  have h1 := pc_toInt; have h2 := pc_toUint; have h3 := pc_toFloat
  unfold evalNumericComparative
  dsimp only
  split
  · exact pc_unsupported _
  · exact pc_unsupported _
  · simp only [isFloatV, Bool.not_false, Bool.and_self, ↓reduceIte]; exact pc_pure _
  · simp only [isFloatV, Bool.not_false, Bool.and_self, ↓reduceIte]; exact pc_pure _
  · pc_tac [h1]
  · pc_tac [h3]
  · pc_tac [h2]
  · exact pc_errAt _ _

theorem pc_convertArg (t : Ty) (v : Val) : PClean (convertArg t v) := by unfold convertArg; pc_tac

theorem pc_convArg (t : Ty) (v : Val) (w : String) : PClean (convArg t v w) := by
  have h := pc_convertArg
  unfold convArg; pc_tac [h]

theorem pc_parseIntoInt (v : Val) : PClean (parseIntoInt v) := by unfold parseIntoInt; pc_tac
theorem pc_apiName (v : Val) : PClean (apiName v) := by unfold apiName; pc_tac
theorem pc_lenOf (v : Val) : PClean (applyJetFunc.lenOf v) := by unfold applyJetFunc.lenOf; pc_tac
theorem pc_notNilP (v : Val) : PClean (notNilP v) := by unfold notNilP; pc_tac
theorem pc_getSibling (env : Env) (a c : Bytes) : PClean (getSibling env a c) := by unfold getSibling; pc_tac
theorem pc_getRanger (v : Val) : PClean (getRanger v) := by unfold getRanger; pc_tac

theorem pc_evalFieldPath (loc : Loc) : ∀ (fs : List Bytes) (v : Val), PClean (evalFieldPath loc v fs) := by
  intro fs
  induction fs with
  | nil => intro v; unfold evalFieldPath; exact pc_pure _
  | cons f rest ih =>
    intro v
    unfold evalFieldPath
    have hr := pc_resolveIndex v .invalid (some f)
    split
    · intro s h; cases h
    · rename_i x hx
      intro s h
      cases h
      exact hr s hx
    · pc_tac [ih]

theorem pc_evalChainFields : ∀ (fs : List Bytes) (v : Val), PClean (evalChainFields v fs) := by
  have hr := pc_resolveIndex
  intro fs
  induction fs with
  | nil => intro v; unfold evalChainFields; exact pc_pure _
  | cons f rest ih =>
    intro v
    cases rest with
    | nil => unfold evalChainFields; pc_tac [hr]
    | cons g rest => unfold evalChainFields; pc_tac [hr, ih]

theorem pc_isSetFieldPath : ∀ (fs : List Bytes) (v : Val), PClean (isSetFieldPath v fs) := by
  have hr := pc_resolveIndex
  have hn := pc_notNilP
  intro fs
  induction fs with
  | nil => intro v; unfold isSetFieldPath; exact pc_pure _
  | cons f rest ih => intro v; unfold isSetFieldPath; pc_tac [hr, hn, ih]

theorem pc_applyMethod (name : String) (recv : Val) (args : List Val) : PClean (applyMethod name recv args) := by
  unfold applyMethod
  pc_tac

set_option maxHeartbeats 1600000 in
theorem pc_applyGoFunc (id : String) (args : List Val) : PClean (applyGoFunc id args) := by
  unfold applyGoFunc
  pc_tac
/-! ### the evaluator, function by function -/

theorem scoped_liftP {α} (p : P α) (hp : PClean p) : Scoped (liftP p) := by
  refine ⟨fun rt h => ?_⟩
  unfold liftP
  cases p with
  | ok a => exact ⟨Kept.refl h, rfl⟩
  | error f =>
    cases f with
    | err e => exact Kept.refl h
    | crash s => exact ⟨hp s rfl, Kept.refl h⟩
    | unsupported w => trivial

structure RecScoped (r : Rec) : Prop where
  evalExpr : ∀ env e, Scoped (r.evalExpr env e)
  execList : ∀ env l, Scoped (r.execList env l)
  isSetE : ∀ env e, Scoped (r.isSetE env e)

theorem recScoped_bottom : RecScoped Rec.bottom :=
  ⟨fun _ _ => scoped_outOfFuel, fun _ _ => scoped_outOfFuel, fun _ _ => scoped_outOfFuel⟩

/-- closes `Scoped` goals built from binds, ifs and matches over known pieces -/
macro "scoped_step" : tactic => `(tactic| with_reducible (first
  | exact scoped_pure _
  | exact scoped_unsupported _
  | exact scoped_errAt _ _
  | exact scoped_errPlain _
  | exact scoped_throwErr _
  | exact scoped_outOfFuel
  | exact scoped_crash _ (by decide)
  | exact scoped_liftOpt _ _
  | exact scoped_getRT
  | exact scoped_letVar _ _
  | exact scoped_setBlocks _
  | exact scoped_letGlobal _ _
  | exact scoped_setValue _ _
  | exact scoped_getBlock _
  | exact scoped_resolve _ _
  | exact scoped_logE _
  | exact scoped_writeLit _
  | exact scoped_printEscaped _ _
  | exact scoped_printSafe _ _
  | apply Scoped.bind
  | apply scoped_withNewScopeD
  | apply scoped_withNewScopeND
  | apply scoped_withCtxND
  | apply scoped_withCtxD
  | apply scoped_withWriterD
  | apply scoped_liftP
  | apply pc_locateP
  | exact pc_convArg _ _ _
  | exact pc_parseIntoInt _
  | exact pc_apiName _
  | exact pc_lenOf _
  | exact pc_applyGoFunc _ _
  | exact pc_applyMethod _ _ _
  | exact pc_evalFieldPath _ _ _
  | exact pc_evalChainFields _ _
  | exact pc_evalAdditive _ _ _ _ _ _
  | exact pc_evalMultiplicative _ _ _ _ _
  | exact pc_checkEquality _ _
  | exact pc_evalNumericComparative _ _ _ _
  | exact pc_resolveIndex _ _ _
  | exact pc_notNilP _
  | exact pc_isSetFieldPath _ _
  | exact pc_getSibling _ _ _
  | exact pc_getRanger _
  | intro _))

syntax "scoped_tac" (" [" term,* "]")? : tactic
macro_rules
  | `(tactic| scoped_tac) => `(tactic| repeat (first | scoped_step | split | dsimp only))
  | `(tactic| scoped_tac [$h0]) => `(tactic| repeat (first | scoped_step | (with_reducible apply $h0) | split | dsimp only))
  | `(tactic| scoped_tac [$h0, $h1]) => `(tactic| repeat (first | scoped_step | (with_reducible apply $h0) | (with_reducible apply $h1) | split | dsimp only))
  | `(tactic| scoped_tac [$h0, $h1, $h2]) => `(tactic| repeat (first | scoped_step | (with_reducible apply $h0) | (with_reducible apply $h1) | (with_reducible apply $h2) | split | dsimp only))
  | `(tactic| scoped_tac [$h0, $h1, $h2, $h3]) => `(tactic| repeat (first | scoped_step | (with_reducible apply $h0) | (with_reducible apply $h1) | (with_reducible apply $h2) | (with_reducible apply $h3) | split | dsimp only))

variable {r : Rec}

theorem scoped_Args_exprAt (hr : RecScoped r) (env : Env) (a : Args) (j : Nat) : Scoped (a.exprAt r env j) := by
  have he := hr.evalExpr env
  unfold Args.exprAt
  scoped_tac [he]

theorem scoped_Args_get (hr : RecScoped r) (env : Env) (a : Args) (i : Nat) : Scoped (a.get r env i) := by
  have he := scoped_Args_exprAt hr env a
  unfold Args.get
  scoped_tac [he]

theorem scoped_Args_isSetAt (hr : RecScoped r) (env : Env) (a : Args) (j : Nat) : Scoped (a.isSetAt r env j) := by
  have he := hr.isSetE env
  unfold Args.isSetAt
  scoped_tac [he]

theorem scoped_Args_isSet (hr : RecScoped r) (env : Env) (a : Args) (i : Nat) : Scoped (a.isSet r env i) := by
  have he := scoped_Args_isSetAt hr env a
  unfold Args.isSet
  scoped_tac [he]

theorem scoped_evalArgsLoop (hr : RecScoped r) (env : Env) (sig : Sig) (a : Args) :
    ∀ es slot acc, Scoped (evalArgsLoop r env sig a es slot acc) := by
  have he := hr.evalExpr env
  intro es
  induction es with
  | nil => intro slot acc; unfold evalArgsLoop; scoped_tac
  | cons e rest ih =>
    intro slot acc
    unfold evalArgsLoop
    scoped_tac [he, ih]

theorem scoped_evaluateArgs (hr : RecScoped r) (env : Env) (sig : Sig) (a : Args) :
    Scoped (evaluateArgs r env sig a) := by
  have hl := scoped_evalArgsLoop hr env sig a
  unfold evaluateArgs
  scoped_tac [hl]

theorem scoped_issetLoop (hr : RecScoped r) (env : Env) (a : Args) : ∀ f i, Scoped (issetLoop r env a f i) := by
  have hs := scoped_Args_isSet hr env a
  intro f
  induction f with
  | zero => intro i; unfold issetLoop; scoped_tac
  | succ f ih => intro i; unfold issetLoop; scoped_tac [hs, ih]

theorem scoped_sliceLoop (hr : RecScoped r) (env : Env) (a : Args) : ∀ f i acc, Scoped (sliceLoop r env a f i acc) := by
  have hg := scoped_Args_get hr env a
  intro f
  induction f with
  | zero => intro i acc; unfold sliceLoop; scoped_tac
  | succ f ih => intro i acc; unfold sliceLoop; scoped_tac [hg, ih]

theorem scoped_mapLoop (hr : RecScoped r) (env : Env) (a : Args) : ∀ f i acc, Scoped (mapLoop r env a f i acc) := by
  have hg := scoped_Args_get hr env a
  intro f
  induction f with
  | zero => intro i acc; unfold mapLoop; scoped_tac
  | succ f ih => intro i acc; unfold mapLoop; scoped_tac [hg, ih]

theorem scoped_recLoop (hr : RecScoped r) (env : Env) (a : Args) : ∀ f i acc, Scoped (recLoop r env a f i acc) := by
  have hg := scoped_Args_get hr env a
  intro f
  induction f with
  | zero => intro i acc; unfold recLoop; scoped_tac
  | succ f ih => intro i acc; unfold recLoop; scoped_tac [hg, ih]

theorem scoped_execBuiltin (hr : RecScoped r) (env : Env) (isExec : Bool) (a : Args) :
    Scoped (execBuiltin r env isExec a) := by
  have hg := scoped_Args_get hr env a
  have hl := hr.execList env
  unfold execBuiltin
  scoped_tac [hg, hl]

theorem scoped_yieldBlockApi (hr : RecScoped r) (env : Env) (name : Bytes) (ctx : Val) :
    Scoped (yieldBlockApi r env name ctx) := by
  have hl := hr.execList env
  unfold yieldBlockApi
  scoped_tac [hl]

theorem scoped_recsetLoop (hr : RecScoped r) (env : Env) (a : Args) :
    ∀ fuel i acc, Scoped (recsetLoop r env a fuel i acc) := by
  have hs := scoped_Args_isSet hr env a
  intro fuel
  induction fuel with
  | zero => intro i acc; unfold recsetLoop; scoped_tac
  | succ f ih => intro i acc; unfold recsetLoop; scoped_tac [hs, ih]

theorem scoped_parse3Func (hr : RecScoped r) (env : Env) (a : Args) : Scoped (parse3Func r env a) := by
  have hg := scoped_Args_get hr env a
  unfold parse3Func
  scoped_tac [hg]

theorem scoped_applyApiFunc (hr : RecScoped r) (env : Env) (id : String) (a : Args) :
    Scoped (applyApiFunc r env id a) := by
  have hg := scoped_Args_get hr env a
  have hy := scoped_yieldBlockApi hr env
  have hrs := scoped_recsetLoop hr env a
  have hp := scoped_parse3Func hr env a
  unfold applyApiFunc
  dsimp only
  scoped_tac [hg, hy, hrs, hp]

set_option maxHeartbeats 1600000 in
theorem scoped_applyJetFunc (hr : RecScoped r) (env : Env) (id : String) (a : Args) :
    Scoped (applyJetFunc r env id a) := by
  have hg := scoped_Args_get hr env a
  have h1 := scoped_issetLoop hr env a
  have h2 := scoped_sliceLoop hr env a
  have h3 := scoped_mapLoop hr env a
  have h4 := scoped_recLoop hr env a
  have h5 := scoped_execBuiltin hr env
  have h6 := scoped_applyApiFunc hr env
  unfold applyJetFunc
  dsimp only
  repeat (first | split | scoped_step | (with_reducible apply hg) | (with_reducible apply h1) | (with_reducible apply h2) | (with_reducible apply h3) | (with_reducible apply h4) | (with_reducible apply h5) | (with_reducible apply h6))

theorem scoped_callValue (hr : RecScoped r) (env : Env) (fn : Val) (a : Args) : Scoped (callValue r env fn a) := by
  have h1 := scoped_applyJetFunc hr env
  have h2 := scoped_evaluateArgs hr env
  have h3 : ∀ logs : List LogE, Scoped (modifyRT fun rt => { rt with log := logs.reverse ++ rt.log }) :=
    fun logs => scoped_modify_log (fun l => logs.reverse ++ l)
  unfold callValue
  scoped_tac [h1, h2, h3]

theorem scoped_callAt (hr : RecScoped r) (env : Env) (loc : Loc) (fn : Val) (a : Args) :
    Scoped (callAt r env loc fn a) := by
  have h1 := scoped_callValue hr env
  unfold callAt
  scoped_tac [h1]

theorem scoped_evalExprF (hr : RecScoped r) (env : Env) (e : Expr) : Scoped (evalExprF r env e) := by
  have he := hr.evalExpr env
  have hc := scoped_callAt hr env
  unfold evalExprF
  scoped_tac [he, hc]

theorem scoped_isSetBody (hr : RecScoped r) (env : Env) (e : Expr) : Scoped (isSetBody r env e) := by
  have he := hr.evalExpr env
  have hs := hr.isSetE env
  unfold isSetBody
  scoped_tac [he, hs]

theorem scoped_isSetF (hr : RecScoped r) (env : Env) (e : Expr) : Scoped (isSetF r env e) :=
  scoped_recoverFalse (scoped_isSetBody hr env e)

theorem scoped_executeSet (hr : RecScoped r) (env : Env) (l : Expr) (v : Val) : Scoped (executeSet r env l v) := by
  have he := hr.evalExpr env
  unfold executeSet
  scoped_tac [he]

theorem scoped_assignOne (hr : RecScoped r) (env : Env) (isLet : Bool) (l : Expr) (v : Val) :
    Scoped (assignOne r env isLet l v) := by
  have h1 := scoped_executeSet hr env
  unfold assignOne
  scoped_tac [h1]

theorem scoped_assignLoop (hr : RecScoped r) (env : Env) (isLet : Bool) :
    ∀ ls rs, Scoped (assignLoop r env isLet ls rs) := by
  have he := hr.evalExpr env
  have h1 := scoped_assignOne hr env isLet
  intro ls
  induction ls with
  | nil => intro rs; unfold assignLoop; scoped_tac
  | cons l ls ih =>
    intro rs
    cases rs with
    | nil => unfold assignLoop; scoped_tac
    | cons rgt rs => unfold assignLoop; scoped_tac [he, h1, ih]

theorem scoped_executeAssign (hr : RecScoped r) (env : Env) (s : SetN) : Scoped (executeAssign r env s) := by
  have he := hr.evalExpr env
  have h1 := scoped_assignOne hr env s.isLet
  have h2 := scoped_assignLoop hr env s.isLet
  unfold executeAssign
  scoped_tac [he, h1, h2]

theorem scoped_safeWriterLoop (hr : RecScoped r) (env : Env) (sw : String) :
    ∀ es, Scoped (safeWriterLoop r env sw es) := by
  have he := hr.evalExpr env
  intro es
  induction es with
  | nil => unfold safeWriterLoop; scoped_tac
  | cons e rest ih => unfold safeWriterLoop; scoped_tac [he, ih]

theorem scoped_evalSafeWriter (hr : RecScoped r) (env : Env) (sw : String) (piped : Option Val) (args : List Expr) :
    Scoped (evalSafeWriter r env sw piped args) := by
  have h1 := scoped_safeWriterLoop hr env sw
  unfold evalSafeWriter
  scoped_tac [h1]

theorem scoped_evalCommand (hr : RecScoped r) (env : Env) (c : Cmd) : Scoped (evalCommand r env c) := by
  have he := hr.evalExpr env
  have h1 := scoped_evalSafeWriter hr env
  have h2 := scoped_callAt hr env
  unfold evalCommand
  scoped_tac [he, h1, h2]

theorem scoped_evalCommandPipe (hr : RecScoped r) (env : Env) (c : Cmd) (v : Val) :
    Scoped (evalCommandPipe r env c v) := by
  have he := hr.evalExpr env
  have h1 := scoped_evalSafeWriter hr env
  have h2 := scoped_callAt hr env
  unfold evalCommandPipe
  scoped_tac [he, h1, h2]

theorem scoped_pipelineLoop (hr : RecScoped r) (env : Env) : ∀ cs acc, Scoped (pipelineLoop r env acc cs) := by
  have h1 := scoped_evalCommandPipe hr env
  intro cs
  induction cs with
  | nil => intro acc; unfold pipelineLoop; scoped_tac
  | cons c cs ih => intro acc; unfold pipelineLoop; scoped_tac [h1, ih]

theorem scoped_evalPipeline (hr : RecScoped r) (env : Env) (p : Pipe) : Scoped (evalPipeline r env p) := by
  have h1 := scoped_evalCommand hr env
  have h2 := scoped_pipelineLoop hr env
  unfold evalPipeline
  scoped_tac [h1, h2]
theorem getRT_bind {α} (f : RT → M α) (rt : RT) : (getRT >>= f) rt = f rt rt := rfl

/-- `yield content`: the closure was captured from a well-formed runtime -/
theorem spost_invokeContent (hr : RecScoped r) (env : Env) (c : Closure) (ctxE : Option Expr) (rt : RT)
    (h : SWF rt) (hc : ClosureOK rt.frames.length c) : SPost rt (invokeContent r env c ctxE rt) := by
  have he := hr.evalExpr env
  have hl := hr.execList env
  cases c with
  | mk body sc outer =>
    obtain ⟨h1, h2, h3⟩ := (ClosureOK.mk_iff _ _ _ _).mp hc
    unfold invokeContent
    refine spost_withScopeContentD sc outer ?_ rt h h1 h2 h3
    scoped_tac [he, hl]

theorem scoped_bindYieldParams (hr : RecScoped r) (env : Env) (loc : Loc) :
    ∀ ps, Scoped (bindYieldParams r env loc ps) := by
  have he := hr.evalExpr env
  intro ps
  induction ps with
  | nil => unfold bindYieldParams; scoped_tac
  | cons p ps ih => unfold bindYieldParams; scoped_tac [he, ih]

theorem scoped_bindBlockParams (hr : RecScoped r) (env : Env) : ∀ ps, Scoped (bindBlockParams r env ps) := by
  have he := hr.evalExpr env
  intro ps
  induction ps with
  | nil => unfold bindBlockParams; scoped_tac
  | cons p ps ih => unfold bindBlockParams; scoped_tac [he, ih]

/-- `executeYieldBlock` captures the current chain in the content closure: it is allocated now
    and frames are never removed -/
theorem scoped_yieldBody (hr : RecScoped r) (env : Env) (block : BlockN) (ctxE : Option Expr)
    (content : Option (List Stmt)) : Scoped (yieldBody r env block ctxE content) := by
  have he := hr.evalExpr env
  have hl := hr.execList env
  refine ⟨fun rt h => ?_⟩
  unfold yieldBody
  rw [getRT_bind]
  cases content with
  | none =>
    refine spost_withContentND _ ?_ rt h h.content
    scoped_tac [he, hl]
  | some body =>
    refine spost_withContentND _ ?_ rt h ?_
    · scoped_tac [he, hl]
    · intro c' hc'
      cases hc'
      exact (ClosureOK.mk_iff _ _ _ _).mpr ⟨h.nonempty, h.alloc, h.content⟩

theorem scoped_executeYieldBlock (hr : RecScoped r) (env : Env) (loc : Loc) (block : BlockN)
    (bp yp : List Param) (ctxE : Option Expr) (content : Option (List Stmt)) :
    Scoped (executeYieldBlock r env loc block bp yp ctxE content) := by
  have h1 := scoped_bindYieldParams hr env loc
  have h2 := scoped_bindBlockParams hr env
  have h3 := scoped_yieldBody hr env
  unfold executeYieldBlock
  scoped_tac [h1, h2, h3]

theorem scoped_executeInclude (hr : RecScoped r) (env : Env) (loc : Loc) (nameE : Expr) (ctxE : Option Expr) :
    Scoped (executeInclude r env loc nameE ctxE) := by
  have he := hr.evalExpr env
  have hl := hr.execList env
  unfold executeInclude
  scoped_tac [he, hl]

theorem scoped_rangeBind (hr : RecScoped r) (env : Env) (set : Option SetN) (slot : Option Nat) (v : Val) :
    Scoped (rangeBind r env set slot v) := by
  have h1 := scoped_executeSet hr env
  unfold rangeBind
  scoped_tac [h1]

theorem scoped_rangeLoop (hr : RecScoped r) (env : Env) (set : Option SetN) (ks vs : Option Nat)
    (body : List Stmt) (els : Option (List Stmt)) :
    ∀ f st first, Scoped (rangeLoop r env set ks vs body els f st first) := by
  have hl := hr.execList env
  have hb := scoped_rangeBind hr env set
  intro f
  induction f with
  | zero => intro st first; unfold rangeLoop; scoped_tac
  | succ f ih => intro st first; unfold rangeLoop; scoped_tac [hl, hb, ih]

theorem scoped_rangeCore (hr : RecScoped r) (env : Env) (loc : Loc) (set : Option SetN) (ex : Val)
    (body : List Stmt) (els : Option (List Stmt)) : Scoped (rangeCore r env loc set ex body els) := by
  have h1 := scoped_rangeLoop hr env set
  unfold rangeCore
  scoped_tac [h1]

theorem scoped_execRange (hr : RecScoped r) (env : Env) (loc : Loc) (set : Option SetN) (e : Option Expr)
    (body : List Stmt) (els : Option (List Stmt)) : Scoped (execRange r env loc set e body els) := by
  have he := hr.evalExpr env
  have h1 := scoped_rangeCore hr env loc set
  unfold execRange
  scoped_tac [he, h1]

theorem scoped_tryCatch (hr : RecScoped r) (env : Env) (hasCatch : Bool) (cv : Option Bytes)
    (cb : Option (List Stmt)) (errVal : Val) : Scoped (tryCatch r env hasCatch cv cb errVal) := by
  have hl := hr.execList env
  unfold tryCatch
  scoped_tac [hl]

/-- `executeTry`: the recover handler puts the saved chain, context and content back before the
    catch clause runs -/
theorem scoped_executeTry (hr : RecScoped r) (env : Env) (body : List Stmt) (hasCatch : Bool)
    (cv : Option Bytes) (cb : Option (List Stmt)) : Scoped (executeTry r env body hasCatch cv cb) := by
  have hl := hr.execList env
  refine ⟨fun rt h => ?_⟩
  unfold executeTry
  have hb := (hl body).post (tryStart rt) (h.congr rfl rfl rfl)
  have handler : ∀ (errVal : Val) (rt2 : RT), Kept (tryStart rt) rt2 →
      SPost rt (tryCatch r env hasCatch cv cb errVal (tryReset rt rt2)) := by
    intro errVal rt2 k
    have k0 : Kept rt (tryReset rt rt2) := kept_restore h k.swf k.len rfl rfl rfl
    have hp := (scoped_tryCatch hr env hasCatch cv cb errVal).post _ k0.swf
    revert hp
    cases tryCatch r env hasCatch cv cb errVal (tryReset rt rt2) with
    | ok v rt3 => intro hp; exact ⟨k0.trans hp.1, hp.2⟩
    | err e3 rt3 => intro hp; exact k0.trans hp
    | crash s rt3 => intro hp; exact ⟨hp.1, k0.trans hp.2⟩
    | fuel => intro _; trivial
    | unsupported w => intro _; trivial
  cases hbr : r.execList env body (tryStart rt) with
  | ok v rt2 =>
    rw [hbr] at hb
    obtain ⟨a1, a2, a3⟩ := appendTo_same { rt2 with writer := rt.writer } rt.writer (rt2.sink (rt.nbufs + 1)).reverse
    exact ⟨(hb.1.congr_left (a' := rt) rfl rfl).congr_right a1 a2 a3, a2.trans hb.2⟩
  | err e rt2 => rw [hbr] at hb; exact handler _ rt2 hb
  | crash s rt2 => rw [hbr] at hb; exact handler _ rt2 hb.2
  | fuel => trivial
  | unsupported w => trivial

theorem scoped_actionPipe (hr : RecScoped r) (env : Env) (pipe : Option Pipe) : Scoped (actionPipe r env pipe) := by
  have h1 := scoped_evalPipeline hr env
  unfold actionPipe
  scoped_tac [h1]

theorem scoped_ifBranches (hr : RecScoped r) (env : Env) (c : Expr) (t : List Stmt) (e : Option (List Stmt)) :
    Scoped (ifBranches r env c t e) := by
  have he := hr.evalExpr env
  have hl := hr.execList env
  unfold ifBranches
  scoped_tac [he, hl]

theorem scoped_execIf (hr : RecScoped r) (env : Env) (set : Option SetN) (c : Expr) (t : List Stmt)
    (e : Option (List Stmt)) : Scoped (execIf r env set c t e) := by
  have h1 := scoped_ifBranches hr env
  have h2 := scoped_executeAssign hr env
  unfold execIf
  scoped_tac [h1, h2]

theorem scoped_execYield (hr : RecScoped r) (env : Env) (loc : Loc) (name : Bytes) (params : Option (List Param))
    (ctxE : Option Expr) (content : Option (List Stmt)) (isContent : Bool) :
    Scoped (execYield r env loc name params ctxE content isContent) := by
  have h2 := scoped_executeYieldBlock hr env
  unfold execYield
  split
  · refine ⟨fun rt h => ?_⟩
    rw [getRT_bind]
    cases hc : rt.content with
    | none => exact ⟨Kept.refl h, rfl⟩
    | some c => exact spost_invokeContent hr env c ctxE rt h (h.content c hc)
  · scoped_tac [h2]

theorem scoped_execBlock (hr : RecScoped r) (env : Env) (loc : Loc) (name : Bytes) (params : List Param)
    (ctxE : Option Expr) (body : List Stmt) (content : Option (List Stmt)) :
    Scoped (execBlock r env loc name params ctxE body content) := by
  have h2 := scoped_executeYieldBlock hr env
  unfold execBlock
  scoped_tac [h2]
/-! ### statement lists: the let-scope a list opens is released by a deferred function -/

/-- how a failing statement leaves the chain: it ends in the chain the statement started from, and
    if the statement opened the list's let-scope (`o`) it is strictly longer -/
structure FailRel (o : Bool) (rt rt' : RT) : Prop where
  swf : SWF rt'
  len : rt.frames.length ≤ rt'.frames.length
  suffix : ∃ xs, rt'.scope = xs ++ rt.scope ∧ (o = true → xs ≠ [])

/-- outcome of something that may open the list's let-scope: `o` says whether it does, `b` is the
    flag before, `flag` reads the flag after out of the result -/
def SPostO {α} (flag : α → Bool) (o b : Bool) (rt : RT) : Res α → Prop
  | .ok x rt' => SWF rt' ∧ rt.frames.length ≤ rt'.frames.length ∧
      (if o = true then flag x = true ∧ ∃ id, rt'.scope = id :: rt.scope
       else flag x = b ∧ rt'.scope = rt.scope)
  | .err _ rt' => FailRel o rt rt'
  | .crash m rt' => ¬ ScopeMsg m ∧ FailRel o rt rt'
  | .fuel => True
  | .unsupported _ => True

theorem FailRel.of_kept {rt rt' : RT} (k : Kept rt rt') : FailRel false rt rt' := by
  obtain ⟨xs, hx⟩ := k.suffix
  exact ⟨k.swf, k.len, ⟨xs, hx, fun h => by cases h⟩⟩

/-- a `Scoped` computation whose result is mapped to something that hands the flag through -/
theorem spostO_keep {α β} {m : M α} (hm : Scoped m) (flag : β → Bool) (k : α → β) (b : Bool)
    (hk : ∀ a, flag (k a) = b) (rt : RT) (h : SWF rt) :
    SPostO flag false b rt ((m >>= fun a => pure (k a)) rt) := by
  have h1 := hm.post rt h
  cases hmr : m rt with
  | ok v rt' =>
    rw [hmr] at h1; rw [bind_ok hmr]
    exact ⟨h1.1.swf, h1.1.len, hk v, h1.2⟩
  | err e rt' => rw [hmr] at h1; rw [bind_err hmr]; exact FailRel.of_kept h1
  | crash s rt' => rw [hmr] at h1; rw [bind_crash hmr]; exact ⟨h1.1, FailRel.of_kept h1.2⟩
  | fuel => rw [bind_fuel hmr]; trivial
  | unsupported w => rw [bind_unsupported hmr]; trivial

theorem FailRel.of_same {rt rt1 rt2 : RT} (hs1 : rt1.scope = rt.scope)
    (hl1 : rt.frames.length ≤ rt1.frames.length) (k : Kept rt1 rt2) : FailRel false rt rt2 := by
  obtain ⟨xs, hx⟩ := k.suffix
  exact ⟨k.swf, Nat.le_trans hl1 k.len, ⟨xs, by rw [hx, hs1], fun h => by cases h⟩⟩

theorem FailRel.of_pushed {rt rt1 rt2 : RT} {id : Nat} (hs1 : rt1.scope = id :: rt.scope)
    (hl1 : rt.frames.length ≤ rt1.frames.length) (k : Kept rt1 rt2) : FailRel true rt rt2 := by
  obtain ⟨xs, hx⟩ := k.suffix
  refine ⟨k.swf, Nat.le_trans hl1 k.len, ⟨xs ++ [id], ?_, ?_⟩⟩
  · rw [hx, hs1]; simp
  · intro _ hnil; simp at hnil

/-- `st.newScope()` followed by a `Scoped` computation, flag set: the list's let-scope is open -/
theorem spostO_open {α β} {m : M α} (hm : Scoped m) (flag : β → Bool) (k : α → β) (b : Bool)
    (hk : ∀ a, flag (k a) = true) (rt : RT) (h : SWF rt) :
    SPostO flag true b rt ((newScope >>= fun _ => m >>= fun a => pure (k a)) rt) := by
  obtain ⟨rt1, hn, h1, hs1, hl1⟩ := newScope_ok h
  rw [bind_ok hn]
  have h2 := hm.post rt1 h1
  cases hmr : m rt1 with
  | ok v rt2 =>
    rw [hmr] at h2; rw [bind_ok hmr]
    exact ⟨h2.1.swf, Nat.le_trans hl1 h2.1.len, hk v, ⟨_, h2.2.trans hs1⟩⟩
  | err e rt2 => rw [hmr] at h2; rw [bind_err hmr]; exact FailRel.of_pushed hs1 hl1 h2
  | crash s rt2 => rw [hmr] at h2; rw [bind_crash hmr]; exact ⟨h2.1, FailRel.of_pushed hs1 hl1 h2.2⟩
  | fuel => rw [bind_fuel hmr]; trivial
  | unsupported w => rw [bind_unsupported hmr]; trivial

/-- does this action's assignment open the list's let-scope? -/
def opensSet (set : Option SetN) : Bool :=
  match set with
  | some st => st.isLet
  | none => false

theorem stmtOpensLet_action (loc : Loc) (set : Option SetN) (pipe : Option Pipe) :
    stmtOpensLet (.action loc set pipe) = opensSet set := by
  cases set <;> rfl

theorem spost_actionSet (hr : RecScoped r) (env : Env) (b : Bool) (set : Option SetN) (rt : RT) (h : SWF rt) :
    SPostO id (!b && opensSet set) b rt (actionSet r env b set rt) := by
  have ha := scoped_executeAssign hr env
  cases set with
  | none =>
    have : (!b && opensSet none) = false := by cases b <;> rfl
    rw [this]
    exact ⟨h, Nat.le_refl _, rfl, rfl⟩
  | some st =>
    unfold actionSet
    dsimp only [opensSet]
    cases hl : st.isLet with
    | false =>
      rw [Bool.and_false]
      exact spostO_keep (ha st) id (fun _ => b) b (fun _ => rfl) rt h
    | true =>
      cases b with
      | false => exact spostO_open (ha st) id (fun _ => true) false (fun _ => rfl) rt h
      | true => exact spostO_keep (ha st) id (fun _ => true) true (fun _ => rfl) rt h

/-- the new `inNewScope` flag in a statement's result -/
def stmtFlag (x : Val × Val × Bool) : Bool := x.2.2

theorem spost_execStmt (hr : RecScoped r) (env : Env) (b : Bool) (s : Stmt) (rt : RT) (h : SWF rt) :
    SPostO stmtFlag (!b && stmtOpensLet s) b rt (execStmt r env b s rt) := by
  have nf : ∀ s', stmtOpensLet s' = false → (!b && stmtOpensLet s') = false := by
    intro s' hs'; rw [hs', Bool.and_false]
  cases s with
  | text loc bts =>
    rw [nf _ rfl]
    exact spostO_keep (scoped_writeLit bts) stmtFlag (fun _ => (Val.invalid, Val.invalid, b)) b (fun _ => rfl) rt h
  | action loc set pipe =>
    rw [stmtOpensLet_action]
    unfold execStmt
    dsimp only
    have h1 := spost_actionSet hr env b set rt h
    cases hs : actionSet r env b set rt with
    | ok ins rt1 =>
      rw [hs] at h1
      rw [bind_ok hs]
      obtain ⟨w1, l1, o1⟩ := h1
      have h2 := (scoped_actionPipe hr env pipe).post rt1 w1
      cases hp : actionPipe r env pipe rt1 with
      | ok u rt2 =>
        rw [hp] at h2
        rw [bind_ok hp]
        refine ⟨h2.1.swf, Nat.le_trans l1 h2.1.len, ?_⟩
        show if (!b && opensSet set) = true then ins = true ∧ ∃ id, rt2.scope = id :: rt.scope
          else ins = b ∧ rt2.scope = rt.scope
        rw [h2.2]
        exact o1
      | err e rt2 =>
        rw [hp] at h2; rw [bind_err hp]
        cases ho : (!b && opensSet set) with
        | false =>
          rw [ho] at o1
          exact FailRel.of_same o1.2 l1 h2
        | true =>
          rw [ho] at o1
          obtain ⟨_, id, hid⟩ := o1
          exact FailRel.of_pushed hid l1 h2
      | crash m rt2 =>
        rw [hp] at h2; rw [bind_crash hp]
        refine ⟨h2.1, ?_⟩
        cases ho : (!b && opensSet set) with
        | false =>
          rw [ho] at o1
          exact FailRel.of_same o1.2 l1 h2.2
        | true =>
          rw [ho] at o1
          obtain ⟨_, id, hid⟩ := o1
          exact FailRel.of_pushed hid l1 h2.2
      | fuel => rw [bind_fuel hp]; trivial
      | unsupported w => rw [bind_unsupported hp]; trivial
    | err e rt1 => rw [hs] at h1; rw [bind_err hs]; exact h1
    | crash m rt1 => rw [hs] at h1; rw [bind_crash hs]; exact h1
    | fuel => rw [bind_fuel hs]; trivial
    | unsupported w => rw [bind_unsupported hs]; trivial
  | ifS loc set cond thn els =>
    rw [nf _ rfl]
    exact spostO_keep (scoped_execIf hr env set cond thn els) stmtFlag (fun ret => (ret, Val.invalid, b)) b (fun _ => rfl) rt h
  | rangeS loc set e body els =>
    rw [nf _ rfl]
    exact spostO_keep (scoped_execRange hr env loc set e body els) stmtFlag (fun ret => (ret, Val.invalid, b)) b (fun _ => rfl) rt h
  | block loc name params ctx body content =>
    rw [nf _ rfl]
    exact spostO_keep (scoped_execBlock hr env loc name params ctx body content) stmtFlag (fun _ => (Val.invalid, Val.invalid, b)) b (fun _ => rfl) rt h
  | yield loc name params ctx content isContent =>
    rw [nf _ rfl]
    exact spostO_keep (scoped_execYield hr env loc name params ctx content isContent) stmtFlag (fun _ => (Val.invalid, Val.invalid, b)) b (fun _ => rfl) rt h
  | «include» loc name ctx =>
    rw [nf _ rfl]
    exact spostO_keep (scoped_executeInclude hr env loc name ctx) stmtFlag (fun ret => (ret, Val.invalid, b)) b (fun _ => rfl) rt h
  | tryS loc body hc cv cb =>
    rw [nf _ rfl]
    exact spostO_keep (scoped_executeTry hr env body hc cv cb) stmtFlag (fun ret => (ret, Val.invalid, b)) b (fun _ => rfl) rt h
  | ret loc e =>
    rw [nf _ rfl]
    exact spostO_keep (hr.evalExpr env e) stmtFlag (fun v => (Val.invalid, v, b)) b (fun _ => rfl) rt h

/-- outcome of the statement loop relative to the runtime `a` the LIST started from -/
def SPostGo (a : RT) : Res (Val × Bool) → Prop
  | .ok x rt' => SWF rt' ∧ a.frames.length ≤ rt'.frames.length ∧
      (x.2 = true → ∃ id, rt'.scope = id :: a.scope) ∧ (x.2 = false → rt'.scope = a.scope)
  | .err _ rt' => Kept a rt'
  | .crash m rt' => ¬ ScopeMsg m ∧ Kept a rt'
  | .fuel => True
  | .unsupported _ => True

theorem exists_concat_of_ne_nil {α} : ∀ xs : List α, xs ≠ [] → ∃ ys y, xs = ys ++ [y]
  | [], h => absurd rfl h
  | [x], _ => ⟨[], x, rfl⟩
  | x :: y :: t, _ =>
    let ⟨ys, z, h⟩ := exists_concat_of_ne_nil (y :: t) (by simp)
    ⟨x :: ys, z, by rw [h]; rfl⟩

/-- the deferred `releaseScope` of a list, run because a statement failed: if it was registered
    (`b || opens`) the chain it sees is at least one level above the chain the list started from -/
theorem kept_fail_pop {a rt rt1 : RT} {b opens : Bool} (ha : SWF a) (hla : a.frames.length ≤ rt.frames.length)
    (hb1 : b = true → ∃ id, rt.scope = id :: a.scope) (hb2 : b = false → rt.scope = a.scope)
    (f : FailRel (!b && opens) rt rt1) :
    Kept a (if (b || opens) = true then popScope rt1 else rt1) := by
  obtain ⟨xs, hx, hne⟩ := f.suffix
  have hl : a.frames.length ≤ rt1.frames.length := Nat.le_trans hla f.len
  cases b with
  | true =>
    obtain ⟨id, hid⟩ := hb1 rfl
    show Kept a (popScope rt1)
    exact kept_popScope ha f.swf hl ⟨xs, by rw [hx, hid]⟩
  | false =>
    have hs := hb2 rfl
    cases opens with
    | false =>
      show Kept a rt1
      exact ⟨f.swf, hl, ⟨xs, by rw [hx, hs]⟩⟩
    | true =>
      obtain ⟨ys, y, hy⟩ := exists_concat_of_ne_nil xs (hne rfl)
      show Kept a (popScope rt1)
      exact kept_popScope (id := y) ha f.swf hl ⟨ys, by rw [hx, hs, hy]; simp⟩

theorem spost_execListGo (hr : RecScoped r) (env : Env) :
    ∀ (l : List Stmt) (rv : Val) (b : Bool) (rt a : RT), SWF a → SWF rt →
      a.frames.length ≤ rt.frames.length →
      (b = true → ∃ id, rt.scope = id :: a.scope) → (b = false → rt.scope = a.scope) →
      SPostGo a (execListGo r env l rv b rt) := by
  intro l
  induction l with
  | nil => intro rv b rt a _ hrt hl hb1 hb2; exact ⟨hrt, hl, hb1, hb2⟩
  | cons s rest ih =>
    intro rv b rt a ha hrt hl hb1 hb2
    unfold execListGo
    have h1 := spost_execStmt hr env b s rt hrt
    cases hs : execStmt r env b s rt with
    | ok x rt1 =>
      rw [hs] at h1
      obtain ⟨ret, rv2, ins⟩ := x
      obtain ⟨w1, l1, o1⟩ := h1
      dsimp only
      apply ih _ ins rt1 a ha w1 (Nat.le_trans hl l1)
      · intro hins
        cases ho : (!b && stmtOpensLet s) with
        | true =>
          rw [ho] at o1
          obtain ⟨_, id, hid⟩ := o1
          have hb : b = false := by cases b <;> simp_all
          exact ⟨id, by rw [hid, hb2 hb]⟩
        | false =>
          rw [ho] at o1
          have hb : b = true := by rw [← o1.1]; exact hins
          obtain ⟨id, hid⟩ := hb1 hb
          exact ⟨id, by rw [o1.2, hid]⟩
      · intro hins
        cases ho : (!b && stmtOpensLet s) with
        | true =>
          rw [ho] at o1
          have : stmtFlag (ret, rv2, ins) = true := o1.1
          rw [show stmtFlag (ret, rv2, ins) = ins from rfl, hins] at this
          cases this
        | false =>
          rw [ho] at o1
          have hb : b = false := by rw [← o1.1]; exact hins
          rw [o1.2, hb2 hb]
    | err e rt1 => rw [hs] at h1; exact kept_fail_pop ha hl hb1 hb2 h1
    | crash m rt1 => rw [hs] at h1; exact ⟨h1.1, kept_fail_pop ha hl hb1 hb2 h1.2⟩
    | fuel => trivial
    | unsupported w => trivial

/-- `executeList`: however the list ends, the chain ends in the chain it started from; on success
    it is that chain -/
theorem scoped_execListF (hr : RecScoped r) (env : Env) (l : List Stmt) : Scoped (execListF r env l) := by
  refine ⟨fun rt h => ?_⟩
  unfold execListF
  have h1 := spost_execListGo hr env l .invalid false rt rt h h (Nat.le_refl _)
    (fun hb => by cases hb) (fun _ => rfl)
  cases hg : execListGo r env l .invalid false rt with
  | ok x rt1 =>
    rw [hg] at h1
    obtain ⟨v, ins⟩ := x
    obtain ⟨w1, l1, o1, o2⟩ := h1
    cases ins with
    | false => exact ⟨⟨w1, l1, ⟨[], o2 rfl⟩⟩, o2 rfl⟩
    | true =>
      obtain ⟨id, hid⟩ := o1 rfl
      refine ⟨kept_popScope h w1 l1 ⟨[], hid⟩, ?_⟩
      show (popScope rt1).scope = rt.scope
      rw [(popScope_same rt1).2.2, hid]; rfl
  | err e rt1 => rw [hg] at h1; exact h1
  | crash m rt1 => rw [hg] at h1; exact h1
  | fuel => trivial
  | unsupported w => trivial

/-- one level of the interpreter preserves the invariant -/
theorem recScoped_step (hr : RecScoped r) : RecScoped (stepRec r) :=
  ⟨fun env e => scoped_evalExprF hr env e, fun env l => scoped_execListF hr env l,
   fun env e => scoped_isSetF hr env e⟩

/-- the invariant holds at every fuel level -/
theorem recScoped_recAt : ∀ n, RecScoped (recAt n)
  | 0 => recScoped_bottom
  | n + 1 => recScoped_step (recScoped_recAt n)

end JetVerif.Eval
