/-
  The shape of the trees the parser model builds: the predicates.

  Lemmas/EvalTotal.lean proves the evaluator total on syntax trees satisfying `ExprWf`, `SetWf`, `RangeHeadWf`,
  `PipeWf`, `CmdWf`, `StmtWf`, `TmplWf` ("what the parser guarantees").  The predicates below say the same of
  the PARSER's trees (`PExpr`, `PSet`, `PCmd`, `PPipe`, `PParam`, `PStmt`, `PTmpl` of Model/Parse.lean):
  Lemmas/ParseShape.lean proves them of every production, Lemmas/ShapeErase.lean proves that the erasure of
  Driver/ExecSrc.lean maps them to the evaluator's predicates.
-/
import JetVerif.Model.Parse

namespace JetVerif.Parse

/-- the node is the pipe slot marker `_` -/
def PExpr.isUnd : PExpr → Bool
  | .underscore _ => true
  | _ => false

/-- the test `multiplicativeLoop` makes before it builds a multiplicative node -/
def MulTok (op : Tok) : Prop := Tok.mul.code ≤ op.code ∧ op.code ≤ Tok.mod.code

/-- `parseArgumentsLoop`: a `_` among the arguments sets `hasSlot` -/
def SlotShape (args : List PExpr) (slot : Bool) : Prop := args.any PExpr.isUnd = true → slot = true

mutual
def PExpr.Shaped : PExpr → Prop
  | .ident _ _ => True
  | .field _ _ => True
  | .chain _ b _ => PExpr.Shaped b
  | .underscore _ => True
  | .nilLit _ => True
  | .boolLit _ _ => True
  | .strLit _ _ => True
  | .numLit _ _ _ => True
  | .binary k _ op lo r => PExpr.ShapedOpt lo ∧ PExpr.Shaped r ∧ (k = BinKind.mul → MulTok op)
  | .not _ e => PExpr.Shaped e
  | .ternary _ c a b => PExpr.Shaped c ∧ PExpr.Shaped a ∧ PExpr.Shaped b
  | .call _ b args slot => PExpr.Shaped b ∧ PExpr.ShapedList args ∧ SlotShape args slot
  | .index _ b i => PExpr.Shaped b ∧ PExpr.ShapedOpt i
  | .slice _ b i j => PExpr.Shaped b ∧ PExpr.ShapedOpt i ∧ PExpr.ShapedOpt j
def PExpr.ShapedOpt : Option PExpr → Prop
  | none => True
  | some e => PExpr.Shaped e
def PExpr.ShapedList : List PExpr → Prop
  | [] => True
  | e :: es => PExpr.Shaped e ∧ PExpr.ShapedList es
end

/-- what a type of parser results has to satisfy -/
class Shp (α : Type) where
  ok : α → Prop

instance : Shp PExpr := ⟨PExpr.Shaped⟩
instance : Shp Nat := ⟨fun _ => True⟩
instance : Shp Item := ⟨fun _ => True⟩
instance : Shp Tok := ⟨fun _ => True⟩
instance : Shp Unit := ⟨fun _ => True⟩
instance : Shp Bool := ⟨fun _ => True⟩
instance : Shp UInt8 := ⟨fun _ => True⟩
instance : Shp PSt := ⟨fun _ => True⟩
instance {α β} [Shp α] [Shp β] : Shp (α × β) := ⟨fun p => Shp.ok p.1 ∧ Shp.ok p.2⟩
instance {α β} [Shp α] [Shp β] : Shp (α ⊕ β) :=
  ⟨fun p => match p with | .inl a => Shp.ok a | .inr b => Shp.ok b⟩
instance {α} [Shp α] : Shp (Option α) := ⟨fun o => ∀ a, o = some a → Shp.ok a⟩
instance {α} [Shp α] : Shp (List α) := ⟨fun l => ∀ a, a ∈ l → Shp.ok a⟩

/-- a left side: `assignLeftLoop` accepts only assignable nodes (identifier, field, chain, `_`), and
    `assignmentOrExpression` rejects `:=` with a left side that is not an identifier or `_` -/
def LeftShape (isLet : Bool) (e : PExpr) : Prop :=
  assignable e.nt = true ∧ (isLet = true → e.nt = NT.ident ∨ e.nt = NT.underscore)

/-- what every assignment node has, in a range header or not: shaped operands, assignable left sides, at
    least one of each, and the two-target lookup form only with two left sides -/
def PSet.Shaped (s : PSet) : Prop :=
  Shp.ok s.left ∧ Shp.ok s.right ∧ (∀ l, l ∈ s.left → LeftShape s.isLet l) ∧ s.left ≠ [] ∧ s.right ≠ [] ∧
    (s.lookup = true → s.left.length = 2)
instance : Shp PSet := ⟨PSet.Shaped⟩

/-- outside a range header: as many right sides as left sides unless it is the lookup form -/
def PSet.LenOk (s : PSet) : Prop := s.lookup = false → s.left.length ≤ s.right.length

def PSet.LenOkOpt : Option PSet → Prop
  | none => True
  | some s => s.LenOk

def PCmd.argList (c : PCmd) : List PExpr := c.args.getD []

def PCmd.Shaped (c : PCmd) : Prop := Shp.ok c.base ∧ Shp.ok c.args ∧ SlotShape c.argList c.hasSlot
instance : Shp PCmd := ⟨PCmd.Shaped⟩

/-- `pipeline` parses a first command before it looks for `|` -/
def PPipe.Shaped (p : PPipe) : Prop := p.cmds ≠ [] ∧ Shp.ok p.cmds
instance : Shp PPipe := ⟨PPipe.Shaped⟩

def PParam.Shaped (p : PParam) : Prop := Shp.ok p.dflt
instance : Shp PParam := ⟨PParam.Shaped⟩

mutual
def PStmt.Shaped : PStmt → Prop
  | .text _ _ => True
  | .action _ set pipe => Shp.ok set ∧ PSet.LenOkOpt set ∧ Shp.ok pipe
  | .branch isIf _ set e _ list els =>
    -- an `if` header's assignment has matching sides; a header has an assignment or an expression
    Shp.ok set ∧ (isIf = true → PSet.LenOkOpt set) ∧ (set = none → e ≠ none) ∧ Shp.ok e ∧
      PStmt.ShapedList list ∧ PStmt.ShapedEls els
  | .block _ _ params ctx _ list content =>
    Shp.ok params ∧ Shp.ok ctx ∧ PStmt.ShapedList list ∧ PStmt.ShapedEls content
  | .yield _ _ params ctx content isContent =>
    (isContent = false → params.isSome = true) ∧ Shp.ok params ∧ Shp.ok ctx ∧ PStmt.ShapedEls content
  | .include _ name ctx => Shp.ok name ∧ Shp.ok ctx
  | .tryS _ _ list catchC => PStmt.ShapedList list ∧ PStmt.ShapedCatch catchC
  | .ret _ e => Shp.ok e
  | .endM => True
  | .elseM _ => True
  | .contentM => True
  | .catchM _ _ _ list => PStmt.ShapedList list
def PStmt.ShapedList : List PStmt → Prop
  | [] => True
  | e :: es => PStmt.Shaped e ∧ PStmt.ShapedList es
def PStmt.ShapedEls : Option (Nat × List PStmt) → Prop
  | none => True
  | some (_, list) => PStmt.ShapedList list
def PStmt.ShapedCatch : Option (Nat × Option (Nat × Bytes) × Nat × List PStmt) → Prop
  | none => True
  | some (_, _, _, list) => PStmt.ShapedList list
end

instance : Shp PStmt := ⟨PStmt.Shaped⟩

/-- the root list and every registered block -/
def PTmpl.Shaped (t : PTmpl) : Prop := (∀ n ∈ t.root, PStmt.Shaped n) ∧ (∀ b ∈ t.passed, PStmt.Shaped b.2)

theorem PExpr.shapedList_iff (l : List PExpr) : PExpr.ShapedList l ↔ ∀ e, e ∈ l → PExpr.Shaped e := by
  induction l with
  | nil => simp [PExpr.ShapedList]
  | cons e es ih => simp [PExpr.ShapedList, ih]

theorem PExpr.shapedOpt_iff (o : Option PExpr) : PExpr.ShapedOpt o ↔ ∀ e, o = some e → PExpr.Shaped e := by
  cases o <;> simp [PExpr.ShapedOpt]

theorem PStmt.shapedList_iff (l : List PStmt) : PStmt.ShapedList l ↔ ∀ e, e ∈ l → PStmt.Shaped e := by
  induction l with
  | nil => simp [PStmt.ShapedList]
  | cons e es ih => simp [PStmt.ShapedList, ih]

end JetVerif.Parse
