/-
  Every tree the parser model builds has the shape the evaluator theorems assume.

  The predicates are in Lemmas/ParseShapeDefs.lean.  As in Lemmas/ParseLines.lean a partial-correctness triple
  `Holds m Q` ("if `m` returns `a` from a state whose registered blocks are all shaped, so are the registered
  blocks of the new state, and `Q a`") is proved of all productions of Model/Parse.lean by induction on the
  fuel, production by production.  `registerBlock` is the only writer of `passed`; the tests the
  productions make before they build a node (`if`s and `match`es) are what the shapes record, so the
  conditional rule hands the test to the branch.
-/
import JetVerif.Lemmas.ParseShapeDefs
import JetVerif.Lemmas.ParseExpr

namespace JetVerif.Parse

/-! ### unfolding lemmas -/

section oklemmas

@[simp] theorem sk_nat (l : Nat) : Shp.ok l ↔ True := Iff.rfl
@[simp] theorem sk_item (t : Item) : Shp.ok t ↔ True := Iff.rfl
@[simp] theorem sk_tok (t : Tok) : Shp.ok t ↔ True := Iff.rfl
@[simp] theorem sk_unit (t : Unit) : Shp.ok t ↔ True := Iff.rfl
@[simp] theorem sk_bool (t : Bool) : Shp.ok t ↔ True := Iff.rfl
@[simp] theorem sk_pst (t : PSt) : Shp.ok t ↔ True := Iff.rfl
@[simp] theorem sk_bytes (t : Bytes) : Shp.ok t ↔ True := ⟨fun _ => trivial, fun _ _ _ => trivial⟩
@[simp] theorem sk_bytesList (t : List Bytes) : Shp.ok t ↔ True :=
  ⟨fun _ => trivial, fun _ _ _ => (sk_bytes _).2 trivial⟩
@[simp] theorem sk_prod {α β} [Shp α] [Shp β] (a : α) (b : β) :
    Shp.ok (a, b) ↔ Shp.ok a ∧ Shp.ok b := Iff.rfl
@[simp] theorem sk_prod' {α β} [Shp α] [Shp β] (p : α × β) :
    Shp.ok p ↔ Shp.ok p.1 ∧ Shp.ok p.2 := Iff.rfl
@[simp] theorem sk_inl {α β} [Shp α] [Shp β] (a : α) : Shp.ok (Sum.inl a : α ⊕ β) ↔ Shp.ok a := Iff.rfl
@[simp] theorem sk_inr {α β} [Shp α] [Shp β] (b : β) : Shp.ok (Sum.inr b : α ⊕ β) ↔ Shp.ok b := Iff.rfl
@[simp] theorem sk_none {α} [Shp α] : Shp.ok (none : Option α) ↔ True :=
  ⟨fun _ => trivial, fun _ _ h => by cases h⟩
@[simp] theorem sk_some {α} [Shp α] (a : α) : Shp.ok (some a) ↔ Shp.ok a :=
  ⟨fun h => h a rfl, fun h b e => by cases e; exact h⟩
@[simp] theorem sk_nil {α} [Shp α] : Shp.ok ([] : List α) ↔ True :=
  ⟨fun _ => trivial, fun _ _ h => by cases h⟩
@[simp] theorem sk_cons {α} [Shp α] (a : α) (l : List α) :
    Shp.ok (a :: l) ↔ Shp.ok a ∧ Shp.ok l := by
  show (∀ x, x ∈ a :: l → Shp.ok x) ↔ Shp.ok a ∧ (∀ x, x ∈ l → Shp.ok x)
  simp
@[simp] theorem sk_append {α} [Shp α] (l1 l2 : List α) :
    Shp.ok (l1 ++ l2) ↔ Shp.ok l1 ∧ Shp.ok l2 := by
  show (∀ x, x ∈ l1 ++ l2 → Shp.ok x) ↔ (∀ x, x ∈ l1 → Shp.ok x) ∧ (∀ x, x ∈ l2 → Shp.ok x)
  simp [or_imp, forall_and]
theorem sk_list {α} [Shp α] (l : List α) : Shp.ok l ↔ ∀ a, a ∈ l → Shp.ok a := Iff.rfl

theorem sk_exprList (l : List PExpr) : PExpr.ShapedList l ↔ Shp.ok l := PExpr.shapedList_iff l
theorem sk_exprOpt (o : Option PExpr) : PExpr.ShapedOpt o ↔ Shp.ok o := PExpr.shapedOpt_iff o
theorem sk_stmtList (l : List PStmt) : PStmt.ShapedList l ↔ Shp.ok l := PStmt.shapedList_iff l
theorem sk_stmtEls (o : Option (Nat × List PStmt)) : PStmt.ShapedEls o ↔ Shp.ok o := by
  cases o with
  | none => simp [PStmt.ShapedEls]
  | some p => obtain ⟨l, list⟩ := p; simp [PStmt.ShapedEls, sk_stmtList]
@[simp] theorem sk_errVar (ev : Option (Nat × Bytes)) : Shp.ok ev ↔ True :=
  ⟨fun _ => trivial, fun _ _ _ => ⟨trivial, (sk_bytes _).2 trivial⟩⟩
theorem sk_stmtCatch (o : Option (Nat × Option (Nat × Bytes) × Nat × List PStmt)) :
    PStmt.ShapedCatch o ↔ Shp.ok o := by
  cases o with
  | none => simp [PStmt.ShapedCatch]
  | some p =>
    obtain ⟨l, ev, ll, list⟩ := p
    have : Shp.ok ev := by intro a _; exact ⟨trivial, (sk_bytes _).2 trivial⟩
    simp [PStmt.ShapedCatch, sk_stmtList, this]

@[simp] theorem sk_expr (e : PExpr) : Shp.ok e ↔ PExpr.Shaped e := Iff.rfl
@[simp] theorem sk_stmt (e : PStmt) : Shp.ok e ↔ PStmt.Shaped e := Iff.rfl
@[simp] theorem sk_set (e : PSet) : Shp.ok e ↔ PSet.Shaped e := Iff.rfl
@[simp] theorem sk_cmd (e : PCmd) : Shp.ok e ↔ PCmd.Shaped e := Iff.rfl
@[simp] theorem sk_pipe (e : PPipe) : Shp.ok e ↔ PPipe.Shaped e := Iff.rfl
@[simp] theorem sk_param (e : PParam) : Shp.ok e ↔ PParam.Shaped e := Iff.rfl

theorem isUnd_iff_nt (e : PExpr) : e.isUnd = true ↔ e.nt = NT.underscore := by
  cases e <;> simp [PExpr.isUnd, PExpr.nt]
  rename_i k _ _ _ _
  cases k <;> simp

theorem slotShape_nil (b : Bool) : SlotShape [] b := by simp [SlotShape]

end oklemmas

/-- what `parseArguments` returns: shaped arguments, and the slot flag is set if one of them is `_` -/
def ArgsQ (p : List PExpr × Bool) : Prop := Shp.ok p.1 ∧ SlotShape p.1 p.2

/-- closes a goal "`x` is shaped" from the hypotheses about its parts -/
syntax "sok" : tactic
macro_rules | `(tactic| sok) => `(tactic| first
  | trivial
  | assumption
  | (simp_all [PExpr.Shaped, PStmt.Shaped, PSet.Shaped, PCmd.Shaped, PPipe.Shaped, PParam.Shaped, PCmd.argList,
      PSet.LenOkOpt, MulTok, ArgsQ, sk_exprList, sk_exprOpt, sk_stmtList, sk_stmtEls, sk_stmtCatch, slotShape_nil]; done))

/-! ### the triple -/

/-- the part of the state the argument is about: every block registered so far is shaped -/
def JS (s : PSt) : Prop := ∀ b, b ∈ s.passed → PStmt.Shaped b.2

/-- if `m` returns, `JS` still holds and the value returned satisfies `Q` -/
def Holds {α} (m : PM α) (Q : α → Prop) : Prop :=
  ∀ s, JS s → ∀ a s', m s = .ok a s' → JS s' ∧ Q a

/-- `Holds` with the canonical postcondition of the result type -/
abbrev HoldsOk {α} [Shp α] (m : PM α) : Prop := Holds m Shp.ok

section rules

theorem Holds.bind {α β} {m : PM α} {f : α → PM β} {P : α → Prop} {R : β → Prop}
    (hm : Holds m P) (hf : ∀ a, P a → Holds (f a) R) : Holds (m >>= f) R := by
  intro s hs b s' h
  rw [bind_apply] at h
  cases hms : m s with
  | ok a s1 =>
    rw [hms] at h
    obtain ⟨h1, h2⟩ := hm s hs a s1 hms
    exact hf a h2 s1 h1 b s' h
  | err l msg => rw [hms] at h; simp [PRes.andThen] at h
  | crash w => rw [hms] at h; simp [PRes.andThen] at h
  | fuel => rw [hms] at h; simp [PRes.andThen] at h
  | unsupported w => rw [hms] at h; simp [PRes.andThen] at h

theorem Holds.pure {α} {Q : α → Prop} {a : α} (h : Q a) : Holds (Pure.pure a : PM α) Q := by
  intro s hs b s' e
  simp at e
  obtain ⟨rfl, rfl⟩ := e
  exact ⟨hs, h⟩

/-- the branch knows the outcome of the test -/
theorem Holds.ite {α} {c : Prop} [Decidable c] {m1 m2 : PM α} {Q : α → Prop}
    (h1 : c → Holds m1 Q) (h2 : ¬ c → Holds m2 Q) : Holds (if c then m1 else m2) Q := by
  by_cases hc : c
  · simp [hc]; exact h1 hc
  · simp [hc]; exact h2 hc

theorem Holds.post {α} {m : PM α} {Q Q' : α → Prop} (h : Holds m Q) (hq : ∀ a, Q a → Q' a) : Holds m Q' :=
  fun s hs a s' e => ⟨(h s hs a s' e).1, hq a (h s hs a s' e).2⟩

theorem Holds.outOfFuel {α} {Q : α → Prop} : Holds (outOfFuel : PM α) Q := by
  intro s _ a s' e; simp [Parse.outOfFuel] at e
theorem Holds.unsupported {α} {Q : α → Prop} (w : String) : Holds (unsupported w : PM α) Q := by
  intro s _ a s' e; simp [Parse.unsupported] at e
theorem Holds.crash {α} {Q : α → Prop} (w : String) : Holds (crash w : PM α) Q := by
  intro s _ a s' e; simp [Parse.crash] at e
theorem Holds.errorf {α} {Q : α → Prop} (ps : List MP) : Holds (errorf ps : PM α) Q := by
  intro s _ a s' e
  unfold Parse.errorf at e
  split at e <;> simp at e
theorem Holds.unexpected {α} {Q : α → Prop} (tk : Item) (c x : String) : Holds (unexpected tk c x : PM α) Q := by
  unfold Parse.unexpected
  exact Holds.ite (fun _ => Holds.errorf _) (fun _ => Holds.ite (fun _ => Holds.errorf _) (fun _ => Holds.errorf _))

theorem Holds.get : Holds get Shp.ok := by
  intro s hs a s' e
  simp [Parse.get] at e
  obtain ⟨rfl, rfl⟩ := e
  exact ⟨hs, trivial⟩

/-- a state update that does not touch the registered blocks -/
theorem Holds.modify (f : PSt → PSt) (hf : ∀ s, (f s).passed = s.passed) :
    Holds (modify f) Shp.ok := by
  intro s hs a s' e
  simp [Parse.modify] at e
  obtain ⟨rfl, rfl⟩ := e
  exact ⟨by unfold JS; rw [hf s]; exact hs, trivial⟩

/-- a production that leaves the registered blocks alone -/
theorem Holds.raw {α} [Shp α] {m : PM α} (hok : ∀ a : α, Shp.ok a)
    (h : ∀ (s : PSt) (a : α) (s' : PSt), m s = .ok a s' → s'.passed = s.passed) :
    Holds m Shp.ok := by
  intro s hs a s' e
  have h2 := h s a s' e
  exact ⟨by unfold JS; rw [h2]; exact hs, hok a⟩

theorem Holds.lineNumber : Holds lineNumber Shp.ok := by
  refine Holds.raw (fun _ => trivial) ?_
  intro s a s' e
  unfold Parse.lineNumber at e
  split at e <;> simp at e
  obtain ⟨_, rfl⟩ := e; rfl

theorem Holds.nextItem : Holds nextItem Shp.ok := by
  refine Holds.raw (fun _ => trivial) ?_
  intro s a s' e
  unfold Parse.nextItem at e
  split at e <;> simp at e <;> obtain ⟨_, rfl⟩ := e <;> rfl

theorem Holds.tokenAt (i : Nat) : Holds (tokenAt i) Shp.ok := by
  refine Holds.raw (fun _ => trivial) ?_
  intro s a s' e
  unfold Parse.tokenAt at e
  split at e <;> simp at e <;> obtain ⟨_, rfl⟩ := e <;> rfl

theorem Holds.fieldNames (v : Bytes) : Holds (fieldNames v) Shp.ok := by
  refine Holds.raw (fun _ => (sk_bytesList _).2 trivial) ?_
  intro s a s' e
  unfold Parse.fieldNames at e
  split at e
  · simp [Parse.crash] at e
  · simp at e; obtain ⟨_, rfl⟩ := e; rfl

theorem Holds.chainAdd (fields : List Bytes) (v : Bytes) : Holds (chainAdd fields v) Shp.ok := by
  refine Holds.raw (fun _ => (sk_bytesList _).2 trivial) ?_
  intro s a s' e
  unfold Parse.chainAdd at e
  split at e
  · split at e
    · simp [Parse.crash] at e
    · simp at e; obtain ⟨_, rfl⟩ := e; rfl
  · simp [Parse.crash] at e

/-- registering a shaped block keeps all registered blocks shaped -/
theorem Holds.registerBlock (name : Bytes) (b : PStmt) (hb : Shp.ok b) :
    Holds (registerBlock name b) Shp.ok := by
  intro s hs a s' e
  simp [Parse.registerBlock, Parse.modify] at e
  obtain ⟨_, rfl⟩ := e
  refine ⟨?_, trivial⟩
  split
  · intro x hx
    simp at hx
    obtain ⟨y1, y2, hy, hxy⟩ := hx
    split at hxy
    · rw [← hxy]; exact hb
    · rw [← hxy]; exact hs _ hy
  · intro x hx
    simp at hx
    rcases hx with hx | rfl
    · exact hs _ hx
    · exact hb

end rules

/-! ### the proof steps -/

/-- closes a `Holds` goal about a primitive (extended below as primitives are proved) -/
syntax "sprim" : tactic
macro_rules | `(tactic| sprim) => `(tactic| first
  | exact Holds.errorf _ | exact Holds.unexpected _ _ _ | exact Holds.unsupported _ | exact Holds.outOfFuel
  | exact Holds.crash _ | exact Holds.get | exact Holds.lineNumber | exact Holds.nextItem | exact Holds.tokenAt _
  | exact Holds.fieldNames _ | exact Holds.chainAdd _ _ | exact Holds.modify _ (fun _ => rfl)
  | (refine Holds.registerBlock _ _ ?_; sok))

/-- closes a `Holds` goal that is a call of a production already dealt with (extended below) -/
syntax "scall" : tactic
macro_rules | `(tactic| scall) => `(tactic| fail "no production")

macro "sstep" : tactic => `(tactic| first
  | sprim
  | scall
  | (refine Holds.pure ?_; try sok)
  | (apply Holds.bind ?hm (fun _ _ => ?hf); case hm => scall)
  | refine Holds.bind (P := Shp.ok) ?_ (fun _ _ => ?_)
  | refine Holds.ite (fun _ => ?_) (fun _ => ?_)
  | (show Holds _ _; split))
macro "sauto" : tactic => `(tactic| repeat' sstep)

section prims

theorem Holds.next : Holds next Shp.ok := by unfold Parse.next; sauto
macro_rules | `(tactic| sprim) => `(tactic| exact Holds.next)
theorem Holds.backup : Holds backup Shp.ok := by unfold Parse.backup; sauto
macro_rules | `(tactic| sprim) => `(tactic| exact Holds.backup)
theorem Holds.backup2 (t : Item) : Holds (backup2 t) Shp.ok := by unfold Parse.backup2; sauto
macro_rules | `(tactic| sprim) => `(tactic| exact Holds.backup2 _)
theorem Holds.peek : Holds peek Shp.ok := by unfold Parse.peek; sauto
macro_rules | `(tactic| sprim) => `(tactic| exact Holds.peek)

theorem Holds.nextNonSpaceLoop : ∀ n, Holds (nextNonSpaceLoop n) Shp.ok
  | 0 => Holds.outOfFuel
  | n + 1 => by
    have ih := Holds.nextNonSpaceLoop n
    unfold Parse.nextNonSpaceLoop
    sauto
    exact ih
theorem Holds.nextNonSpace : Holds nextNonSpace Shp.ok :=
  fun s hs a s' e => Holds.nextNonSpaceLoop _ s hs a s' e
macro_rules | `(tactic| sprim) => `(tactic| exact Holds.nextNonSpace)
theorem Holds.peekNonSpace : Holds peekNonSpace Shp.ok := by unfold Parse.peekNonSpace; sauto
macro_rules | `(tactic| sprim) => `(tactic| exact Holds.peekNonSpace)
theorem Holds.expect (ty : Tok) (c e : String) : Holds (expect ty c e) Shp.ok := by
  unfold Parse.expect; sauto
macro_rules | `(tactic| sprim) => `(tactic| exact Holds.expect _ _ _)
theorem Holds.expectRightDelim (c : String) : Holds (expectRightDelim c) Shp.ok := Holds.expect _ _ _
macro_rules | `(tactic| sprim) => `(tactic| exact Holds.expectRightDelim _)
theorem Holds.expectOneOf (t1 t2 : Tok) (c e : String) : Holds (expectOneOf t1 t2 c e) Shp.ok := by
  unfold Parse.expectOneOf; sauto
macro_rules | `(tactic| sprim) => `(tactic| exact Holds.expectOneOf _ _ _ _)
theorem Holds.expectString (cfg : Cfg) (c : String) : Holds (expectString cfg c) Shp.ok := by
  unfold Parse.expectString; sauto
macro_rules | `(tactic| sprim) => `(tactic| exact Holds.expectString _ _)

end prims

/-! ### the expression productions -/

variable (cfg : Cfg)

structure ExprShapes (n : Nat) : Prop where
  term : HoldsOk (term cfg n)
  chainLoop : ∀ acc, HoldsOk (chainLoop n acc)
  operandReset : ∀ node, Shp.ok node → HoldsOk (operandReset cfg n node)
  operand : ∀ ctx, HoldsOk (operand cfg n ctx)
  argsLoop : ∀ acc slot, Shp.ok acc → SlotShape acc slot → Holds (parseArgumentsLoop cfg n acc slot) ArgsQ
  args : Holds (parseArguments cfg n) ArgsQ
  unary : ∀ ctx, HoldsOk (unaryExpression cfg n ctx)
  mulLoop : ∀ ctx l e, Shp.ok l → HoldsOk (multiplicativeLoop cfg n ctx l e)
  mul : ∀ ctx, HoldsOk (multiplicativeExpression cfg n ctx)
  addLoop : ∀ ctx l e, Shp.ok l → HoldsOk (additiveLoop cfg n ctx l e)
  add : ∀ ctx, HoldsOk (additiveExpression cfg n ctx)
  relLoop : ∀ ctx l e, Shp.ok l → HoldsOk (numericComparativeLoop cfg n ctx l e)
  rel : ∀ ctx, HoldsOk (numericComparativeExpression cfg n ctx)
  eqLoop : ∀ ctx l e, Shp.ok l → HoldsOk (comparativeLoop cfg n ctx l e)
  eq : ∀ ctx, HoldsOk (comparativeExpression cfg n ctx)
  logLoop : ∀ ctx l e, Shp.ok l → HoldsOk (logicalLoop cfg n ctx l e)
  log : ∀ ctx, HoldsOk (logicalExpression cfg n ctx)
  pexpr : ∀ ctx, HoldsOk (parseExpression cfg n ctx)
  expr : ∀ ctx as, HoldsOk (expression cfg n ctx as)

theorem exprShapes_zero : ExprShapes cfg 0 := by
  constructor <;> intros <;> first
    | (rw [term]; exact Holds.outOfFuel)
    | (rw [chainLoop]; exact Holds.outOfFuel)
    | (rw [operandReset]; exact Holds.outOfFuel)
    | (rw [operand]; exact Holds.outOfFuel)
    | (rw [parseArgumentsLoop]; exact Holds.outOfFuel)
    | (rw [parseArguments]; exact Holds.outOfFuel)
    | (rw [unaryExpression]; exact Holds.outOfFuel)
    | (rw [multiplicativeLoop]; exact Holds.outOfFuel)
    | (rw [multiplicativeExpression]; exact Holds.outOfFuel)
    | (rw [additiveLoop]; exact Holds.outOfFuel)
    | (rw [additiveExpression]; exact Holds.outOfFuel)
    | (rw [numericComparativeLoop]; exact Holds.outOfFuel)
    | (rw [numericComparativeExpression]; exact Holds.outOfFuel)
    | (rw [comparativeLoop]; exact Holds.outOfFuel)
    | (rw [comparativeExpression]; exact Holds.outOfFuel)
    | (rw [logicalLoop]; exact Holds.outOfFuel)
    | (rw [logicalExpression]; exact Holds.outOfFuel)
    | (rw [parseExpression]; exact Holds.outOfFuel)
    | (rw [expression]; exact Holds.outOfFuel)

/-- a call of an expression production one level down: by the induction hypothesis in the context -/
macro_rules | `(tactic| scall) => `(tactic| (first
  | apply ExprShapes.term ‹ExprShapes _ _›
  | apply ExprShapes.chainLoop ‹ExprShapes _ _›
  | apply ExprShapes.operandReset ‹ExprShapes _ _›
  | apply ExprShapes.operand ‹ExprShapes _ _›
  | apply ExprShapes.argsLoop ‹ExprShapes _ _›
  | apply ExprShapes.args ‹ExprShapes _ _›
  | apply ExprShapes.unary ‹ExprShapes _ _›
  | apply ExprShapes.mulLoop ‹ExprShapes _ _›
  | apply ExprShapes.mul ‹ExprShapes _ _›
  | apply ExprShapes.addLoop ‹ExprShapes _ _›
  | apply ExprShapes.add ‹ExprShapes _ _›
  | apply ExprShapes.relLoop ‹ExprShapes _ _›
  | apply ExprShapes.rel ‹ExprShapes _ _›
  | apply ExprShapes.eqLoop ‹ExprShapes _ _›
  | apply ExprShapes.eq ‹ExprShapes _ _›
  | apply ExprShapes.logLoop ‹ExprShapes _ _›
  | apply ExprShapes.log ‹ExprShapes _ _›
  | apply ExprShapes.pexpr ‹ExprShapes _ _›
  | apply ExprShapes.expr ‹ExprShapes _ _›
  ) <;> try sok)

/-- the slot bookkeeping of `parseArgumentsLoop` -/
theorem slot_step (acc : List PExpr) (e : PExpr) (slot : Bool) (h : SlotShape acc slot) (err : PM Bool)
    (herr : Holds err (fun _ => False)) :
    Holds (if e.nt = NT.underscore then (if slot = true then err else pure true) else pure slot)
      (fun s' => SlotShape (acc ++ [e]) s') := by
  refine Holds.ite (fun hu => Holds.ite (fun _ => herr.post (fun _ h => h.elim)) (fun _ => Holds.pure ?_))
    (fun hu => Holds.pure ?_)
  · intro _; rfl
  · intro h2
    apply h
    simp only [List.any_append, Bool.or_eq_true] at h2
    rcases h2 with h2 | h2
    · exact h2
    · simp [isUnd_iff_nt] at h2; exact absurd h2 hu

theorem Holds.errorfF {α} (ps : List MP) : Holds (Parse.errorf ps : PM α) (fun _ => False) := Holds.errorf ps

theorem es_term (n : Nat) (ih : ExprShapes cfg n) :
    HoldsOk (term cfg (n + 1)) := by
  rw [term]
  sauto

theorem es_chainLoop (n : Nat) (ih : ExprShapes cfg n) :
    ∀ acc, HoldsOk (chainLoop (n + 1) acc) := by
  intro acc
  rw [chainLoop]
  sauto

theorem es_operandReset (n : Nat) (ih : ExprShapes cfg n) :
    ∀ node, Shp.ok node → HoldsOk (operandReset cfg (n + 1) node) := by
  intro node0 h0
  rw [operandReset]
  sauto

theorem es_operand (n : Nat) (ih : ExprShapes cfg n) :
    ∀ ctx, HoldsOk (operand cfg (n + 1) ctx) := by
  intro ctx
  rw [operand]
  sauto

theorem es_argsLoop (n : Nat) (ih : ExprShapes cfg n) :
    ∀ acc slot, Shp.ok acc → SlotShape acc slot → Holds (parseArgumentsLoop cfg (n + 1) acc slot) ArgsQ := by
  intro acc slot hacc hslot
  rw [parseArgumentsLoop]
  refine Holds.bind (P := Shp.ok) (by sprim) (fun pk _ => ?_)
  refine Holds.ite (fun _ => Holds.pure ⟨hacc, hslot⟩) (fun _ => ?_)
  refine Holds.bind (P := Shp.ok) (ih.pexpr _) (fun p hp => ?_)
  obtain ⟨e, endtoken⟩ := p
  dsimp only
  refine Holds.bind (slot_step acc e slot hslot _ (Holds.errorfF _)) (fun slot' hs' => ?_)
  have hacc' : Shp.ok (acc ++ [e]) := by simp_all
  refine Holds.ite (fun _ => ih.argsLoop _ _ hacc' hs') (fun _ => ?_)
  refine Holds.bind (P := Shp.ok) (by sprim) (fun _ _ => Holds.pure ⟨hacc', hs'⟩)

theorem es_args (n : Nat) (ih : ExprShapes cfg n) :
    Holds (parseArguments cfg (n + 1)) ArgsQ := by
  rw [parseArguments]
  exact ih.argsLoop _ _ (by simp) (slotShape_nil _)

theorem es_unary (n : Nat) (ih : ExprShapes cfg n) :
    ∀ ctx, HoldsOk (unaryExpression cfg (n + 1) ctx) := by
  intro ctx
  rw [unaryExpression]
  sauto

theorem es_mulLoop (n : Nat) (ih : ExprShapes cfg n) :
    ∀ ctx l e, Shp.ok l → HoldsOk (multiplicativeLoop cfg (n + 1) ctx l e) := by
  intro ctx l e hl
  rw [multiplicativeLoop]
  sauto

theorem es_mul (n : Nat) (ih : ExprShapes cfg n) :
    ∀ ctx, HoldsOk (multiplicativeExpression cfg (n + 1) ctx) := by
  intro ctx
  rw [multiplicativeExpression]
  sauto

theorem es_addLoop (n : Nat) (ih : ExprShapes cfg n) :
    ∀ ctx l e, Shp.ok l → HoldsOk (additiveLoop cfg (n + 1) ctx l e) := by
  intro ctx l e hl
  rw [additiveLoop]
  sauto

theorem es_add (n : Nat) (ih : ExprShapes cfg n) :
    ∀ ctx, HoldsOk (additiveExpression cfg (n + 1) ctx) := by
  intro ctx
  rw [additiveExpression]
  sauto

theorem es_relLoop (n : Nat) (ih : ExprShapes cfg n) :
    ∀ ctx l e, Shp.ok l → HoldsOk (numericComparativeLoop cfg (n + 1) ctx l e) := by
  intro ctx l e hl
  rw [numericComparativeLoop]
  sauto

theorem es_rel (n : Nat) (ih : ExprShapes cfg n) :
    ∀ ctx, HoldsOk (numericComparativeExpression cfg (n + 1) ctx) := by
  intro ctx
  rw [numericComparativeExpression]
  sauto

theorem es_eqLoop (n : Nat) (ih : ExprShapes cfg n) :
    ∀ ctx l e, Shp.ok l → HoldsOk (comparativeLoop cfg (n + 1) ctx l e) := by
  intro ctx l e hl
  rw [comparativeLoop]
  sauto

theorem es_eq (n : Nat) (ih : ExprShapes cfg n) :
    ∀ ctx, HoldsOk (comparativeExpression cfg (n + 1) ctx) := by
  intro ctx
  rw [comparativeExpression]
  sauto

theorem es_logLoop (n : Nat) (ih : ExprShapes cfg n) :
    ∀ ctx l e, Shp.ok l → HoldsOk (logicalLoop cfg (n + 1) ctx l e) := by
  intro ctx l e hl
  rw [logicalLoop]
  sauto

theorem es_log (n : Nat) (ih : ExprShapes cfg n) :
    ∀ ctx, HoldsOk (logicalExpression cfg (n + 1) ctx) := by
  intro ctx
  rw [logicalExpression]
  sauto

theorem es_pexpr (n : Nat) (ih : ExprShapes cfg n) :
    ∀ ctx, HoldsOk (parseExpression cfg (n + 1) ctx) := by
  intro ctx
  rw [parseExpression]
  sauto

theorem es_expr (n : Nat) (ih : ExprShapes cfg n) :
    ∀ ctx as, HoldsOk (expression cfg (n + 1) ctx as) := by
  intro ctx as
  rw [expression]
  sauto

theorem exprShapes_step (n : Nat) (ih : ExprShapes cfg n) : ExprShapes cfg (n + 1) where
  term := es_term cfg n ih
  chainLoop := es_chainLoop cfg n ih
  operandReset := es_operandReset cfg n ih
  operand := es_operand cfg n ih
  argsLoop := es_argsLoop cfg n ih
  args := es_args cfg n ih
  unary := es_unary cfg n ih
  mulLoop := es_mulLoop cfg n ih
  mul := es_mul cfg n ih
  addLoop := es_addLoop cfg n ih
  add := es_add cfg n ih
  relLoop := es_relLoop cfg n ih
  rel := es_rel cfg n ih
  eqLoop := es_eqLoop cfg n ih
  eq := es_eq cfg n ih
  logLoop := es_logLoop cfg n ih
  log := es_log cfg n ih
  pexpr := es_pexpr cfg n ih
  expr := es_expr cfg n ih

theorem exprShapes_all : ∀ n, ExprShapes cfg n
  | 0 => exprShapes_zero cfg
  | n + 1 => exprShapes_step cfg n (exprShapes_all n)

/-! ### assignments, commands, pipelines, block parameter lists -/

/-- a recursive call or a production whose triple is a hypothesis -/
macro_rules | `(tactic| scall) => `(tactic| (show Holds _ _; apply_assumption -exfalso <;> try sok))

/-- what `assignLeftLoop` returns: shaped, assignable left sides, at least one -/
def LeftQ (p : List PExpr × Bool) : Prop :=
  Shp.ok p.1 ∧ (∀ l, l ∈ p.1 → assignable l.nt = true) ∧ p.1 ≠ []

/-- what `assignRightLoop` returns: shaped right sides, at least one -/
def RightQ (r : List PExpr) : Prop := Shp.ok r ∧ r ≠ []

/-- what `assignmentOrExpression` returns: an expression, or an assignment which - outside a range header -
    has as many right sides as left sides or is the lookup form -/
def AoeQ (context : String) (r : PExpr ⊕ PSet) : Prop :=
  match r with
  | .inl e => Shp.ok e
  | .inr s => Shp.ok s ∧ (context ≠ "range" → s.LenOk)

/-- what `pipelineLoop` returns: shaped commands, at least one -/
def CmdsQ (l : List PCmd) : Prop := Shp.ok l ∧ l ≠ []

theorem leftShape_of (left : List PExpr) (isLet : Bool) (ha : ∀ l, l ∈ left → assignable l.nt = true)
    (h : ¬(isLet = true ∧ (left.any fun o => decide (o.nt ≠ NT.ident ∧ o.nt ≠ NT.underscore)) = true)) :
    ∀ l, l ∈ left → LeftShape isLet l := by
  intro l hl
  refine ⟨ha l hl, fun hlet => ?_⟩
  simp only [hlet, true_and, List.any_eq_true, not_exists, not_and] at h
  have := h l hl
  simp at this
  by_cases h1 : l.nt = NT.ident
  · exact Or.inl h1
  · exact Or.inr (this h1)

macro_rules | `(tactic| sok) => `(tactic|
  (simp_all [PExpr.Shaped, PStmt.Shaped, PSet.Shaped, PCmd.Shaped, PPipe.Shaped, PParam.Shaped, PCmd.argList,
      PSet.LenOkOpt, MulTok, ArgsQ, sk_exprList, sk_exprOpt, sk_stmtList, sk_stmtEls, sk_stmtCatch, slotShape_nil,
      LeftQ, RightQ, AoeQ, CmdsQ, PSet.LenOk, or_imp, forall_and]; done))

theorem assignLeftLoop_shape (fuel : Nat) (ctx : String) : ∀ k left op ret, Shp.ok left →
    (∀ l, l ∈ left → assignable l.nt = true) → Shp.ok op →
    Holds (assignLeftLoop cfg fuel ctx k left op ret) LeftQ
  | 0, _, _, _, _, _, _ => by rw [assignLeftLoop]; exact Holds.outOfFuel
  | k + 1, left, op, ret, hl, ha, ho => by
    have E := exprShapes_all cfg fuel
    have ih := assignLeftLoop_shape fuel ctx k
    rw [assignLeftLoop]
    sauto
    all_goals sok

theorem assignRightLoop_shape (fuel : Nat) : ∀ k right, Shp.ok right →
    Holds (assignRightLoop cfg fuel k right) RightQ
  | 0, _, _ => by rw [assignRightLoop]; exact Holds.outOfFuel
  | k + 1, right, hr => by
    have E := exprShapes_all cfg fuel
    have ih := assignRightLoop_shape fuel k
    rw [assignRightLoop]
    sauto
    all_goals sok

theorem assignmentOrExpression_shape (fuel : Nat) (ctx : String) :
    Holds (assignmentOrExpression cfg fuel ctx) (AoeQ ctx) := by
  have E := exprShapes_all cfg fuel
  have hl := assignLeftLoop_shape cfg fuel ctx
  have hr := assignRightLoop_shape cfg fuel
  unfold assignmentOrExpression
  sauto
  all_goals
    first
    | sok
    | (have hls := leftShape_of _ _ (‹LeftQ _›).2.1 ‹¬(_ = true ∧ _)›
       sok)

theorem command_shape (fuel : Nat) (base : Option PExpr) (hb : Shp.ok base) :
    HoldsOk (command cfg fuel base) := by
  have E := exprShapes_all cfg fuel
  unfold command
  sauto

theorem pipelineLoop_shape (fuel : Nat) : ∀ k cmds, Shp.ok cmds → cmds ≠ [] →
    Holds (pipelineLoop cfg fuel k cmds) CmdsQ
  | 0, _, _, _ => by rw [pipelineLoop]; exact Holds.outOfFuel
  | k + 1, cmds, hc, hne => by
    have ih := pipelineLoop_shape fuel k
    have hcmd := command_shape cfg fuel
    rw [pipelineLoop]
    sauto

theorem pipeline_shape (fuel : Nat) (base : PExpr) (hb : Shp.ok base) : HoldsOk (pipeline cfg fuel base) := by
  have hcmd := command_shape cfg fuel
  have hloop := pipelineLoop_shape cfg fuel
  unfold pipeline
  sauto
  all_goals sok

theorem blockParamsLoop_shape (fuel : Nat) (isDecl : Bool) (ctx : String) : ∀ k acc, Shp.ok acc →
    HoldsOk (blockParamsLoop cfg fuel isDecl ctx k acc)
  | 0, _, _ => by rw [blockParamsLoop]; exact Holds.outOfFuel
  | k + 1, acc, ha => by
    have E := exprShapes_all cfg fuel
    have ih := blockParamsLoop_shape fuel isDecl ctx k
    rw [blockParamsLoop]
    sauto

theorem blockParametersList_shape (fuel : Nat) (isDecl : Bool) (ctx : String) :
    HoldsOk (blockParametersList cfg fuel isDecl ctx) := by
  have hloop := blockParamsLoop_shape cfg fuel isDecl ctx
  unfold blockParametersList
  sauto

/-! ### statements -/

/-- the header of an `if` / `range`: an `if` (`allowElseIf`) header's assignment has matching sides, and there is
    an assignment or an expression -/
def HeadQ (a : Bool) (p : Option PSet × Option PExpr) : Prop :=
  Shp.ok p.1 ∧ Shp.ok p.2 ∧ (a = true → PSet.LenOkOpt p.1) ∧ (p.1 = none → p.2 ≠ none)

macro_rules | `(tactic| sok) => `(tactic|
  (simp_all [PExpr.Shaped, PStmt.Shaped, PSet.Shaped, PCmd.Shaped, PPipe.Shaped, PParam.Shaped, PCmd.argList,
      PSet.LenOkOpt, MulTok, ArgsQ, sk_exprList, sk_exprOpt, sk_stmtList, sk_stmtEls, sk_stmtCatch, slotShape_nil,
      LeftQ, RightQ, AoeQ, CmdsQ, HeadQ]; done))

structure StmtShapes (n : Nat) : Prop where
  itemListLoop : ∀ terms acc, Shp.ok acc → HoldsOk (itemListLoop cfg n terms acc)
  itemList : ∀ terms, HoldsOk (itemList cfg n terms)
  textOrAction : HoldsOk (textOrAction cfg n)
  action : HoldsOk (action cfg n)
  parseInclude : HoldsOk (parseInclude cfg n)
  parseBlock : HoldsOk (parseBlock cfg n)
  parseYield : HoldsOk (parseYield cfg n)
  parseControl : ∀ a ctx, (a = true → ctx ≠ "range") → HoldsOk (parseControl cfg n a ctx)
  parseTry : HoldsOk (parseTry cfg n)
  parseCatch : HoldsOk (parseCatch cfg n)

theorem stmtShapes_zero : StmtShapes cfg 0 := by
  constructor <;> intros <;> first
    | (rw [itemListLoop]; exact Holds.outOfFuel)
    | (rw [itemList]; exact Holds.outOfFuel)
    | (rw [textOrAction]; exact Holds.outOfFuel)
    | (rw [action]; exact Holds.outOfFuel)
    | (rw [parseInclude]; exact Holds.outOfFuel)
    | (rw [parseBlock]; exact Holds.outOfFuel)
    | (rw [parseYield]; exact Holds.outOfFuel)
    | (rw [parseControl]; exact Holds.outOfFuel)
    | (rw [parseTry]; exact Holds.outOfFuel)
    | (rw [parseCatch]; exact Holds.outOfFuel)

theorem ss_itemListLoop (n : Nat) (ih : StmtShapes cfg n) :
    ∀ terms acc, Shp.ok acc → HoldsOk (itemListLoop cfg (n + 1) terms acc) := by
  intro terms acc hacc
  obtain ⟨i1, i2, i3, i4, i5, i6, i7, i8, i9, i10⟩ := ih
  have E := exprShapes_all cfg n
  have a1 := assignmentOrExpression_shape cfg n
  have a2 := pipeline_shape cfg n
  have a3 := blockParametersList_shape cfg n
  rw [itemListLoop]
  sauto

theorem ss_itemList (n : Nat) (ih : StmtShapes cfg n) :
    ∀ terms, HoldsOk (itemList cfg (n + 1) terms) := by
  intro terms
  obtain ⟨i1, i2, i3, i4, i5, i6, i7, i8, i9, i10⟩ := ih
  have E := exprShapes_all cfg n
  have a1 := assignmentOrExpression_shape cfg n
  have a2 := pipeline_shape cfg n
  have a3 := blockParametersList_shape cfg n
  rw [itemList]
  sauto

theorem ss_textOrAction (n : Nat) (ih : StmtShapes cfg n) :
    HoldsOk (textOrAction cfg (n + 1)) := by
  obtain ⟨i1, i2, i3, i4, i5, i6, i7, i8, i9, i10⟩ := ih
  have E := exprShapes_all cfg n
  have a1 := assignmentOrExpression_shape cfg n
  have a2 := pipeline_shape cfg n
  have a3 := blockParametersList_shape cfg n
  rw [textOrAction]
  sauto

theorem ss_action (n : Nat) (ih : StmtShapes cfg n) :
    HoldsOk (action cfg (n + 1)) := by
  obtain ⟨i1, i2, i3, i4, i5, i6, i7, i8, i9, i10⟩ := ih
  have E := exprShapes_all cfg n
  have a1 := assignmentOrExpression_shape cfg n
  have a2 := pipeline_shape cfg n
  have a3 := blockParametersList_shape cfg n
  rw [action]
  sauto

theorem ss_parseInclude (n : Nat) (ih : StmtShapes cfg n) :
    HoldsOk (parseInclude cfg (n + 1)) := by
  obtain ⟨i1, i2, i3, i4, i5, i6, i7, i8, i9, i10⟩ := ih
  have E := exprShapes_all cfg n
  have a1 := assignmentOrExpression_shape cfg n
  have a2 := pipeline_shape cfg n
  have a3 := blockParametersList_shape cfg n
  rw [parseInclude]
  sauto

theorem ss_parseBlock (n : Nat) (ih : StmtShapes cfg n) :
    HoldsOk (parseBlock cfg (n + 1)) := by
  obtain ⟨i1, i2, i3, i4, i5, i6, i7, i8, i9, i10⟩ := ih
  have E := exprShapes_all cfg n
  have a1 := assignmentOrExpression_shape cfg n
  have a2 := pipeline_shape cfg n
  have a3 := blockParametersList_shape cfg n
  rw [parseBlock]
  sauto

theorem ss_parseYield (n : Nat) (ih : StmtShapes cfg n) :
    HoldsOk (parseYield cfg (n + 1)) := by
  obtain ⟨i1, i2, i3, i4, i5, i6, i7, i8, i9, i10⟩ := ih
  have E := exprShapes_all cfg n
  have a1 := assignmentOrExpression_shape cfg n
  have a2 := pipeline_shape cfg n
  have a3 := blockParametersList_shape cfg n
  rw [parseYield]
  sauto

theorem ss_parseControl (n : Nat) (ih : StmtShapes cfg n) :
    ∀ a ctx, (a = true → ctx ≠ "range") → HoldsOk (parseControl cfg (n + 1) a ctx) := by
  intro allowElseIf ctx hctx
  obtain ⟨i1, i2, i3, i4, i5, i6, i7, i8, i9, i10⟩ := ih
  have E := exprShapes_all cfg n
  have a1 := assignmentOrExpression_shape cfg n
  have a2 := pipeline_shape cfg n
  have a3 := blockParametersList_shape cfg n
  rw [parseControl]
  refine Holds.bind (P := Shp.ok) (by sprim) (fun line _ => ?_)
  refine Holds.bind (P := HeadQ allowElseIf) ?_ (fun p hp => ?_)
  · sauto
  · sauto

theorem ss_parseTry (n : Nat) (ih : StmtShapes cfg n) :
    HoldsOk (parseTry cfg (n + 1)) := by
  obtain ⟨i1, i2, i3, i4, i5, i6, i7, i8, i9, i10⟩ := ih
  have E := exprShapes_all cfg n
  have a1 := assignmentOrExpression_shape cfg n
  have a2 := pipeline_shape cfg n
  have a3 := blockParametersList_shape cfg n
  rw [parseTry]
  sauto

theorem ss_parseCatch (n : Nat) (ih : StmtShapes cfg n) :
    HoldsOk (parseCatch cfg (n + 1)) := by
  obtain ⟨i1, i2, i3, i4, i5, i6, i7, i8, i9, i10⟩ := ih
  have E := exprShapes_all cfg n
  have a1 := assignmentOrExpression_shape cfg n
  have a2 := pipeline_shape cfg n
  have a3 := blockParametersList_shape cfg n
  rw [parseCatch]
  sauto

theorem stmtShapes_step (n : Nat) (ih : StmtShapes cfg n) : StmtShapes cfg (n + 1) where
  itemListLoop := ss_itemListLoop cfg n ih
  itemList := ss_itemList cfg n ih
  textOrAction := ss_textOrAction cfg n ih
  action := ss_action cfg n ih
  parseInclude := ss_parseInclude cfg n ih
  parseBlock := ss_parseBlock cfg n ih
  parseYield := ss_parseYield cfg n ih
  parseControl := ss_parseControl cfg n ih
  parseTry := ss_parseTry cfg n ih
  parseCatch := ss_parseCatch cfg n ih

theorem stmtShapes_all : ∀ n, StmtShapes cfg n
  | 0 => stmtShapes_zero cfg
  | n + 1 => stmtShapes_step cfg n (stmtShapes_all n)

/-! ### the template level -/

theorem prologueLoop_shape : ∀ k skipped, Shp.ok skipped → HoldsOk (prologueLoop cfg k skipped)
  | 0, _, _ => by rw [prologueLoop]; exact Holds.outOfFuel
  | k + 1, skipped, hs => by
    have ih := prologueLoop_shape k
    rw [prologueLoop]
    sauto

theorem bodyLoop_shape (fuel : Nat) : ∀ k acc, Shp.ok acc → HoldsOk (bodyLoop cfg fuel k acc)
  | 0, _, _ => by rw [bodyLoop]; exact Holds.outOfFuel
  | k + 1, acc, ha => by
    have ih := bodyLoop_shape fuel k
    have h1 := (stmtShapes_all cfg fuel).textOrAction
    rw [bodyLoop]
    sauto

theorem parseTemplate_shape (fuel : Nat) : HoldsOk (parseTemplate cfg fuel) := by
  have h1 := prologueLoop_shape cfg
  have h2 := bodyLoop_shape cfg fuel
  unfold parseTemplate
  sauto
  split <;> sok

theorem initial_JS (input name : Bytes) (toks : List Item) : JS { input := input, name := name, toks := toks } :=
  fun b hb => by simp at hb

end JetVerif.Parse
