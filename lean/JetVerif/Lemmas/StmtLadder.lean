/-
  The control structures of the parser model (`textOrAction`, `action`, `parseControl`, `itemList`)
  on the token spelling of a derivation of the statement grammar (Model/StmtGrammar.lean): by mutual
  structural recursion over the grammar, each production maps the spelling to the promised tree and
  stops right behind it.  Helper lemmas for Props/C05P.lean.
-/
import JetVerif.Props.C04P
import JetVerif.Model.StmtGrammar

namespace JetVerif.Parse
open JetVerif.ExprGrammar JetVerif.StmtGrammar
open JetVerif.Props.C04P (precedence_and_associativity precedence_after_backup expression_reads_one_derivation)

variable (cfg : Cfg)

/-! ### items that end an expression -/

theorem stop7_rd : stop7 rd := by
  simp [rd, stop7, stop6, stop5, stop4, stop3, stop2, noPostfix, it, isMulT_iff, isRelT_iff]
theorem stop7_comma : stop7 comma := by
  simp [comma, stop7, stop6, stop5, stop4, stop3, stop2, noPostfix, it, isMulT_iff, isRelT_iff]
theorem stop7_letTok : stop7 letTok := by
  simp [letTok, stop7, stop6, stop5, stop4, stop3, stop2, noPostfix, it, isMulT_iff, isRelT_iff]

/-! ### the first item of a spelling -/

def exprHead (t : Tok) : Prop :=
  t = Tok.identifier ∨ t = Tok.leftParen ∨ t = Tok.add ∨ t = Tok.minus ∨ t = Tok.not_

def ExprHead (l : List Item) : Prop := ∃ t ts, l = t :: ts ∧ t.pos = 0 ∧ exprHead t.typ

theorem ExprHead.append {l : List Item} (h : ExprHead l) (m : List Item) : ExprHead (l ++ m) := by
  obtain ⟨t, ts, rfl, h0, hs⟩ := h
  exact ⟨t, ts ++ m, rfl, h0, hs⟩

theorem ehead0 (e : E0) : ExprHead (toks0 e) := by
  obtain ⟨t, ts, h, h0, ht⟩ := head0 e
  refine ⟨t, ts, h, h0, ?_⟩
  rcases ht with ht | ht <;> simp [ht, exprHead]
theorem ehead1 (e : E1) : ExprHead (toks1 e) := by
  cases e with
  | base e => exact ehead0 e
  | sign op v e => exact ⟨_, _, rfl, rfl, by cases op <;> simp [it, AddOp.tok, exprHead]⟩
theorem ehead2 : (c : E2) → ExprHead (toks2 c)
  | .one e => ehead1 e
  | .more l _ _ _ => (ehead2 l).append _
theorem ehead3 : (c : E3) → ExprHead (toks3 c)
  | .one e => ehead2 e
  | .more l _ _ _ => (ehead3 l).append _
theorem ehead4 : (c : E4) → ExprHead (toks4 c)
  | .one e => ehead3 e
  | .more l _ _ _ => (ehead4 l).append _
theorem ehead5 : (c : E5) → ExprHead (toks5 c)
  | .one e => ehead4 e
  | .more l _ _ _ => (ehead5 l).append _
theorem ehead5n (x : E5n) : ExprHead (toks5n x) := by
  cases x with
  | plain e => exact ehead5 e
  | not v e => exact ⟨_, _, rfl, rfl, by simp [it, exprHead]⟩
theorem ehead6 : (c : E6) → ExprHead (toks6 c)
  | .one e => ehead5n e
  | .more l _ _ _ => (ehead6 l).append _
theorem ehead7 (c : E7) : ExprHead (toks7 c) := by
  cases c with
  | one e => exact ehead6 e
  | tern c a b => exact (ehead6 c).append _

/-! ### the promised expression trees are never calls (so `command` adds no arguments) -/

mutual
theorem nocall0 : (e : E0) → (tree0 e).nt ≠ NT.call
  | .atom _ => by simp [tree0, PExpr.nt]
  | .paren e => by simpa [tree0] using nocall7 e
theorem nocall7 : (e : E7) → (tree7 e).nt ≠ NT.call
  | .one e => by simpa [tree7] using nocall6 e
  | .tern _ _ _ => by simp [tree7, PExpr.nt]
theorem nocall6 : (e : E6) → (tree6 e).nt ≠ NT.call
  | .one e => by simpa [tree6] using nocall5n e
  | .more _ _ _ _ => by simp [tree6, PExpr.nt]
theorem nocall5n : (e : E5n) → (tree5n e).nt ≠ NT.call
  | .plain e => by simpa [tree5n] using nocall5 e
  | .not _ _ => by simp [tree5n, PExpr.nt]
theorem nocall5 : (e : E5) → (tree5 e).nt ≠ NT.call
  | .one e => by simpa [tree5] using nocall4 e
  | .more _ _ _ _ => by simp [tree5, PExpr.nt]
theorem nocall4 : (e : E4) → (tree4 e).nt ≠ NT.call
  | .one e => by simpa [tree4] using nocall3 e
  | .more _ _ _ _ => by simp [tree4, PExpr.nt]
theorem nocall3 : (e : E3) → (tree3 e).nt ≠ NT.call
  | .one e => by simpa [tree3] using nocall2 e
  | .more _ _ _ _ => by simp [tree3, PExpr.nt]
theorem nocall2 : (e : E2) → (tree2 e).nt ≠ NT.call
  | .one e => by simpa [tree2] using nocall1 e
  | .more _ _ _ _ => by simp [tree2, PExpr.nt]
theorem nocall1 : (e : E1) → (tree1 e).nt ≠ NT.call
  | .base e => by simpa [tree1] using nocall0 e
  | .sign _ _ _ => by simp [tree1, PExpr.nt]
end

/-- `command` with a base that is not a call, in front of the closing delimiter -/
theorem command_plain (n : Nat) (b : PSt) (rest : List Item) (e : PExpr) (he : e.nt ≠ NT.call) :
    command cfg n (some e) (mkS b rest rd 1) =
      .ok { line := 1, callLine := 0, base := e, args := none, hasSlot := false } (mkS b rest rd 1) := by
  have hsp : rd.typ ≠ Tok.space := by simp [rd, it]
  have hc : rd.typ ≠ Tok.colon := by simp [rd, it]
  unfold command
  cases e <;> simp [PExpr.nt] at he <;> simp [bind_apply, hsp, hc]

/-- `pipeline` with a base that is not a call, in front of the closing delimiter -/
theorem pipeline_plain (n : Nat) (b : PSt) (rest : List Item) (e : PExpr) (he : e.nt ≠ NT.call) :
    pipeline cfg n e (mkS b rest rd 1) =
      .ok { line := 1, cmds := [{ line := 1, callLine := 0, base := e, args := none, hasSlot := false }] }
        (mkS b rest rd 0) := by
  have hsp : rd.typ ≠ Tok.space := by simp [rd, it]
  unfold pipeline
  simp [bind_apply, hsp, command_plain cfg n b rest e he, get, pipelineLoop, expectOneOf]
  simp [rd, it]

/-! ### the space after a keyword -/

theorem nextNonSpace_sp (b : PSt) (t : Item) (ts : List Item) (x : Item) (h : t.pos = 0) (hs : t.typ ≠ Tok.space) :
    nextNonSpace (mkS b (sp :: t :: ts) x 0) = .ok t (mkS b ts t 0) := by
  have h1 : sp.pos = 0 := rfl
  have h2 : sp.typ = Tok.space := rfl
  simp only [nextNonSpace, mkS_toks, mkS_pc, List.length_cons]
  simp [nextNonSpaceLoop, bind_apply, h1, h2, h, hs]

theorem peekNonSpace_sp (b : PSt) (t : Item) (ts : List Item) (x : Item) (h : t.pos = 0) (hs : t.typ ≠ Tok.space) :
    peekNonSpace (mkS b (sp :: t :: ts) x 0) = .ok t (mkS b ts t 1) := by
  simp [peekNonSpace, bind_apply, nextNonSpace_sp b t ts x h hs]

/-! ### headers: what `assignmentOrExpression` makes of the items between the keyword and `}}` -/

/-- a plain expression and the closing delimiter -/
theorem aoe_expr (c : E7) (n : Nat) (ctx : String) (s0 b : PSt) (t : Item) (ts rest : List Item)
    (hn : n ≥ 10 * sz7 c) (hp : peekNonSpace s0 = .ok t (mkS b ts t 1)) (hl : toks7 c ++ rd :: rest = t :: ts) :
    assignmentOrExpression cfg n ctx s0 = .ok (.inl (tree7 c)) (mkS b rest rd 1) := by
  have hx := precedence_after_backup cfg c n ctx b t rd ts rest hn stop7_rd hl
  have h1 : rd.typ ≠ Tok.comma := by simp [rd, it]
  have h2 : rd.typ ≠ Tok.assign := by simp [rd, it]
  unfold assignmentOrExpression
  simp [bind_apply, hp, hx, h1, h2]

theorem tree7_atom7 (v : Bytes) : tree7 (atom7 v) = .ident 1 v := rfl
theorem toks7_atom7 (v : Bytes) : toks7 (atom7 v) = [it Tok.identifier v] := rfl
theorem sz7_atom7 (v : Bytes) : sz7 (atom7 v) = 9 := rfl

/-- `v := e }}` after `range` -/
theorem aoe_one (v : Bytes) (e : E7) (n : Nat) (b : PSt) (x : Item) (rest : List Item)
    (hn : n ≥ 10 * sz7 e + 90) :
    assignmentOrExpression cfg n "range" (mkS b (sp :: it Tok.identifier v :: letTok :: (toks7 e ++ rd :: rest)) x 0) =
      .ok (.inr { line := 1, isLet := true, lookup := false, left := [.ident 1 v], right := [tree7 e] }) (mkS b rest rd 1) := by
  have hp := peekNonSpace_sp b (it Tok.identifier v) (letTok :: (toks7 e ++ rd :: rest)) x rfl (by simp [it])
  have hv := precedence_after_backup cfg (atom7 v) n "range" b (it Tok.identifier v) letTok
    (letTok :: (toks7 e ++ rd :: rest)) (toks7 e ++ rd :: rest) (by simp [sz7_atom7]; omega) stop7_letTok rfl
  have he := precedence_and_associativity cfg e n "assignment" b letTok rd rest (by omega) stop7_rd
  have h1 : rd.typ ≠ Tok.comma := by simp [rd, it]
  have h3 : letTok.typ = Tok.assign := rfl
  have h4 : letTok.val = str ":=" := rfl
  unfold assignmentOrExpression
  simp [bind_apply, hp, hv, tree7_atom7, h3, get, assignLeftLoop, assignable, PExpr.nt, h4, assignRightLoop, he, h1]

/-- `k,v := e }}` after `range` -/
theorem aoe_two (k v : Bytes) (e : E7) (n : Nat) (b : PSt) (x : Item) (rest : List Item)
    (hn : n ≥ 10 * sz7 e + 90) :
    assignmentOrExpression cfg n "range"
        (mkS b (sp :: it Tok.identifier k :: comma :: it Tok.identifier v :: letTok :: (toks7 e ++ rd :: rest)) x 0) =
      .ok (.inr { line := 1, isLet := true, lookup := false, left := [.ident 1 k, .ident 1 v], right := [tree7 e] })
        (mkS b rest rd 1) := by
  have hp := peekNonSpace_sp b (it Tok.identifier k) (comma :: it Tok.identifier v :: letTok :: (toks7 e ++ rd :: rest)) x rfl (by simp [it])
  have hk := precedence_after_backup cfg (atom7 k) n "range" b (it Tok.identifier k) comma
    (comma :: it Tok.identifier v :: letTok :: (toks7 e ++ rd :: rest)) (it Tok.identifier v :: letTok :: (toks7 e ++ rd :: rest))
    (by simp [sz7_atom7]; omega) stop7_comma rfl
  have hv := precedence_and_associativity cfg (atom7 v) n "range" b comma letTok (toks7 e ++ rd :: rest)
    (by simp [sz7_atom7]; omega) stop7_letTok
  have he := precedence_and_associativity cfg e n "assignment" b letTok rd rest (by omega) stop7_rd
  have h1 : rd.typ ≠ Tok.comma := by simp [rd, it]
  have h2 : comma.typ = Tok.comma := rfl
  have h3 : letTok.typ = Tok.assign := rfl
  have h4 : letTok.val = str ":=" := rfl
  have h5 : letTok.typ ≠ Tok.comma := by simp [letTok, it]
  simp only [toks7_atom7, List.singleton_append] at hv
  unfold assignmentOrExpression
  simp [bind_apply, hp, hk, hv, tree7_atom7, h2, h3, h5, get, assignLeftLoop, assignable, PExpr.nt, h4, assignRightLoop, he, h1]

end JetVerif.Parse
