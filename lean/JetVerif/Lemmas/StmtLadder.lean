/-
  The control structures of the parser model (`textOrAction`, `action`, `parseControl`, `itemList`)
  on the token spelling of a derivation of the statement grammar (Model/StmtGrammar.lean): by mutual
  structural recursion over the grammar, each production maps the spelling to the promised tree and
  stops right behind it.  Helper lemmas for Props/C05P.lean.
-/
import JetVerif.Props.C04P
import JetVerif.Model.StmtGrammar

namespace JetVerif.Parse
open JetVerif.ExprGrammar JetVerif.StmtGrammar
open JetVerif.Props.C04P (precedence_and_associativity precedence_after_backup expression_reads_one_derivation)

variable (cfg : Cfg)

/-! ### items that end an expression -/

theorem stop7_rd : stop7 rd := by
  simp [rd, stop7, stop6, stop5, stop4, stop3, stop2, noPostfix, it, isMulT_iff, isRelT_iff]
theorem stop7_comma : stop7 comma := by
  simp [comma, stop7, stop6, stop5, stop4, stop3, stop2, noPostfix, it, isMulT_iff, isRelT_iff]
theorem stop7_letTok : stop7 letTok := by
  simp [letTok, stop7, stop6, stop5, stop4, stop3, stop2, noPostfix, it, isMulT_iff, isRelT_iff]

/-! ### the first item of a spelling -/

def exprHead (t : Tok) : Prop :=
  t = Tok.identifier ∨ t = Tok.leftParen ∨ t = Tok.add ∨ t = Tok.minus ∨ t = Tok.not_

def ExprHead (l : List Item) : Prop := ∃ t ts, l = t :: ts ∧ t.pos = 0 ∧ exprHead t.typ

theorem ExprHead.append {l : List Item} (h : ExprHead l) (m : List Item) : ExprHead (l ++ m) := by
  obtain ⟨t, ts, rfl, h0, hs⟩ := h
  exact ⟨t, ts ++ m, rfl, h0, hs⟩

theorem ehead0 (e : E0) : ExprHead (toks0 e) := by
  obtain ⟨t, ts, h, h0, ht⟩ := head0 e
  refine ⟨t, ts, h, h0, ?_⟩
  rcases ht with ht | ht <;> simp [ht, exprHead]
theorem ehead1 (e : E1) : ExprHead (toks1 e) := by
  cases e with
  | base e => exact ehead0 e
  | sign op v e => exact ⟨_, _, rfl, rfl, by cases op <;> simp [it, AddOp.tok, exprHead]⟩
theorem ehead2 : (c : E2) → ExprHead (toks2 c)
  | .one e => ehead1 e
  | .more l _ _ _ => (ehead2 l).append _
theorem ehead3 : (c : E3) → ExprHead (toks3 c)
  | .one e => ehead2 e
  | .more l _ _ _ => (ehead3 l).append _
theorem ehead4 : (c : E4) → ExprHead (toks4 c)
  | .one e => ehead3 e
  | .more l _ _ _ => (ehead4 l).append _
theorem ehead5 : (c : E5) → ExprHead (toks5 c)
  | .one e => ehead4 e
  | .more l _ _ _ => (ehead5 l).append _
theorem ehead5n (x : E5n) : ExprHead (toks5n x) := by
  cases x with
  | plain e => exact ehead5 e
  | not v e => exact ⟨_, _, rfl, rfl, by simp [it, exprHead]⟩
theorem ehead6 : (c : E6) → ExprHead (toks6 c)
  | .one e => ehead5n e
  | .more l _ _ _ => (ehead6 l).append _
theorem ehead7 (c : E7) : ExprHead (toks7 c) := by
  cases c with
  | one e => exact ehead6 e
  | tern c a b => exact (ehead6 c).append _

/-! ### the promised expression trees are never calls (so `command` adds no arguments) -/

mutual
theorem nocall0 : (e : E0) → (tree0 e).nt ≠ NT.call
  | .atom _ => by simp [tree0, PExpr.nt]
  | .paren e => by simpa [tree0] using nocall7 e
theorem nocall7 : (e : E7) → (tree7 e).nt ≠ NT.call
  | .one e => by simpa [tree7] using nocall6 e
  | .tern _ _ _ => by simp [tree7, PExpr.nt]
theorem nocall6 : (e : E6) → (tree6 e).nt ≠ NT.call
  | .one e => by simpa [tree6] using nocall5n e
  | .more _ _ _ _ => by simp [tree6, PExpr.nt]
theorem nocall5n : (e : E5n) → (tree5n e).nt ≠ NT.call
  | .plain e => by simpa [tree5n] using nocall5 e
  | .not _ _ => by simp [tree5n, PExpr.nt]
theorem nocall5 : (e : E5) → (tree5 e).nt ≠ NT.call
  | .one e => by simpa [tree5] using nocall4 e
  | .more _ _ _ _ => by simp [tree5, PExpr.nt]
theorem nocall4 : (e : E4) → (tree4 e).nt ≠ NT.call
  | .one e => by simpa [tree4] using nocall3 e
  | .more _ _ _ _ => by simp [tree4, PExpr.nt]
theorem nocall3 : (e : E3) → (tree3 e).nt ≠ NT.call
  | .one e => by simpa [tree3] using nocall2 e
  | .more _ _ _ _ => by simp [tree3, PExpr.nt]
theorem nocall2 : (e : E2) → (tree2 e).nt ≠ NT.call
  | .one e => by simpa [tree2] using nocall1 e
  | .more _ _ _ _ => by simp [tree2, PExpr.nt]
theorem nocall1 : (e : E1) → (tree1 e).nt ≠ NT.call
  | .base e => by simpa [tree1] using nocall0 e
  | .sign _ _ _ => by simp [tree1, PExpr.nt]
end

/-- `command` with a base that is not a call, in front of the closing delimiter -/
theorem command_plain (n : Nat) (b : PSt) (rest : List Item) (e : PExpr) (he : e.nt ≠ NT.call) :
    command cfg n (some e) (mkS b rest rd 1) =
      .ok { line := 1, callLine := 0, base := e, args := none, hasSlot := false } (mkS b rest rd 1) := by
  have hsp : rd.typ ≠ Tok.space := by simp [rd, it]
  have hc : rd.typ ≠ Tok.colon := by simp [rd, it]
  unfold command
  cases e <;> simp [PExpr.nt] at he <;> simp [bind_apply, hsp, hc]

/-- `pipeline` with a base that is not a call, in front of the closing delimiter -/
theorem pipeline_plain (n : Nat) (b : PSt) (rest : List Item) (e : PExpr) (he : e.nt ≠ NT.call) :
    pipeline cfg n e (mkS b rest rd 1) =
      .ok { line := 1, cmds := [{ line := 1, callLine := 0, base := e, args := none, hasSlot := false }] }
        (mkS b rest rd 0) := by
  have hsp : rd.typ ≠ Tok.space := by simp [rd, it]
  unfold pipeline
  simp [bind_apply, hsp, command_plain cfg n b rest e he, get, pipelineLoop, expectOneOf]
  simp [rd, it]

/-! ### the space after a keyword -/

theorem nextNonSpace_sp (b : PSt) (t : Item) (ts : List Item) (x : Item) (h : t.pos = 0) (hs : t.typ ≠ Tok.space) :
    nextNonSpace (mkS b (sp :: t :: ts) x 0) = .ok t (mkS b ts t 0) := by
  have h1 : sp.pos = 0 := rfl
  have h2 : sp.typ = Tok.space := rfl
  simp only [nextNonSpace, mkS_toks, mkS_pc, List.length_cons]
  simp [nextNonSpaceLoop, bind_apply, h1, h2, h, hs]

theorem peekNonSpace_sp (b : PSt) (t : Item) (ts : List Item) (x : Item) (h : t.pos = 0) (hs : t.typ ≠ Tok.space) :
    peekNonSpace (mkS b (sp :: t :: ts) x 0) = .ok t (mkS b ts t 1) := by
  simp [peekNonSpace, bind_apply, nextNonSpace_sp b t ts x h hs]

/-! ### headers: what `assignmentOrExpression` makes of the items between the keyword and `}}` -/

/-- a plain expression and the closing delimiter -/
theorem aoe_expr (c : E7) (n : Nat) (ctx : String) (s0 b : PSt) (t : Item) (ts rest : List Item)
    (hn : n ≥ 10 * sz7 c) (hp : peekNonSpace s0 = .ok t (mkS b ts t 1)) (hl : toks7 c ++ rd :: rest = t :: ts) :
    assignmentOrExpression cfg n ctx s0 = .ok (.inl (tree7 c)) (mkS b rest rd 1) := by
  have hx := precedence_after_backup cfg c n ctx b t rd ts rest hn stop7_rd hl
  have h1 : rd.typ ≠ Tok.comma := by simp [rd, it]
  have h2 : rd.typ ≠ Tok.assign := by simp [rd, it]
  unfold assignmentOrExpression
  simp [bind_apply, hp, hx, h1, h2]

theorem tree7_atom7 (v : Bytes) : tree7 (atom7 v) = .ident 1 v := rfl
theorem toks7_atom7 (v : Bytes) : toks7 (atom7 v) = [it Tok.identifier v] := rfl
theorem sz7_atom7 (v : Bytes) : sz7 (atom7 v) = 9 := rfl

/-- `v := e }}` after `range` -/
theorem aoe_one (v : Bytes) (e : E7) (n : Nat) (b : PSt) (x : Item) (rest : List Item)
    (hn : n ≥ 10 * sz7 e + 90) :
    assignmentOrExpression cfg n "range" (mkS b (sp :: it Tok.identifier v :: letTok :: (toks7 e ++ rd :: rest)) x 0) =
      .ok (.inr { line := 1, isLet := true, lookup := false, left := [.ident 1 v], right := [tree7 e] }) (mkS b rest rd 1) := by
  have hp := peekNonSpace_sp b (it Tok.identifier v) (letTok :: (toks7 e ++ rd :: rest)) x rfl (by simp [it])
  have hv := precedence_after_backup cfg (atom7 v) n "range" b (it Tok.identifier v) letTok
    (letTok :: (toks7 e ++ rd :: rest)) (toks7 e ++ rd :: rest) (by simp [sz7_atom7]; omega) stop7_letTok rfl
  have he := precedence_and_associativity cfg e n "assignment" b letTok rd rest (by omega) stop7_rd
  have h1 : rd.typ ≠ Tok.comma := by simp [rd, it]
  have h3 : letTok.typ = Tok.assign := rfl
  have h4 : letTok.val = str ":=" := rfl
  unfold assignmentOrExpression
  simp [bind_apply, hp, hv, tree7_atom7, h3, get, assignLeftLoop, assignable, PExpr.nt, h4, assignRightLoop, he, h1]

/-- `k,v := e }}` after `range` -/
theorem aoe_two (k v : Bytes) (e : E7) (n : Nat) (b : PSt) (x : Item) (rest : List Item)
    (hn : n ≥ 10 * sz7 e + 90) :
    assignmentOrExpression cfg n "range"
        (mkS b (sp :: it Tok.identifier k :: comma :: it Tok.identifier v :: letTok :: (toks7 e ++ rd :: rest)) x 0) =
      .ok (.inr { line := 1, isLet := true, lookup := false, left := [.ident 1 k, .ident 1 v], right := [tree7 e] })
        (mkS b rest rd 1) := by
  have hp := peekNonSpace_sp b (it Tok.identifier k) (comma :: it Tok.identifier v :: letTok :: (toks7 e ++ rd :: rest)) x rfl (by simp [it])
  have hk := precedence_after_backup cfg (atom7 k) n "range" b (it Tok.identifier k) comma
    (comma :: it Tok.identifier v :: letTok :: (toks7 e ++ rd :: rest)) (it Tok.identifier v :: letTok :: (toks7 e ++ rd :: rest))
    (by simp [sz7_atom7]; omega) stop7_comma rfl
  have hv := precedence_and_associativity cfg (atom7 v) n "range" b comma letTok (toks7 e ++ rd :: rest)
    (by simp [sz7_atom7]; omega) stop7_letTok
  have he := precedence_and_associativity cfg e n "assignment" b letTok rd rest (by omega) stop7_rd
  have h1 : rd.typ ≠ Tok.comma := by simp [rd, it]
  have h2 : comma.typ = Tok.comma := rfl
  have h3 : letTok.typ = Tok.assign := rfl
  have h4 : letTok.val = str ":=" := rfl
  simp only [toks7_atom7, List.singleton_append] at hv
  unfold assignmentOrExpression
  simp [bind_apply, hp, hk, hv, tree7_atom7, h2, h3, get, assignLeftLoop, assignable, PExpr.nt, h4, assignRightLoop, he, h1]

/-! ### `textOrAction` and `action` on the first items of a statement -/

theorem toa_text (n : Nat) (s0 b : PSt) (v : Bytes) (rest : List Item) (hs : Starts s0 b (it Tok.text v :: rest)) :
    textOrAction cfg (n + 1) s0 = .ok (.text 1 v) (mkS b rest (it Tok.text v) 0) := by
  obtain ⟨t, ts, hl, hnx⟩ := hs
  simp at hl
  obtain ⟨rfl, rfl⟩ := hl
  rw [textOrAction]
  simp [bind_apply, hnx, it]

theorem toa_action (n : Nat) (s0 b : PSt) (tl : List Item) (hs : Starts s0 b (ld :: tl)) :
    textOrAction cfg (n + 1) s0 = action cfg n (mkS b tl ld 0) := by
  obtain ⟨t, ts, hl, hnx⟩ := hs
  simp at hl
  obtain ⟨rfl, rfl⟩ := hl
  rw [textOrAction]
  simp [bind_apply, hnx, ld, it]

theorem action_if (n : Nat) (b : PSt) (x : Item) (tl : List Item) :
    action cfg (n + 1) (mkS b (kIf :: tl) x 0) = parseControl cfg n true "if" (mkS b tl kIf 0) := by
  have h0 : kIf.pos = 0 := rfl
  have h1 : kIf.typ = Tok.if_ := rfl
  rw [action]
  simp [bind_apply, h0, h1]

theorem action_range (n : Nat) (b : PSt) (x : Item) (tl : List Item) :
    action cfg (n + 1) (mkS b (kRange :: tl) x 0) = parseControl cfg n false "range" (mkS b tl kRange 0) := by
  have h0 : kRange.pos = 0 := rfl
  have h1 : kRange.typ = Tok.range := rfl
  rw [action]
  simp [bind_apply, h0, h1]

theorem expectRightDelim_rd (ctx : String) (b : PSt) (x : Item) (rest : List Item) :
    expectRightDelim ctx (mkS b (rd :: rest) x 0) = .ok rd (mkS b rest rd 0) := by
  have h0 : rd.pos = 0 := rfl
  have h1 : rd.typ = Tok.rightDelim := rfl
  simp [expectRightDelim, expect, bind_apply, h0, h1]

theorem expectRightDelim_pushed (ctx : String) (b : PSt) (rest : List Item) :
    expectRightDelim ctx (mkS b rest rd 1) = .ok rd (mkS b rest rd 0) := by
  have h1 : rd.typ = Tok.rightDelim := rfl
  simp [expectRightDelim, expect, bind_apply, h1]

theorem action_end (n : Nat) (b : PSt) (x : Item) (rest : List Item) :
    action cfg (n + 1) (mkS b (kEnd :: rd :: rest) x 0) = .ok .endM (mkS b rest rd 0) := by
  have h0 : kEnd.pos = 0 := rfl
  have h1 : kEnd.typ = Tok.end_ := rfl
  rw [action]
  simp [bind_apply, h0, h1, expectRightDelim_rd]

theorem action_else (n : Nat) (b : PSt) (x : Item) (rest : List Item) :
    action cfg (n + 1) (mkS b (kElse :: rd :: rest) x 0) = .ok (.elseM 1) (mkS b rest rd 0) := by
  have h0 : kElse.pos = 0 := rfl
  have h1 : kElse.typ = Tok.else_ := rfl
  have h2 : rd.pos = 0 := rfl
  have h3 : rd.typ = Tok.rightDelim := rfl
  rw [action]
  simp [bind_apply, h0, h1, h2, h3, expectRightDelim_pushed]

theorem action_elseif (n : Nat) (b : PSt) (x : Item) (rest : List Item) :
    action cfg (n + 1) (mkS b (kElse :: sp :: kIf :: rest) x 0) = .ok (.elseM 1) (mkS b rest kIf 1) := by
  have h0 : kElse.pos = 0 := rfl
  have h1 : kElse.typ = Tok.else_ := rfl
  have h3 : kIf.typ = Tok.if_ := rfl
  have hp := peekNonSpace_sp b kIf rest kElse rfl (by simp [h3])
  rw [action]
  simp [bind_apply, h0, h1, hp, h3]

/-- `{{ e }}` from behind the opening delimiter -/
theorem action_print (e : E7) (n : Nat) (b : PSt) (x : Item) (rest : List Item) (hn : n ≥ 10 * sz7 e) :
    action cfg (n + 1) (mkS b (toks7 e ++ rd :: rest) x 0) = .ok (printTree (tree7 e)) (mkS b rest rd 0) := by
  obtain ⟨t, ts, hl, h0, ht⟩ := (ehead7 e).append (rd :: rest)
  have hsp : t.typ ≠ Tok.space := by
    rcases ht with h | h | h | h | h <;> simp [h]
  have ha := aoe_expr cfg e n "command" (mkS b ts t 1) b t ts rest hn (peekNonSpace_pushed b ts t hsp) hl
  have hp := pipeline_plain cfg n b rest (tree7 e) (nocall7 e)
  rw [hl, action]
  rcases ht with h | h | h | h | h <;> simp [bind_apply, h0, h, ha, hp, printTree]

/-! ### one turn of the item-list loop -/

/-- the next non-space item of `s` is the head of `l`; looking at it leaves it pushed back -/
def Peeks (s b : PSt) (l : List Item) : Prop :=
  ∃ t ts, l = t :: ts ∧ t.typ ≠ Tok.space ∧ peekNonSpace s = .ok t (mkS b ts t 1)

theorem peeks_fresh (b : PSt) (x : Item) {l : List Item} (h : GoodHead l) : Peeks (mkS b l x 0) b l := by
  obtain ⟨t, ts, rfl, h0, hs⟩ := h
  exact ⟨t, ts, rfl, hs, peekNonSpace_cons b t ts x h0 hs⟩

theorem peeks_pushed (b : PSt) (t : Item) (ts : List Item) (hs : t.typ ≠ Tok.space) :
    Peeks (mkS b ts t 1) b (t :: ts) := ⟨t, ts, rfl, hs, peekNonSpace_pushed b ts t hs⟩

theorem loop_step_stmt (k : Nat) (terms : List Marker) (acc : List PStmt) (s0 b s1 : PSt) (t : Item) (ts : List Item)
    (nd : PStmt) (hp : Peeks s0 b (t :: ts)) (he : t.typ ≠ Tok.eof)
    (hx : textOrAction cfg k (mkS b ts t 1) = .ok nd s1) (hm : nd.marker = .none) :
    itemListLoop cfg (k + 1) terms acc s0 = itemListLoop cfg k terms (acc ++ [nd]) s1 := by
  obtain ⟨t', ts', hl, _, hpk⟩ := hp
  simp at hl
  obtain ⟨rfl, rfl⟩ := hl
  rw [itemListLoop]
  simp [bind_apply, hpk, he, hx, hm]

theorem loop_step_close (k : Nat) (terms : List Marker) (acc : List PStmt) (s0 b s1 : PSt) (t : Item) (ts : List Item)
    (nd : PStmt) (hp : Peeks s0 b (t :: ts)) (he : t.typ ≠ Tok.eof)
    (hx : textOrAction cfg k (mkS b ts t 1) = .ok nd s1) (hm : nd.marker ≠ .none)
    (ht : inTerminators nd.marker terms = true) :
    itemListLoop cfg (k + 1) terms acc s0 = .ok (acc, nd) s1 := by
  obtain ⟨t', ts', hl, _, hpk⟩ := hp
  simp at hl
  obtain ⟨rfl, rfl⟩ := hl
  rw [itemListLoop]
  simp [bind_apply, hpk, he, hx, hm, ht]

theorem ld_typ : ld.typ = Tok.leftDelim := rfl

/-- the loop at `{{end}}` -/
theorem loop_end (k : Nat) (terms : List Marker) (acc : List PStmt) (s0 b : PSt) (rest : List Item)
    (hp : Peeks s0 b (ld :: kEnd :: rd :: rest)) (ht : inTerminators .end_ terms = true) :
    itemListLoop cfg (k + 3) terms acc s0 = .ok (acc, .endM) (mkS b rest rd 0) := by
  refine loop_step_close cfg (k + 2) terms acc s0 b _ ld _ .endM hp (by simp [ld_typ]) ?_ (by simp [PStmt.marker]) ht
  rw [toa_action cfg (k + 1) _ b _ (starts_pushed b ld _ (by simp [ld_typ])), action_end]

/-- the loop at `{{else}}` -/
theorem loop_else (k : Nat) (terms : List Marker) (acc : List PStmt) (s0 b : PSt) (rest : List Item)
    (hp : Peeks s0 b (ld :: kElse :: rd :: rest)) (ht : inTerminators .else_ terms = true) :
    itemListLoop cfg (k + 3) terms acc s0 = .ok (acc, .elseM 1) (mkS b rest rd 0) := by
  refine loop_step_close cfg (k + 2) terms acc s0 b _ ld _ (.elseM 1) hp (by simp [ld_typ]) ?_ (by simp [PStmt.marker]) ht
  rw [toa_action cfg (k + 1) _ b _ (starts_pushed b ld _ (by simp [ld_typ])), action_else]

/-- the loop at `{{else if`: the `if` stays pushed back -/
theorem loop_elseif (k : Nat) (terms : List Marker) (acc : List PStmt) (s0 b : PSt) (rest : List Item)
    (hp : Peeks s0 b (ld :: kElse :: sp :: kIf :: rest)) (ht : inTerminators .else_ terms = true) :
    itemListLoop cfg (k + 3) terms acc s0 = .ok (acc, .elseM 1) (mkS b rest kIf 1) := by
  refine loop_step_close cfg (k + 2) terms acc s0 b _ ld _ (.elseM 1) hp (by simp [ld_typ]) ?_ (by simp [PStmt.marker]) ht
  rw [toa_action cfg (k + 1) _ b _ (starts_pushed b ld _ (by simp [ld_typ])), action_elseif]

theorem itemList_of_loop (m : Nat) (terms : List Marker) (s0 b sf : PSt) (t : Item) (ts : List Item)
    (nodes : List PStmt) (nd : PStmt) (hp : Peeks s0 b (t :: ts))
    (hx : itemListLoop cfg m terms [] (mkS b ts t 1) = .ok (nodes, nd) sf) :
    itemList cfg (m + 1) terms s0 = .ok (1, nodes, nd) sf := by
  obtain ⟨t', ts', hl, _, hpk⟩ := hp
  simp at hl
  obtain ⟨rfl, rfl⟩ := hl
  rw [itemList]
  simp [bind_apply, hpk, hx]

/-! ### lists of statements -/

/-- a statement starts with a text item or with `{{` -/
def StmtHead (l : List Item) : Prop :=
  ∃ t ts, l = t :: ts ∧ t.pos = 0 ∧ (t.typ = Tok.text ∨ t.typ = Tok.leftDelim)

theorem StmtHead.append {l : List Item} (h : StmtHead l) (m : List Item) : StmtHead (l ++ m) := by
  obtain ⟨t, ts, rfl, h0, hs⟩ := h
  exact ⟨t, ts ++ m, rfl, h0, hs⟩

theorem StmtHead.good {l : List Item} (h : StmtHead l) : GoodHead l := by
  obtain ⟨t, ts, rfl, h0, hs⟩ := h
  exact ⟨t, ts, rfl, h0, by rcases hs with h | h <;> simp [h]⟩

theorem headS (s : S) : StmtHead (toksS s) := by
  cases s with
  | text v => exact ⟨_, _, rfl, rfl, Or.inl rfl⟩
  | print e => exact ⟨_, _, rfl, rfl, Or.inr rfl⟩
  | ifS c thn els => exact ⟨_, _, rfl, rfl, Or.inr rfl⟩
  | rangeS v e body els => exact ⟨_, _, rfl, rfl, Or.inr rfl⟩

/-- a list of statements in front of a `{{` starts like a statement -/
theorem headL (l : L) (tl : List Item) : StmtHead (toksL l ++ ld :: tl) := by
  cases l with
  | nil => exact ⟨_, _, rfl, rfl, Or.inr rfl⟩
  | cons s l => simp only [toksL, List.append_assoc]; exact (headS s).append _

def lenL : L → Nat
  | .nil => 0
  | .cons _ l => lenL l + 1

theorem lenL_le : (l : L) → lenL l + 1 ≤ sizeL l
  | .nil => by simp [lenL, sizeL]
  | .cons s l => by have := lenL_le l; simp [lenL, sizeL]; omega

theorem marker_treeS (s : S) : (treeS s).marker = .none := by
  cases s <;> simp [treeS, printTree, PStmt.marker]

/-- what is proved of a statement: `textOrAction` reads exactly its spelling -/
@[reducible] def StmtOK (s : S) : Prop := ∀ (n : Nat) (s0 b : PSt) (rest : List Item),
    n ≥ 10 * sizeS s → Starts s0 b (toksS s ++ rest) →
    textOrAction cfg n s0 = .ok (treeS s) (mkS b rest (lastS s) 0)

/-- what is proved of a list: the loop adds its trees and goes on at the `{{` behind it -/
@[reducible] def ListOK (l : L) : Prop := ∀ (k : Nat) (terms : List Marker) (acc : List PStmt) (s0 b : PSt) (tl : List Item),
    k + lenL l ≥ 10 * sizeL l → Peeks s0 b (toksL l ++ ld :: tl) →
    ∃ s1, Peeks s1 b (ld :: tl) ∧
      itemListLoop cfg (k + lenL l) terms acc s0 = itemListLoop cfg k terms (acc ++ treeL l) s1

theorem list_nil : ListOK cfg .nil := by
  intro k terms acc s0 b tl _ hp
  exact ⟨s0, by simpa [toksL] using hp, by simp [lenL, treeL]⟩

theorem list_cons (s : S) (l : L) (hs : StmtOK cfg s) (hl : ListOK cfg l) : ListOK cfg (.cons s l) := by
  intro k terms acc s0 b tl hn hp
  obtain ⟨t, ts, hts, h0, hty⟩ := headS s
  have hsp : t.typ ≠ Tok.space := by rcases hty with h | h <;> simp [h]
  have heof : t.typ ≠ Tok.eof := by rcases hty with h | h <;> simp [h]
  have hlen := lenL_le l
  simp only [toksL, List.append_assoc] at hp
  have hx := hs (k + lenL l) (mkS b (ts ++ (toksL l ++ ld :: tl)) t 1) b (toksL l ++ ld :: tl)
    (by simp [lenL, sizeL] at hn; omega) (by rw [hts]; exact starts_pushed b t _ hsp)
  rw [hts] at hp
  have h1 := loop_step_stmt cfg (k + lenL l) terms acc s0 b _ t _ _ hp heof hx (marker_treeS s)
  obtain ⟨s1, hp1, h2⟩ := hl k terms (acc ++ [treeS s]) (mkS b (toksL l ++ ld :: tl) (lastS s) 0) b tl
    (by simp [lenL, sizeL] at hn; omega) (peeks_fresh b _ (headL l tl).good)
  refine ⟨s1, hp1, ?_⟩
  have e1 : k + lenL (L.cons s l) = k + lenL l + 1 := by simp [lenL]; omega
  rw [e1, h1, h2]
  simp [treeL]

/-- a list and the `{{end}}` behind it -/
theorem itemList_end (l : L) (hl : ListOK cfg l) (m : Nat) (terms : List Marker) (s0 b : PSt) (rest : List Item)
    (hm : m ≥ 10 * sizeL l + 3) (hp : Peeks s0 b (toksL l ++ ld :: kEnd :: rd :: rest))
    (ht : inTerminators .end_ terms = true) :
    itemList cfg (m + 1) terms s0 = .ok (1, treeL l, .endM) (mkS b rest rd 0) := by
  have hlen := lenL_le l
  obtain ⟨t, ts, hts, hsp, hpk⟩ := hp
  refine itemList_of_loop cfg m terms s0 b _ t ts _ _ ⟨t, ts, rfl, hsp, hpk⟩ ?_
  obtain ⟨k, rfl⟩ : ∃ k, m = (k + 3) + lenL l := ⟨m - lenL l - 3, by omega⟩
  obtain ⟨s1, hp1, h2⟩ := hl (k + 3) terms [] (mkS b ts t 1) b (kEnd :: rd :: rest) (by omega)
    (by rw [hts]; exact peeks_pushed b t ts hsp)
  rw [h2, loop_end cfg k terms _ s1 b rest hp1 ht]
  simp

/-- a list and the `{{else}}` behind it -/
theorem itemList_else (l : L) (hl : ListOK cfg l) (m : Nat) (terms : List Marker) (s0 b : PSt) (rest : List Item)
    (hm : m ≥ 10 * sizeL l + 3) (hp : Peeks s0 b (toksL l ++ ld :: kElse :: rd :: rest))
    (ht : inTerminators .else_ terms = true) :
    itemList cfg (m + 1) terms s0 = .ok (1, treeL l, .elseM 1) (mkS b rest rd 0) := by
  have hlen := lenL_le l
  obtain ⟨t, ts, hts, hsp, hpk⟩ := hp
  refine itemList_of_loop cfg m terms s0 b _ t ts _ _ ⟨t, ts, rfl, hsp, hpk⟩ ?_
  obtain ⟨k, rfl⟩ : ∃ k, m = (k + 3) + lenL l := ⟨m - lenL l - 3, by omega⟩
  obtain ⟨s1, hp1, h2⟩ := hl (k + 3) terms [] (mkS b ts t 1) b (kElse :: rd :: rest) (by omega)
    (by rw [hts]; exact peeks_pushed b t ts hsp)
  rw [h2, loop_else cfg k terms _ s1 b rest hp1 ht]
  simp

/-- a list and the `{{else if` behind it -/
theorem itemList_elseif (l : L) (hl : ListOK cfg l) (m : Nat) (terms : List Marker) (s0 b : PSt) (rest : List Item)
    (hm : m ≥ 10 * sizeL l + 3) (hp : Peeks s0 b (toksL l ++ ld :: kElse :: sp :: kIf :: rest))
    (ht : inTerminators .else_ terms = true) :
    itemList cfg (m + 1) terms s0 = .ok (1, treeL l, .elseM 1) (mkS b rest kIf 1) := by
  have hlen := lenL_le l
  obtain ⟨t, ts, hts, hsp, hpk⟩ := hp
  refine itemList_of_loop cfg m terms s0 b _ t ts _ _ ⟨t, ts, rfl, hsp, hpk⟩ ?_
  obtain ⟨k, rfl⟩ : ∃ k, m = (k + 3) + lenL l := ⟨m - lenL l - 3, by omega⟩
  obtain ⟨s1, hp1, h2⟩ := hl (k + 3) terms [] (mkS b ts t 1) b (kElse :: sp :: kIf :: rest) (by omega)
    (by rw [hts]; exact peeks_pushed b t ts hsp)
  rw [h2, loop_elseif cfg k terms _ s1 b rest hp1 ht]
  simp

/-! ### `parseControl`: the header, then the bodies -/

/-- `parseControl` from behind the header's closing delimiter -/
def ctrlTail (n : Nat) (allowElseIf : Bool) (set : Option PSet) (e : Option PExpr) : PM PStmt := do
  let (ll, list, nx) ← itemList cfg n [.else_, .end_]
  let els ← (if nx.marker = .else_ then do
      let pk ← peek
      if allowElseIf ∧ pk.typ = Tok.if_ then do
        let _ ← next
        let el ← lineNumber
        let inner ← parseControl cfg n true "if"
        pure (some (el, [inner]))
      else do
        let (el, elist, _) ← itemList cfg n [.end_]
        pure (some (el, elist))
    else pure none)
  pure (.branch allowElseIf 1 set e ll list els)

/-- a header that is a plain expression -/
theorem parseControl_inl (n : Nat) (allow : Bool) (ctx : String) (b : PSt) (x : Item) (tl rest : List Item) (e : PExpr)
    (h : assignmentOrExpression cfg n ctx (mkS b tl x 0) = .ok (.inl e) (mkS b rest rd 1)) :
    parseControl cfg (n + 1) allow ctx (mkS b tl x 0) = ctrlTail cfg n allow none (some e) (mkS b rest rd 0) := by
  rw [parseControl]
  simp [bind_apply, h, expectRightDelim_pushed, ctrlTail]

/-- a `range` header that declares variables -/
theorem parseControl_inr (n : Nat) (allow : Bool) (b : PSt) (x : Item) (tl rest : List Item) (st : PSet)
    (h : assignmentOrExpression cfg n "range" (mkS b tl x 0) = .ok (.inr st) (mkS b rest rd 1)) :
    parseControl cfg (n + 1) allow "range" (mkS b tl x 0) = ctrlTail cfg n allow (some st) none (mkS b rest rd 0) := by
  rw [parseControl]
  simp [bind_apply, h, expectRightDelim_pushed, ctrlTail]

theorem hdr_if (c : E7) (n : Nat) (b : PSt) (x : Item) (rest : List Item) (hn : n ≥ 10 * sz7 c) :
    parseControl cfg (n + 1) true "if" (mkS b (sp :: (toks7 c ++ rd :: rest)) x 0) =
      ctrlTail cfg n true none (some (tree7 c)) (mkS b rest rd 0) := by
  obtain ⟨t, ts, hl, h0, hsp⟩ := (good7 c).append (rd :: rest)
  refine parseControl_inl cfg n true "if" b x _ rest _ ?_
  rw [hl]
  exact aoe_expr cfg c n "if" _ b t ts rest hn (peekNonSpace_sp b t ts x h0 hsp) hl

theorem hdr_range (v : RangeVars) (e : E7) (n : Nat) (b : PSt) (x : Item) (rest : List Item) (hn : n ≥ 10 * sz7 e + 90) :
    parseControl cfg (n + 1) false "range" (mkS b (sp :: (toksV v ++ (toks7 e ++ rd :: rest))) x 0) =
      ctrlTail cfg n false (setV v (tree7 e)) (exprV v (tree7 e)) (mkS b rest rd 0) := by
  cases v with
  | none =>
    obtain ⟨t, ts, hl, h0, hsp⟩ := (good7 e).append (rd :: rest)
    refine parseControl_inl cfg n false "range" b x _ rest _ ?_
    simp only [toksV, List.nil_append]
    rw [hl]
    exact aoe_expr cfg e n "range" _ b t ts rest (by omega) (peekNonSpace_sp b t ts x h0 hsp) hl
  | one v => exact parseControl_inr cfg n false b x _ rest _ (aoe_one cfg v e n b x rest hn)
  | two k v => exact parseControl_inr cfg n false b x _ rest _ (aoe_two cfg k v e n b x rest hn)

/-- the body and `{{end}}` -/
theorem tail_none (l : L) (hl : ListOK cfg l) (n : Nat) (allow : Bool) (set : Option PSet) (e : Option PExpr)
    (b : PSt) (x : Item) (rest : List Item) (hn : n ≥ 10 * sizeL l + 4) :
    ctrlTail cfg n allow set e (mkS b (toksL l ++ ld :: kEnd :: rd :: rest) x 0) =
      .ok (.branch allow 1 set e 1 (treeL l) none) (mkS b rest rd 0) := by
  obtain ⟨m, rfl⟩ : ∃ m, n = m + 1 := ⟨n - 1, by omega⟩
  have h := itemList_end cfg l hl m [.else_, .end_] _ b rest (by omega) (peeks_fresh b x (headL l _).good) (by decide)
  simp [ctrlTail, bind_apply, h, PStmt.marker]

/-- the body, `{{else}}`, the else list and `{{end}}` -/
theorem tail_els (l l2 : L) (hl : ListOK cfg l) (hl2 : ListOK cfg l2) (n : Nat) (allow : Bool) (set : Option PSet)
    (e : Option PExpr) (b : PSt) (x : Item) (rest : List Item) (hn : n ≥ 10 * sizeL l + 4) (hn2 : n ≥ 10 * sizeL l2 + 4) :
    ctrlTail cfg n allow set e (mkS b (toksL l ++ ld :: kElse :: rd :: (toksL l2 ++ ld :: kEnd :: rd :: rest)) x 0) =
      .ok (.branch allow 1 set e 1 (treeL l) (some (1, treeL l2))) (mkS b rest rd 0) := by
  obtain ⟨m, rfl⟩ : ∃ m, n = m + 1 := ⟨n - 1, by omega⟩
  have h := itemList_else cfg l hl m [.else_, .end_] _ b (toksL l2 ++ ld :: kEnd :: rd :: rest) (by omega)
    (peeks_fresh b x (headL l _).good) (by decide)
  obtain ⟨t, ts, hts, h0, hty⟩ := headL l2 (kEnd :: rd :: rest)
  have hsp : t.typ ≠ Tok.space := by rcases hty with h | h <;> simp [h]
  have hif : t.typ ≠ Tok.if_ := by rcases hty with h | h <;> simp [h]
  have h2 := itemList_end cfg l2 hl2 m [.end_] (mkS b ts t 1) b rest (by omega)
    (by rw [hts]; exact peeks_pushed b t ts hsp) (by decide)
  rw [hts] at h ⊢
  simp [ctrlTail, bind_apply, h, PStmt.marker, h0, hif, h2]

/-- the body, `{{else if`, and the rest of the chain -/
theorem tail_elseif (l : L) (hl : ListOK cfg l) (n : Nat) (set : Option PSet) (e : Option PExpr)
    (b s2 : PSt) (x : Item) (tl : List Item) (inner : PStmt) (hn : n ≥ 10 * sizeL l + 4)
    (hi : parseControl cfg n true "if" (mkS b tl kIf 0) = .ok inner s2) :
    ctrlTail cfg n true set e (mkS b (toksL l ++ ld :: kElse :: sp :: kIf :: tl) x 0) =
      .ok (.branch true 1 set e 1 (treeL l) (some (1, [inner]))) s2 := by
  obtain ⟨m, rfl⟩ : ∃ m, n = m + 1 := ⟨n - 1, by omega⟩
  have h := itemList_elseif cfg l hl m [.else_, .end_] _ b tl (by omega) (peeks_fresh b x (headL l _).good) (by decide)
  have h3 : kIf.typ = Tok.if_ := rfl
  simp [ctrlTail, bind_apply, h, PStmt.marker, h3, hi]

/-! ### the statements, case by case (the recursive occurrences as hypotheses) -/

/-- what is proved of an `if` with condition `c`, body `thn` and continuation `els`, from behind the keyword -/
@[reducible] def CtrlIf (c : E7) (thn : L) (els : Else) : Prop := ∀ (n : Nat) (b : PSt) (x : Item) (rest : List Item),
    n ≥ 10 * (sz7 c + sizeL thn + sizeElse els) + 5 →
    parseControl cfg n true "if" (mkS b (sp :: (toks7 c ++ rd :: (toksL thn ++ (toksElse els ++ rest)))) x 0) =
      .ok (.branch true 1 none (some (tree7 c)) 1 (treeL thn) (treeElse els)) (mkS b rest rd 0)

theorem ctrl_if_none (c : E7) (thn : L) (hl : ListOK cfg thn) : CtrlIf cfg c thn .none := by
  intro n b x rest hn
  obtain ⟨m, rfl⟩ : ∃ m, n = m + 1 := ⟨n - 1, by omega⟩
  simp only [sizeElse] at hn
  rw [hdr_if cfg c m b x _ (by omega)]
  simp only [toksElse, endToks, treeElse, List.cons_append, List.nil_append]
  exact tail_none cfg thn hl m true none _ b rd rest (by omega)

theorem ctrl_if_els (c : E7) (thn l : L) (hl : ListOK cfg thn) (hl2 : ListOK cfg l) : CtrlIf cfg c thn (.els l) := by
  intro n b x rest hn
  obtain ⟨m, rfl⟩ : ∃ m, n = m + 1 := ⟨n - 1, by omega⟩
  simp only [sizeElse] at hn
  rw [hdr_if cfg c m b x _ (by omega)]
  simp only [toksElse, endToks, treeElse, List.cons_append, List.nil_append, List.append_assoc]
  exact tail_els cfg thn l hl hl2 m true none _ b rd rest (by omega) (by omega)

theorem ctrl_if_elseIf (c : E7) (thn : L) (c' : E7) (thn' : L) (els' : Else) (hl : ListOK cfg thn)
    (hi : CtrlIf cfg c' thn' els') : CtrlIf cfg c thn (.elseIf c' thn' els') := by
  intro n b x rest hn
  obtain ⟨m, rfl⟩ : ∃ m, n = m + 1 := ⟨n - 1, by omega⟩
  simp only [sizeElse] at hn
  rw [hdr_if cfg c m b x _ (by omega)]
  simp only [toksElse, treeElse, List.cons_append, List.append_assoc]
  exact tail_elseif cfg thn hl m none _ b _ rd _ _ (by omega) (hi m b kIf rest (by omega))

theorem stmt_text (v : Bytes) : StmtOK cfg (.text v) := by
  intro n s0 b rest hn hs
  obtain ⟨m, rfl⟩ : ∃ m, n = m + 1 := ⟨n - 1, by simp [sizeS] at hn; omega⟩
  exact toa_text cfg m s0 b v rest (by simpa [toksS] using hs)

theorem stmt_print (e : E7) : StmtOK cfg (.print e) := by
  intro n s0 b rest hn hs
  simp only [sizeS] at hn
  obtain ⟨m, rfl⟩ : ∃ m, n = m + 2 := ⟨n - 2, by omega⟩
  simp only [toksS, List.cons_append, List.append_assoc, List.nil_append] at hs
  rw [toa_action cfg (m + 1) s0 b _ hs]
  exact action_print cfg e m b ld rest (by omega)

theorem stmt_if (c : E7) (thn : L) (els : Else) (h : CtrlIf cfg c thn els) : StmtOK cfg (.ifS c thn els) := by
  intro n s0 b rest hn hs
  simp only [sizeS] at hn
  obtain ⟨m, rfl⟩ : ∃ m, n = m + 2 := ⟨n - 2, by omega⟩
  simp only [toksS, List.cons_append, List.append_assoc] at hs
  rw [toa_action cfg (m + 1) s0 b _ hs, action_if]
  exact h m b kIf rest (by omega)

theorem stmt_range_none (v : RangeVars) (e : E7) (body : L) (hl : ListOK cfg body) :
    StmtOK cfg (.rangeS v e body .none) := by
  intro n s0 b rest hn hs
  simp only [sizeS, sizeR] at hn
  obtain ⟨m, rfl⟩ : ∃ m, n = m + 3 := ⟨n - 3, by omega⟩
  simp only [toksS, toksR, endToks, List.cons_append, List.append_assoc, List.nil_append] at hs
  rw [toa_action cfg (m + 2) s0 b _ hs, action_range, hdr_range cfg v e m b kRange _ (by omega)]
  exact tail_none cfg body hl m false _ _ b rd rest (by omega)

theorem stmt_range_els (v : RangeVars) (e : E7) (body l : L) (hl : ListOK cfg body) (hl2 : ListOK cfg l) :
    StmtOK cfg (.rangeS v e body (.els l)) := by
  intro n s0 b rest hn hs
  simp only [sizeS, sizeR] at hn
  obtain ⟨m, rfl⟩ : ∃ m, n = m + 3 := ⟨n - 3, by omega⟩
  simp only [toksS, toksR, endToks, List.cons_append, List.append_assoc, List.nil_append] at hs
  rw [toa_action cfg (m + 2) s0 b _ hs, action_range, hdr_range cfg v e m b kRange _ (by omega)]
  exact tail_els cfg body l hl hl2 m false _ _ b rd rest (by omega) (by omega)

/-! ### the ladder: mutual structural recursion over the grammar -/

mutual
theorem stmtS : (s : S) → StmtOK cfg s
  | .text v => stmt_text cfg v
  | .print e => stmt_print cfg e
  | .ifS c thn els => stmt_if cfg c thn els (ctrlE els c thn (listL thn))
  | .rangeS v e body .none => stmt_range_none cfg v e body (listL body)
  | .rangeS v e body (.els l) => stmt_range_els cfg v e body l (listL body) (listL l)
theorem listL : (l : L) → ListOK cfg l
  | .nil => list_nil cfg
  | .cons s l => list_cons cfg s l (stmtS s) (listL l)
theorem ctrlE : (els : Else) → ∀ (c : E7) (thn : L), ListOK cfg thn → CtrlIf cfg c thn els
  | .none, c, thn, h => ctrl_if_none cfg c thn h
  | .els l, c, thn, h => ctrl_if_els cfg c thn l h (listL l)
  | .elseIf c' thn' els', c, thn, h => ctrl_if_elseIf cfg c thn c' thn' els' h (ctrlE els' c' thn' (listL thn'))
end

/-! ### the top-level loop of `parseTemplate` -/

/-- the item that ends the template -/
def eofI : Item := it Tok.eof []

theorem bodyLoop_reads (fuel : Nat) : (l : L) → ∀ (k : Nat) (acc : List PStmt) (b : PSt) (x : Item),
    fuel ≥ 10 * sizeL l → k ≥ lenL l + 1 →
    bodyLoop cfg fuel k acc (mkS b (toksL l ++ [eofI]) x 0) = .ok (acc ++ treeL l) (mkS b [] eofI 1)
  | .nil => by
    intro k acc b x _ hk
    obtain ⟨m, rfl⟩ : ∃ m, k = m + 1 := ⟨k - 1, by omega⟩
    have h0 : eofI.pos = 0 := rfl
    have h1 : eofI.typ = Tok.eof := rfl
    rw [bodyLoop]
    simp [toksL, treeL, bind_apply, h0, h1]
  | .cons s l => by
    intro k acc b x hf hk
    obtain ⟨m, rfl⟩ : ∃ m, k = m + 1 := ⟨k - 1, by omega⟩
    obtain ⟨t, ts, hts, h0, hty⟩ := headS s
    have hsp : t.typ ≠ Tok.space := by rcases hty with h | h <;> simp [h]
    have heof : t.typ ≠ Tok.eof := by rcases hty with h | h <;> simp [h]
    have hx := stmtS cfg s fuel (mkS b (ts ++ (toksL l ++ [eofI])) t 1) b (toksL l ++ [eofI])
      (by simp [sizeL] at hf; omega) (by rw [hts]; exact starts_pushed b t _ hsp)
    have ih := bodyLoop_reads fuel l m (acc ++ [treeS s]) b (lastS s) (by simp [sizeL] at hf; omega)
      (by simp [lenL] at hk; omega)
    rw [bodyLoop]
    simp only [toksL, List.append_assoc, hts, List.cons_append]
    simp [bind_apply, h0, heof, hx, marker_treeS, ih, treeL]

end JetVerif.Parse
