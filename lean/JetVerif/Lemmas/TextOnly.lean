/-
  Helper lemmas for Props/C03E.lean: exact results of the parser model and of the evaluator model
  on templates without actions (text and comments only), i.e. templates whose item list is a list
  of text items followed by the end-of-file item.

  * parser: `parseTemplate` returns exactly one `PStmt.text` per text item, in order, with the
    item's bytes (the prologue's skipped blank text nodes are put back in front);
  * evaluator: a list of `Stmt.text` statements appends one `.lit` chunk per statement to the
    current destination and changes nothing else;
  * `eraseTexts`: the text-only part of the tree erasure (`Driver/ExecSrc.lean`'s `stmtA`, which is
    a `partial def` there and therefore opaque to proofs; this is its `.text` case, restated).
-/
import JetVerif.Lemmas.ParseSafe
import JetVerif.Model.Eval

namespace JetVerif.TextOnly
open JetVerif JetVerif.Parse

/-! ### parser: the token buffer on a state of known shape -/

/-- a parser state: everything but the item buffer and the lexer position is `b`'s -/
def stT (b : PSt) (ts : List Item) (t0 : Item) (pc : Nat) (lp : Int) : PSt :=
  { b with toks := ts, t0 := t0, peekCount := pc, lastPos := lp }

/-- item `t` has been received and pushed back; `ts` are still to come -/
def peeked (b : PSt) (t : Item) (ts : List Item) : PSt := stT b ts t 1 t.pos

/-- what `peek` returns when the items not yet consumed (pushed-back one included) are `l` -/
def peekRes (b : PSt) : List Item → PRes Item
  | [] => .ok Item.zero (peeked b Item.zero [])
  | t :: ts => .ok t (peeked b t ts)

/-- `1 + strings.Count(input[:p], "\n")` -/
def lineAt (input : Bytes) (p : Int) : Nat := 1 + countNl (input.take p.toNat)

theorem peek_fresh (b : PSt) (l : List Item) (x : Item) (lp : Int) :
    peek (stT b l x 0 lp) = peekRes b l := by
  cases l <;> simp [peek, bind_apply, Parse.get, stT, nextItem, Parse.modify, peekRes, peeked, Item.zero]

theorem peek_peeked (b : PSt) (t : Item) (ts : List Item) :
    peek (peeked b t ts) = peekRes b (t :: ts) := by
  simp [peek, bind_apply, Parse.get, stT, peeked, tokenAt, peekRes]

theorem next_peeked (b : PSt) (t : Item) (ts : List Item) :
    next (peeked b t ts) = .ok t (stT b ts t 0 t.pos) := by
  simp [next, bind_apply, Parse.get, Parse.modify, stT, peeked, tokenAt]

theorem nextNonSpace_peeked (b : PSt) (t : Item) (ts : List Item) (h : t.typ ≠ Tok.space) :
    nextNonSpace (peeked b t ts) = .ok t (stT b ts t 0 t.pos) := by
  have e : (peeked b t ts).toks.length + (peeked b t ts).peekCount + 2 = (ts.length + 2) + 1 := by
    simp [peeked, stT]
  rw [nextNonSpace, e, nextNonSpaceLoop]
  simp [bind_apply, next_peeked, h]

theorem lineNumber_stT (b : PSt) (ts : List Item) (x : Item) (pc : Nat) (lp : Int)
    (h0 : 0 ≤ lp) (h1 : lp ≤ b.input.length) :
    lineNumber (stT b ts x pc lp) = .ok (lineAt b.input lp) (stT b ts x pc lp) := by
  simp [lineNumber, Lex.slice, stT, h0, h1, lineAt]

theorem backup_stT (b : PSt) (ts : List Item) (x : Item) (lp : Int) :
    backup (stT b ts x 0 lp) = .ok () (stT b ts x 1 lp) := by
  simp [backup, Parse.modify, stT]

/-! ### parser: text-only item lists -/

/-- a text item, given as (position, value) -/
def textItem (x : Int × Bytes) : Item := { typ := Tok.text, pos := x.1, val := x.2 }

def eofItem (e : Int) (ev : Bytes) : Item := { typ := Tok.eof, pos := e, val := ev }

/-- the item list of a template without actions: text items, then end of file -/
def itemsT (ts : List (Int × Bytes)) (e : Int) (ev : Bytes) : List Item :=
  ts.map textItem ++ [eofItem e ev]

/-- the node `textOrAction` builds for a text item: its line is the line of the item's position -/
def textNode (input : Bytes) (x : Int × Bytes) : PStmt := .text (lineAt input x.1) x.2

def InRange (input : Bytes) (p : Int) : Prop := 0 ≤ p ∧ p ≤ input.length

@[simp] theorem textItem_typ (x : Int × Bytes) : (textItem x).typ = Tok.text := rfl
@[simp] theorem textItem_pos (x : Int × Bytes) : (textItem x).pos = x.1 := rfl
@[simp] theorem textItem_val (x : Int × Bytes) : (textItem x).val = x.2 := rfl
@[simp] theorem stT_ext (b ts x pc lp) : (stT b ts x pc lp).ext = b.ext := rfl
@[simp] theorem stT_imports (b ts x pc lp) : (stT b ts x pc lp).imports = b.imports := rfl
@[simp] theorem stT_input (b ts x pc lp) : (stT b ts x pc lp).input = b.input := rfl

theorem textOrAction_text (cfg : Cfg) (fuel : Nat) (b : PSt) (x : Int × Bytes) (rest : List Item)
    (hx : InRange b.input x.1) :
    textOrAction cfg (fuel + 1) (peeked b (textItem x) rest) =
      .ok (textNode b.input x) (stT b rest (textItem x) 0 x.1) := by
  rw [textOrAction]
  have hsp : (textItem x).typ ≠ Tok.space := by simp [textItem]
  simp [bind_apply, nextNonSpace_peeked _ _ _ hsp]
  simp [textItem, lineNumber_stT _ _ _ _ _ hx.1 hx.2, textNode]

theorem bodyLoop_texts (cfg : Cfg) (fuel : Nat) (b : PSt) (e : Int) (ev : Bytes) :
    ∀ (ts : List (Int × Bytes)) (n : Nat) (acc : List PStmt) (s : PSt),
      (∀ x ∈ ts, InRange b.input x.1) → ts.length + 1 ≤ n → peek s = peekRes b (itemsT ts e ev) →
      bodyLoop cfg (fuel + 1) n acc s = .ok (acc ++ ts.map (textNode b.input)) (peeked b (eofItem e ev) []) := by
  intro ts
  induction ts with
  | nil =>
    intro n acc s _ hn hpk
    obtain ⟨m, rfl⟩ : ∃ m, n = m + 1 := ⟨n - 1, by simp at hn; omega⟩
    rw [bodyLoop]
    simp [bind_apply, hpk, itemsT, peekRes, eofItem]
  | cons x ts ih =>
    intro n acc s hr hn hpk
    obtain ⟨m, rfl⟩ : ∃ m, n = m + 1 := ⟨n - 1, by simp at hn; omega⟩
    rw [bodyLoop]
    have hx := hr x (by simp)
    simp [bind_apply, hpk, itemsT, peekRes, textOrAction_text cfg fuel b x _ hx]
    simp [textNode, PStmt.marker]
    have := ih m (acc ++ [textNode b.input x]) (stT b (itemsT ts e ev) (textItem x) 0 x.1)
      (fun y hy => hr y (by simp [hy])) (by simp at hn; omega) (peek_fresh _ _ _ _)
    simpa [textNode, itemsT] using this

/-- the prologue loop on a text-only item list: it turns a prefix `ts1` of the text items (the
    leading blank ones) into skipped nodes and stops with the next item pushed back -/
theorem prologueLoop_texts (cfg : Cfg) (b : PSt) (hext : b.ext = none) (himp : b.imports = [])
    (e : Int) (ev : Bytes) :
    ∀ (ts : List (Int × Bytes)) (n : Nat) (skipped : List PStmt) (s : PSt),
      (∀ x ∈ ts, InRange b.input x.1) → ts.length + 1 ≤ n → peek s = peekRes b (itemsT ts e ev) →
      ∃ ts1 ts2 u r, ts = ts1 ++ ts2 ∧ itemsT ts2 e ev = u :: r ∧
        prologueLoop cfg n skipped s = .ok (skipped ++ ts1.map (textNode b.input)) (peeked b u r) := by
  intro ts
  induction ts with
  | nil =>
    intro n skipped s _ hn hpk
    obtain ⟨m, rfl⟩ : ∃ m, n = m + 1 := ⟨n - 1, by simp at hn; omega⟩
    refine ⟨[], [], eofItem e ev, [], rfl, rfl, ?_⟩
    rw [prologueLoop]
    simp [bind_apply, hpk, itemsT, peekRes, eofItem]
  | cons x ts ih =>
    intro n skipped s hr hn hpk
    obtain ⟨m, rfl⟩ : ∃ m, n = m + 1 := ⟨n - 1, by simp at hn; omega⟩
    have hx := hr x (by simp)
    by_cases hb : isBlank x.2 = true
    · obtain ⟨ts1, ts2, u, r, h1, h2, h3⟩ :=
        ih m (skipped ++ [textNode b.input x]) (stT b (itemsT ts e ev) (textItem x) 0 x.1)
          (fun y hy => hr y (by simp [hy])) (by simp at hn; omega) (peek_fresh _ _ _ _)
      refine ⟨x :: ts1, ts2, u, r, by rw [h1]; rfl, h2, ?_⟩
      rw [prologueLoop]
      simp [bind_apply, hpk, itemsT, peekRes, next_peeked]
      simp [hb, bind_apply, Parse.get, hext, himp, lineNumber_stT _ _ _ _ _ hx.1 hx.2]
      simpa [itemsT, textNode] using h3
    · refine ⟨[], x :: ts, textItem x, itemsT ts e ev, rfl, rfl, ?_⟩
      rw [prologueLoop]
      simp [bind_apply, hpk, itemsT, peekRes, next_peeked]
      simp [textItem, hb, bind_apply, backup, Parse.modify, stT, peeked]

/-- position of the first item of `itemsT ts e ev` -/
def firstPos (ts : List (Int × Bytes)) (e : Int) : Int :=
  match ts with
  | [] => e
  | x :: _ => x.1

/-- the parser state `Set.parse` starts from -/
def startSt (input name : Bytes) (toks : List Item) : PSt := { input := input, name := name, toks := toks }

/-- the parser state after a text-only template: every item received, the end-of-file item pushed
    back, no `extends`, no imports, no blocks -/
def endSt (input name : Bytes) (e : Int) (ev : Bytes) : PSt :=
  { input := input, name := name, toks := [], t0 := eofItem e ev, peekCount := 1, lastPos := e }

/-- **`parseTemplate` on a text-only item list, exact result**: one text node per text item, in
    order, with the item's bytes and the line of the item's position; the blank text items the
    prologue skipped are in front again. -/
theorem parseTemplate_texts (cfg : Cfg) (fuel : Nat) (input name : Bytes) (ts : List (Int × Bytes))
    (e : Int) (ev : Bytes) (hr : ∀ x ∈ ts, InRange input x.1) (he : InRange input e) :
    parseTemplate cfg (fuel + 1) (startSt input name (itemsT ts e ev)) =
      .ok (lineAt input (firstPos ts e), ts.map (textNode input)) (endSt input name e ev) := by
  let b : PSt := startSt input name []
  have hs0 : startSt input name (itemsT ts e ev) = stT b (itemsT ts e ev) Item.zero 0 0 := rfl
  have hend : endSt input name e ev = peeked b (eofItem e ev) [] := rfl
  obtain ⟨u0, r0, h0, hp0, hr0, hlen⟩ : ∃ u0 r0, itemsT ts e ev = u0 :: r0 ∧ u0.pos = firstPos ts e ∧
      InRange input u0.pos ∧ r0.length = ts.length := by
    cases ts with
    | nil => exact ⟨eofItem e ev, [], rfl, rfl, he, rfl⟩
    | cons x ts => exact ⟨textItem x, itemsT ts e ev, rfl, rfl, hr x (by simp), by simp [itemsT]⟩
  have hr' : ∀ x ∈ ts, InRange b.input x.1 := hr
  have hl : lineNumber (peeked b u0 r0) = .ok (lineAt input (firstPos ts e)) (peeked b u0 r0) := by
    rw [← hp0]; exact lineNumber_stT b r0 u0 1 u0.pos hr0.1 hr0.2
  obtain ⟨ts1, ts2, u, r, h1, h2, h3⟩ := prologueLoop_texts cfg b rfl rfl e ev ts (ts.length + 3) []
    (peeked b u0 r0) hr' (by omega) (by rw [peek_peeked, h0])
  have h4 := bodyLoop_texts cfg fuel b e ev ts2 (ts.length + 3) (ts1.map (textNode b.input)) (peeked b u r)
    (fun x hx => hr' x (by rw [h1]; simp [hx])) (by rw [h1]; simp; omega) (by rw [peek_peeked, h2])
  have hb : (peeked b u0 r0).toks.length + (peeked b u0 r0).peekCount + 2 = ts.length + 3 := by
    simp [peeked, stT, hlen]
  rw [hs0, hend, parseTemplate]
  simp only [bind_apply, peek_fresh, h0, peekRes, andThen_ok, hl, Parse.get, hb, h3, List.nil_append]
  have hc : (peeked b u r).ext.isNone = true ∧ (peeked b u r).imports.isEmpty = true := ⟨rfl, rfl⟩
  simp only [hc, and_self, if_true, h4, andThen_ok, pure_apply, ← List.map_append, ← h1]
  rfl

/-- `Set.parse` on an already lexed text-only source -/
theorem parseItems_texts (cfg : Cfg) (input name : Bytes) (ts : List (Int × Bytes))
    (e : Int) (ev : Bytes) (hr : ∀ x ∈ ts, InRange input x.1) (he : InRange input e) :
    parseItems cfg name input (itemsT ts e ev) =
      .ok { name := name, ext := none, imports := [], passed := [],
            rootLine := lineAt input (firstPos ts e), root := ts.map (textNode input) } := by
  have h := parseTemplate_texts cfg (40 * ((itemsT ts e ev).length + 4) - 1) input name ts e ev hr he
  have hf : 40 * ((itemsT ts e ev).length + 4) - 1 + 1 = fuelFor (itemsT ts e ev) := by
    unfold fuelFor; omega
  rw [hf] at h
  unfold parseItems
  simp only [startSt] at h
  rw [h]
  rfl

/-- a list of items whose types are text or end-of-file, the last one being end-of-file and
    end-of-file being nowhere else (`EofLast`), is a text-only item list -/
theorem shape_of_types (l : List Item) (last : Item) (he : EofLast (l ++ [last]))
    (hl : last.typ = Tok.eof) (ht : ∀ t ∈ l, t.typ = Tok.text ∨ t.typ = Tok.eof) :
    ∃ ts, l ++ [last] = itemsT ts last.pos last.val := by
  refine ⟨l.map fun t => (t.pos, t.val), ?_⟩
  have hall : ∀ t ∈ l, t.typ = Tok.text := by
    intro t hm
    rcases ht t hm with h | h
    · exact h
    · obtain ⟨pre, post, rfl⟩ := List.append_of_mem hm
      have := he pre t (post ++ [last]) (by simp) h
      simp at this
  have hmap : l.map (fun t => textItem (t.pos, t.val)) = l := by
    rw [List.map_congr_left (g := id)]
    · simp
    · intro t hm
      have := hall t hm
      cases t
      simp_all [textItem]
  simp only [itemsT, List.map_map, Function.comp_def, hmap]
  cases last
  simp_all [eofItem]

/-! ### the erasure of text nodes -/

/-- the tree erasure restricted to text nodes: `PStmt.text l b ↦ Stmt.text ⟨path, l⟩ b`.  This is
    what `Driver/ExecSrc.lean`'s `stmtA` does for a text node; `stmtA` is a `partial def`, hence
    opaque to proofs, so its text case is restated here.  `none` as soon as a node is not text. -/
def eraseTexts (path : Bytes) : List PStmt → Option (List Stmt)
  | [] => some []
  | .text l b :: rest => (eraseTexts path rest).map (Stmt.text ⟨path, l⟩ b :: ·)
  | _ :: _ => none

theorem eraseTexts_textNodes (path input : Bytes) (ts : List (Int × Bytes)) :
    eraseTexts path (ts.map (textNode input)) =
      some (ts.map fun x => Stmt.text ⟨path, lineAt input x.1⟩ x.2) := by
  induction ts with
  | nil => rfl
  | cons x ts ih => simp [textNode, eraseTexts] at ih ⊢; simp [ih]

end JetVerif.TextOnly

/-! ### evaluator: lists of text statements -/

namespace JetVerif.TextOnly
open JetVerif JetVerif.Eval

/-- the chunk `writeLit` appends for a text node: tagged `.lit` (no escaper involved) -/
def litChunk (b : Bytes) : Chunk := { tag := .lit, piece := .lit b }

def isTextStmt : Stmt → Bool
  | .text _ _ => true
  | _ => false

/-- the bytes of a text statement -/
def stmtBytes : Stmt → Bytes
  | .text _ b => b
  | _ => []

theorem appendTo_writer (rt : RT) (w : Wr) (cs : List Chunk) : (appendTo rt w cs).writer = rt.writer := by
  unfold appendTo; cases w.idx <;> rfl

theorem appendTo_nil (rt : RT) (w : Wr) : appendTo rt w [] = rt := by
  unfold appendTo; cases w.idx <;> simp

theorem appendTo_appendTo (rt : RT) (w : Wr) (a b : List Chunk) :
    appendTo (appendTo rt w a) w b = appendTo rt w (a ++ b) := by
  unfold appendTo
  cases w.idx with
  | none => rfl
  | some k =>
    simp only [List.reverse_append, RT.mk.injEq, true_and, and_true]
    funext j
    by_cases h : j = k <;> simp [h]

theorem execListGo_texts (r : Rec) (env : Env) :
    ∀ (stmts : List Stmt) (rv : Val) (ins : Bool) (rt : RT), (∀ s ∈ stmts, isTextStmt s = true) →
      execListGo r env stmts rv ins rt =
        .ok (rv, ins) (appendTo rt rt.writer (stmts.map fun s => litChunk (stmtBytes s))) := by
  intro stmts
  induction stmts with
  | nil => intro rv ins rt _; simp [execListGo, appendTo_nil]; rfl
  | cons s rest ih =>
    intro rv ins rt h
    have hs := h s (by simp)
    cases s with
    | text loc b =>
      have hst : execStmt r env ins (.text loc b) rt =
          .ok (.invalid, .invalid, ins) (appendTo rt rt.writer [litChunk b]) := rfl
      rw [execListGo]
      simp only [hst, isReturnStmt, Val.isValid]
      rw [ih _ _ _ (fun s hs => h s (by simp [hs])), appendTo_writer, appendTo_appendTo]
      simp [stmtBytes]
    | _ => simp [isTextStmt] at hs

/-- **a list of text statements, exact result**: one `.lit` chunk per statement is appended to the
    current destination (`appendTo`: most recent first), nothing is returned, nothing else changes -/
theorem execList_texts (n : Nat) (env : Env) (stmts : List Stmt) (rt : RT)
    (h : ∀ s ∈ stmts, isTextStmt s = true) :
    (recAt (n + 1)).execList env stmts rt =
      .ok .invalid (appendTo rt rt.writer (stmts.map fun s => litChunk (stmtBytes s))) := by
  show execListF (recAt n) env stmts rt = _
  simp [execListF, execListGo_texts _ _ _ _ _ _ h]

/-- the same, read off the runtime: for the current destination `k`, its sink (most recent first)
    has gained the statements' chunks; every other sink, the scope chain, the context, the block
    content, the frames, the destination, the buffer count and the log are as before -/
theorem execList_texts_sink (n : Nat) (env : Env) (stmts : List Stmt) (rt : RT) (k : Nat)
    (h : ∀ s ∈ stmts, isTextStmt s = true) (hk : rt.writer.idx = some k) :
    ∃ rt', (recAt (n + 1)).execList env stmts rt = .ok .invalid rt' ∧
      rt'.sink k = (stmts.reverse.map fun s => litChunk (stmtBytes s)) ++ rt.sink k ∧
      (∀ j, j ≠ k → rt'.sink j = rt.sink j) ∧
      rt'.scope = rt.scope ∧ rt'.ctx = rt.ctx ∧ rt'.content = rt.content ∧ rt'.frames = rt.frames ∧
      rt'.writer = rt.writer ∧ rt'.nbufs = rt.nbufs ∧ rt'.log = rt.log := by
  refine ⟨_, execList_texts n env stmts rt h, ?_⟩
  simp only [appendTo, hk, List.map_reverse]
  simp only [ite_true, and_self, and_true, true_and]
  intro j hj; simp [hj]

/-- the bytes a chunk stands for when it is literal text -/
def chunkBytes (c : Chunk) : Bytes :=
  match c.piece with
  | .lit b => b
  | .flt _ _ => []

/-- the output as one byte string -/
def outBytes (out : List Chunk) : Bytes := (out.map chunkBytes).flatten

theorem outBytes_litChunks (vs : List Bytes) : outBytes (vs.map litChunk) = vs.flatten := by
  simp [outBytes, List.map_map, Function.comp_def, chunkBytes, litChunk]

/-- **`Template.Execute` on a template whose root is a list of text statements**: the output is one
    `.lit` chunk per statement, in order; no error, nothing logged; for any variables and data -/
theorem execute_texts (n : Nat) (env : Env) (name : Bytes) (blocks : List (Bytes × BlockN))
    (stmts : List Stmt) (vars : List (Bytes × Val)) (data : Val) (h : ∀ s ∈ stmts, isTextStmt s = true) :
    execute (n + 1) env { name := name, ext := none, imports := [], blocks := blocks, root := stmts } vars data =
      .ok (stmts.map fun s => litChunk (stmtBytes s)) [] := by
  simp [execute, rootOf, execList_texts n env stmts _ h, appendTo, initRT, Wr.idx]

end JetVerif.TextOnly
