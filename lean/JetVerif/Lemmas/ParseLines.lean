/-
  Every line recorded in a parsed tree lies inside the source.

  Each node the parser builds records `lineNumber()` at the moment it is created, and `lineNumber` is
  `1 + countNl (input[:lastPos])` - between 1 and the number of lines of the source whenever the slice
  exists at all.  The predicates `PExpr.LinesOk`, `PStmt.LinesOk`, ... say that of every `line` field of a
  node and of all its descendants; the partial-correctness triple `Keeps` ("if `m` returns, the state still
  has the same input, every block registered so far has good lines, and so has the value returned")
  is proved of all productions of Model/Parse.lean by induction on the fuel, production by production
  as in Lemmas/ParseNoCrash.lean.  The only facts about the state the argument needs are that no production
  replaces `input` and that `registerBlock` is the only writer of `passed`; literal conversion (`cfg.lit`)
  and the loader (`cfg.load`) produce no lines.
-/
import JetVerif.Lemmas.ParseNoCrash

namespace JetVerif.Parse

/-! ### the predicates -/

mutual
def PExpr.LinesOk (inp : Bytes) : PExpr → Prop
  | .ident l _ => LineOk inp l
  | .field l _ => LineOk inp l
  | .chain l b _ => LineOk inp l ∧ PExpr.LinesOk inp b
  | .underscore l => LineOk inp l
  | .nilLit l => LineOk inp l
  | .boolLit l _ => LineOk inp l
  | .strLit l _ => LineOk inp l
  | .numLit l _ _ => LineOk inp l
  | .binary _ l _ lo r => LineOk inp l ∧ PExpr.LinesOkOpt inp lo ∧ PExpr.LinesOk inp r
  | .not l e => LineOk inp l ∧ PExpr.LinesOk inp e
  | .ternary l c a b => LineOk inp l ∧ PExpr.LinesOk inp c ∧ PExpr.LinesOk inp a ∧ PExpr.LinesOk inp b
  | .call l b args _ => LineOk inp l ∧ PExpr.LinesOk inp b ∧ PExpr.LinesOkList inp args
  | .index l b i => LineOk inp l ∧ PExpr.LinesOk inp b ∧ PExpr.LinesOkOpt inp i
  | .slice l b i j => LineOk inp l ∧ PExpr.LinesOk inp b ∧ PExpr.LinesOkOpt inp i ∧ PExpr.LinesOkOpt inp j
def PExpr.LinesOkOpt (inp : Bytes) : Option PExpr → Prop
  | none => True
  | some e => PExpr.LinesOk inp e
def PExpr.LinesOkList (inp : Bytes) : List PExpr → Prop
  | [] => True
  | e :: es => PExpr.LinesOk inp e ∧ PExpr.LinesOkList inp es
end

/-- what a type of parser results has to satisfy: every line recorded in the value is a line of the source -/
class Lined (α : Type) where
  ok : Bytes → α → Prop

instance : Lined PExpr := ⟨PExpr.LinesOk⟩
/-- a `Nat` returned by a production is a line (`lineNumber`, the line of a list, of a clause) -/
instance : Lined Nat := ⟨LineOk⟩
instance : Lined Item := ⟨fun _ _ => True⟩
instance : Lined Tok := ⟨fun _ _ => True⟩
instance : Lined Unit := ⟨fun _ _ => True⟩
instance : Lined Bool := ⟨fun _ _ => True⟩
instance : Lined UInt8 := ⟨fun _ _ => True⟩
instance : Lined PSt := ⟨fun _ _ => True⟩
instance {α β} [Lined α] [Lined β] : Lined (α × β) := ⟨fun i p => Lined.ok i p.1 ∧ Lined.ok i p.2⟩
instance {α β} [Lined α] [Lined β] : Lined (α ⊕ β) :=
  ⟨fun i p => match p with | .inl a => Lined.ok i a | .inr b => Lined.ok i b⟩
instance {α} [Lined α] : Lined (Option α) := ⟨fun i o => ∀ a, o = some a → Lined.ok i a⟩
instance {α} [Lined α] : Lined (List α) := ⟨fun i l => ∀ a, a ∈ l → Lined.ok i a⟩

def PSet.LinesOk (inp : Bytes) (s : PSet) : Prop :=
  LineOk inp s.line ∧ Lined.ok inp s.left ∧ Lined.ok inp s.right
instance : Lined PSet := ⟨PSet.LinesOk⟩

/-- `callLine` is the line of the embedded call expression when the command's base was one, and 0 (the
    zero `CallExprNode`) otherwise -/
def PCmd.LinesOk (inp : Bytes) (c : PCmd) : Prop :=
  LineOk inp c.line ∧ (c.callLine = 0 ∨ LineOk inp c.callLine) ∧ Lined.ok inp c.base ∧ Lined.ok inp c.args
instance : Lined PCmd := ⟨PCmd.LinesOk⟩

def PPipe.LinesOk (inp : Bytes) (p : PPipe) : Prop := LineOk inp p.line ∧ Lined.ok inp p.cmds
instance : Lined PPipe := ⟨PPipe.LinesOk⟩

def PParam.LinesOk (inp : Bytes) (p : PParam) : Prop := Lined.ok inp p.dflt
instance : Lined PParam := ⟨PParam.LinesOk⟩

mutual
def PStmt.LinesOk (inp : Bytes) : PStmt → Prop
  | .text l _ => LineOk inp l
  | .action l set pipe => LineOk inp l ∧ Lined.ok inp set ∧ Lined.ok inp pipe
  | .branch _ l set e ll list els =>
    LineOk inp l ∧ Lined.ok inp set ∧ Lined.ok inp e ∧ LineOk inp ll ∧ PStmt.LinesOkList inp list ∧
      PStmt.LinesOkEls inp els
  | .block l _ params ctx ll list content =>
    LineOk inp l ∧ Lined.ok inp params ∧ Lined.ok inp ctx ∧ LineOk inp ll ∧ PStmt.LinesOkList inp list ∧
      PStmt.LinesOkEls inp content
  | .yield l _ params ctx content _ =>
    LineOk inp l ∧ Lined.ok inp params ∧ Lined.ok inp ctx ∧ PStmt.LinesOkEls inp content
  | .include l name ctx => LineOk inp l ∧ Lined.ok inp name ∧ Lined.ok inp ctx
  | .tryS l ll list catchC => LineOk inp l ∧ LineOk inp ll ∧ PStmt.LinesOkList inp list ∧ PStmt.LinesOkCatch inp catchC
  | .ret l e => LineOk inp l ∧ Lined.ok inp e
  | .endM => True
  | .elseM l => LineOk inp l
  | .contentM => True
  | .catchM l ev ll list => LineOk inp l ∧ Lined.ok inp ev ∧ LineOk inp ll ∧ PStmt.LinesOkList inp list
def PStmt.LinesOkList (inp : Bytes) : List PStmt → Prop
  | [] => True
  | e :: es => PStmt.LinesOk inp e ∧ PStmt.LinesOkList inp es
def PStmt.LinesOkEls (inp : Bytes) : Option (Nat × List PStmt) → Prop
  | none => True
  | some (l, list) => LineOk inp l ∧ PStmt.LinesOkList inp list
def PStmt.LinesOkCatch (inp : Bytes) : Option (Nat × Option (Nat × Bytes) × Nat × List PStmt) → Prop
  | none => True
  | some (l, ev, ll, list) => LineOk inp l ∧ Lined.ok inp ev ∧ LineOk inp ll ∧ PStmt.LinesOkList inp list
end

instance : Lined PStmt := ⟨PStmt.LinesOk⟩

/-- rootLine, the root list and every registered block -/
def PTmpl.LinesOk (inp : Bytes) (t : PTmpl) : Prop :=
  LineOk inp t.rootLine ∧ (∀ n ∈ t.root, PStmt.LinesOk inp n) ∧ (∀ b ∈ t.passed, PStmt.LinesOk inp b.2)

/-! ### unfolding lemmas -/

section oklemmas
variable (inp : Bytes)

theorem PExpr.linesOkList_iff (l : List PExpr) : PExpr.LinesOkList inp l ↔ ∀ e, e ∈ l → PExpr.LinesOk inp e := by
  induction l with
  | nil => simp [PExpr.LinesOkList]
  | cons e es ih => simp [PExpr.LinesOkList, ih]

theorem PExpr.linesOkOpt_iff (o : Option PExpr) : PExpr.LinesOkOpt inp o ↔ ∀ e, o = some e → PExpr.LinesOk inp e := by
  cases o <;> simp [PExpr.LinesOkOpt]

theorem PStmt.linesOkList_iff (l : List PStmt) : PStmt.LinesOkList inp l ↔ ∀ e, e ∈ l → PStmt.LinesOk inp e := by
  induction l with
  | nil => simp [PStmt.LinesOkList]
  | cons e es ih => simp [PStmt.LinesOkList, ih]

@[simp] theorem ok_nat (l : Nat) : Lined.ok inp l ↔ LineOk inp l := Iff.rfl
@[simp] theorem ok_item (t : Item) : Lined.ok inp t ↔ True := Iff.rfl
@[simp] theorem ok_tok (t : Tok) : Lined.ok inp t ↔ True := Iff.rfl
@[simp] theorem ok_unit (t : Unit) : Lined.ok inp t ↔ True := Iff.rfl
@[simp] theorem ok_bool (t : Bool) : Lined.ok inp t ↔ True := Iff.rfl
@[simp] theorem ok_pst (t : PSt) : Lined.ok inp t ↔ True := Iff.rfl
@[simp] theorem ok_bytes (t : Bytes) : Lined.ok inp t ↔ True := ⟨fun _ => trivial, fun _ _ _ => trivial⟩
@[simp] theorem ok_bytesList (t : List Bytes) : Lined.ok inp t ↔ True :=
  ⟨fun _ => trivial, fun _ _ _ => (ok_bytes inp _).2 trivial⟩
@[simp] theorem ok_prod {α β} [Lined α] [Lined β] (a : α) (b : β) :
    Lined.ok inp (a, b) ↔ Lined.ok inp a ∧ Lined.ok inp b := Iff.rfl
@[simp] theorem ok_prod' {α β} [Lined α] [Lined β] (p : α × β) :
    Lined.ok inp p ↔ Lined.ok inp p.1 ∧ Lined.ok inp p.2 := Iff.rfl
@[simp] theorem ok_inl {α β} [Lined α] [Lined β] (a : α) : Lined.ok inp (Sum.inl a : α ⊕ β) ↔ Lined.ok inp a := Iff.rfl
@[simp] theorem ok_inr {α β} [Lined α] [Lined β] (b : β) : Lined.ok inp (Sum.inr b : α ⊕ β) ↔ Lined.ok inp b := Iff.rfl
@[simp] theorem ok_none {α} [Lined α] : Lined.ok inp (none : Option α) ↔ True :=
  ⟨fun _ => trivial, fun _ _ h => by cases h⟩
@[simp] theorem ok_some {α} [Lined α] (a : α) : Lined.ok inp (some a) ↔ Lined.ok inp a :=
  ⟨fun h => h a rfl, fun h b e => by cases e; exact h⟩
@[simp] theorem ok_nil {α} [Lined α] : Lined.ok inp ([] : List α) ↔ True :=
  ⟨fun _ => trivial, fun _ _ h => by cases h⟩
@[simp] theorem ok_cons {α} [Lined α] (a : α) (l : List α) :
    Lined.ok inp (a :: l) ↔ Lined.ok inp a ∧ Lined.ok inp l := by
  show (∀ x, x ∈ a :: l → Lined.ok inp x) ↔ Lined.ok inp a ∧ (∀ x, x ∈ l → Lined.ok inp x)
  simp
@[simp] theorem ok_append {α} [Lined α] (l1 l2 : List α) :
    Lined.ok inp (l1 ++ l2) ↔ Lined.ok inp l1 ∧ Lined.ok inp l2 := by
  show (∀ x, x ∈ l1 ++ l2 → Lined.ok inp x) ↔ (∀ x, x ∈ l1 → Lined.ok inp x) ∧ (∀ x, x ∈ l2 → Lined.ok inp x)
  simp [or_imp, forall_and]
theorem ok_list {α} [Lined α] (l : List α) : Lined.ok inp l ↔ ∀ a, a ∈ l → Lined.ok inp a := Iff.rfl

theorem ok_exprList (l : List PExpr) : PExpr.LinesOkList inp l ↔ Lined.ok inp l := PExpr.linesOkList_iff inp l
theorem ok_exprOpt (o : Option PExpr) : PExpr.LinesOkOpt inp o ↔ Lined.ok inp o := PExpr.linesOkOpt_iff inp o
theorem ok_stmtList (l : List PStmt) : PStmt.LinesOkList inp l ↔ Lined.ok inp l := PStmt.linesOkList_iff inp l
theorem ok_stmtEls (o : Option (Nat × List PStmt)) : PStmt.LinesOkEls inp o ↔ Lined.ok inp o := by
  cases o with
  | none => simp [PStmt.LinesOkEls]
  | some p => obtain ⟨l, list⟩ := p; simp [PStmt.LinesOkEls, ok_stmtList]
theorem ok_stmtCatch (o : Option (Nat × Option (Nat × Bytes) × Nat × List PStmt)) :
    PStmt.LinesOkCatch inp o ↔ Lined.ok inp o := by
  cases o with
  | none => simp [PStmt.LinesOkCatch]
  | some p => obtain ⟨l, ev, ll, list⟩ := p; simp [PStmt.LinesOkCatch, ok_stmtList]

@[simp] theorem ok_expr (e : PExpr) : Lined.ok inp e ↔ PExpr.LinesOk inp e := Iff.rfl
@[simp] theorem ok_stmt (e : PStmt) : Lined.ok inp e ↔ PStmt.LinesOk inp e := Iff.rfl
@[simp] theorem ok_set (e : PSet) : Lined.ok inp e ↔ PSet.LinesOk inp e := Iff.rfl
@[simp] theorem ok_cmd (e : PCmd) : Lined.ok inp e ↔ PCmd.LinesOk inp e := Iff.rfl
@[simp] theorem ok_pipe (e : PPipe) : Lined.ok inp e ↔ PPipe.LinesOk inp e := Iff.rfl
@[simp] theorem ok_param (e : PParam) : Lined.ok inp e ↔ PParam.LinesOk inp e := Iff.rfl

end oklemmas

theorem PExpr.line_ok {inp : Bytes} (e : PExpr) (h : PExpr.LinesOk inp e) : LineOk inp e.line := by
  cases e <;> simp [PExpr.LinesOk] at h <;> simp [PExpr.line] <;> first | exact h | exact h.1

theorem PExpr.line_ok_iff {inp : Bytes} (e : PExpr) (h : PExpr.LinesOk inp e) : LineOk inp e.line ↔ True :=
  ⟨fun _ => trivial, fun _ => PExpr.line_ok e h⟩

/-- closes a goal "`x` has good lines" from the hypotheses about its parts -/
macro "kok" : tactic => `(tactic| first
  | trivial
  | assumption
  | (simp_all [PExpr.LinesOk, PStmt.LinesOk, PSet.LinesOk, PCmd.LinesOk, PPipe.LinesOk, PParam.LinesOk,
      ok_exprList, ok_exprOpt, ok_stmtList, ok_stmtEls, ok_stmtCatch, PExpr.line_ok_iff]; done))

/-! ### the triple -/

/-- the part of the state the argument is about: the input is the source, every block registered so far
    has good lines -/
def J (inp : Bytes) (s : PSt) : Prop := s.input = inp ∧ ∀ b, b ∈ s.passed → PStmt.LinesOk inp b.2

/-- if `m` returns, `J` still holds and the value returned satisfies `Q` -/
def Keeps (inp : Bytes) {α} (m : PM α) (Q : α → Prop) : Prop :=
  ∀ s, J inp s → ∀ a s', m s = .ok a s' → J inp s' ∧ Q a

/-- `Keeps` with the canonical postcondition of the result type -/
abbrev KeepsOk (inp : Bytes) {α} [Lined α] (m : PM α) : Prop := Keeps inp m (Lined.ok inp)

section rules
variable {inp : Bytes}

theorem Keeps.bind {α β} [Lined α] {m : PM α} {f : α → PM β} {R : β → Prop}
    (hm : Keeps inp m (Lined.ok inp)) (hf : ∀ a, Lined.ok inp a → Keeps inp (f a) R) : Keeps inp (m >>= f) R := by
  intro s hs b s' h
  rw [bind_apply] at h
  cases hms : m s with
  | ok a s1 =>
    rw [hms] at h
    obtain ⟨h1, h2⟩ := hm s hs a s1 hms
    exact hf a h2 s1 h1 b s' h
  | err l msg => rw [hms] at h; simp [PRes.andThen] at h
  | crash w => rw [hms] at h; simp [PRes.andThen] at h
  | fuel => rw [hms] at h; simp [PRes.andThen] at h
  | unsupported w => rw [hms] at h; simp [PRes.andThen] at h

theorem Keeps.pure {α} {Q : α → Prop} {a : α} (h : Q a) : Keeps inp (Pure.pure a : PM α) Q := by
  intro s hs b s' e
  simp at e
  obtain ⟨rfl, rfl⟩ := e
  exact ⟨hs, h⟩

theorem Keeps.ite {α} {c : Prop} [Decidable c] {m1 m2 : PM α} {Q : α → Prop}
    (h1 : Keeps inp m1 Q) (h2 : Keeps inp m2 Q) : Keeps inp (if c then m1 else m2) Q := by
  by_cases hc : c
  · simp [hc]; exact h1
  · simp [hc]; exact h2

theorem Keeps.post {α} {m : PM α} {Q Q' : α → Prop} (h : Keeps inp m Q) (hq : ∀ a, Q a → Q' a) : Keeps inp m Q' :=
  fun s hs a s' e => ⟨(h s hs a s' e).1, hq a (h s hs a s' e).2⟩

theorem Keeps.outOfFuel {α} {Q : α → Prop} : Keeps inp (outOfFuel : PM α) Q := by
  intro s _ a s' e; simp [Parse.outOfFuel] at e
theorem Keeps.unsupported {α} {Q : α → Prop} (w : String) : Keeps inp (unsupported w : PM α) Q := by
  intro s _ a s' e; simp [Parse.unsupported] at e
theorem Keeps.crash {α} {Q : α → Prop} (w : String) : Keeps inp (crash w : PM α) Q := by
  intro s _ a s' e; simp [Parse.crash] at e
theorem Keeps.errorf {α} {Q : α → Prop} (ps : List MP) : Keeps inp (errorf ps : PM α) Q := by
  intro s _ a s' e
  unfold Parse.errorf at e
  split at e <;> simp at e
theorem Keeps.unexpected {α} {Q : α → Prop} (tk : Item) (c x : String) : Keeps inp (unexpected tk c x : PM α) Q := by
  unfold Parse.unexpected
  exact Keeps.ite (Keeps.errorf _) (Keeps.ite (Keeps.errorf _) (Keeps.errorf _))

theorem Keeps.get : Keeps inp get (Lined.ok inp) := by
  intro s hs a s' e
  simp [Parse.get] at e
  obtain ⟨rfl, rfl⟩ := e
  exact ⟨hs, trivial⟩

/-- a state update that touches neither the input nor the registered blocks -/
theorem Keeps.modify (f : PSt → PSt) (hf : ∀ s, (f s).input = s.input ∧ (f s).passed = s.passed) :
    Keeps inp (modify f) (Lined.ok inp) := by
  intro s hs a s' e
  simp [Parse.modify] at e
  obtain ⟨rfl, rfl⟩ := e
  exact ⟨⟨by rw [(hf s).1]; exact hs.1, by rw [(hf s).2]; exact hs.2⟩, trivial⟩

theorem countNl_slice (inp : Bytes) (a b : Int) (pre : Bytes) (h : Lex.slice inp a b = some pre) :
    countNl pre ≤ countNl inp := by
  unfold Lex.slice at h
  split at h
  · simp at h
    rw [← h]
    unfold countNl
    have h1 : ((inp.drop a.toNat).take (b - a).toNat).Sublist inp :=
      (List.take_sublist _ _).trans (List.drop_sublist _ _)
    exact (h1.filter _).length_le
  · simp at h

/-- the line `lineNumber` computes is a line of the source (whatever `lastPos` is) -/
theorem Keeps.lineNumber : Keeps inp lineNumber (Lined.ok inp) := by
  intro s hs a s' e
  unfold Parse.lineNumber at e
  split at e
  · rename_i pre hpre
    simp at e
    obtain ⟨rfl, rfl⟩ := e
    refine ⟨hs, ?_⟩
    have := countNl_slice s.input 0 s.lastPos pre hpre
    rw [hs.1] at this
    exact ⟨by omega, by omega⟩
  · simp at e

/-- a production that leaves input and registered blocks alone -/
theorem Keeps.raw {α} [Lined α] {m : PM α} (hok : ∀ a : α, Lined.ok inp a)
    (h : ∀ (s : PSt) (a : α) (s' : PSt), m s = .ok a s' → s'.input = s.input ∧ s'.passed = s.passed) :
    Keeps inp m (Lined.ok inp) := by
  intro s hs a s' e
  obtain ⟨h1, h2⟩ := h s a s' e
  exact ⟨⟨by rw [h1]; exact hs.1, by rw [h2]; exact hs.2⟩, hok a⟩

theorem Keeps.nextItem : Keeps inp nextItem (Lined.ok inp) := by
  refine Keeps.raw (fun _ => trivial) ?_
  intro s a s' e
  unfold Parse.nextItem at e
  split at e <;> simp at e <;> obtain ⟨_, rfl⟩ := e <;> exact ⟨rfl, rfl⟩

theorem Keeps.tokenAt (i : Nat) : Keeps inp (tokenAt i) (Lined.ok inp) := by
  refine Keeps.raw (fun _ => trivial) ?_
  intro s a s' e
  unfold Parse.tokenAt at e
  split at e <;> simp at e <;> obtain ⟨_, rfl⟩ := e <;> exact ⟨rfl, rfl⟩

theorem Keeps.fieldNames (v : Bytes) : Keeps inp (fieldNames v) (Lined.ok inp) := by
  refine Keeps.raw (fun _ => (ok_bytesList inp _).2 trivial) ?_
  intro s a s' e
  unfold Parse.fieldNames at e
  split at e
  · simp [Parse.crash] at e
  · simp at e; obtain ⟨_, rfl⟩ := e; exact ⟨rfl, rfl⟩

theorem Keeps.chainAdd (fields : List Bytes) (v : Bytes) : Keeps inp (chainAdd fields v) (Lined.ok inp) := by
  refine Keeps.raw (fun _ => (ok_bytesList inp _).2 trivial) ?_
  intro s a s' e
  unfold Parse.chainAdd at e
  split at e
  · split at e
    · simp [Parse.crash] at e
    · simp at e; obtain ⟨_, rfl⟩ := e; exact ⟨rfl, rfl⟩
  · simp [Parse.crash] at e

/-- registering a block with good lines keeps all registered blocks good -/
theorem Keeps.registerBlock (name : Bytes) (b : PStmt) (hb : Lined.ok inp b) :
    Keeps inp (registerBlock name b) (Lined.ok inp) := by
  intro s hs a s' e
  simp [Parse.registerBlock, Parse.modify] at e
  obtain ⟨_, rfl⟩ := e
  refine ⟨?_, trivial⟩
  split
  · refine ⟨hs.1, ?_⟩
    intro x hx
    simp at hx
    obtain ⟨y1, y2, hy, hxy⟩ := hx
    split at hxy
    · rw [← hxy]; exact hb
    · rw [← hxy]; exact hs.2 _ hy
  · refine ⟨hs.1, ?_⟩
    intro x hx
    simp at hx
    rcases hx with hx | rfl
    · exact hs.2 _ hx
    · exact hb

end rules

/-! ### the proof steps -/

/-- closes a `Keeps` goal about a primitive (extended below as primitives are proved) -/
syntax "kprim" : tactic
macro_rules | `(tactic| kprim) => `(tactic| first
  | exact Keeps.errorf _ | exact Keeps.unexpected _ _ _ | exact Keeps.unsupported _ | exact Keeps.outOfFuel
  | exact Keeps.crash _ | exact Keeps.get | exact Keeps.lineNumber | exact Keeps.nextItem | exact Keeps.tokenAt _
  | exact Keeps.fieldNames _ | exact Keeps.chainAdd _ _ | exact Keeps.modify _ (fun _ => ⟨rfl, rfl⟩)
  | (refine Keeps.registerBlock _ _ ?_; kok))

/-- closes a `Keeps` goal that is a call of a production already dealt with (extended below) -/
syntax "kcall" : tactic
macro_rules | `(tactic| kcall) => `(tactic| fail "no production")

macro "kstep" : tactic => `(tactic| first
  | kprim
  | kcall
  | (refine Keeps.pure ?_; try kok)
  | refine Keeps.bind ?_ (fun _ _ => ?_)
  | refine Keeps.ite ?_ ?_
  | (show Keeps _ _ _; split))
macro "kauto" : tactic => `(tactic| repeat' kstep)

section prims
variable {inp : Bytes}

theorem Keeps.next : Keeps inp next (Lined.ok inp) := by unfold Parse.next; kauto
macro_rules | `(tactic| kprim) => `(tactic| exact Keeps.next)
theorem Keeps.backup : Keeps inp backup (Lined.ok inp) := by unfold Parse.backup; kauto
macro_rules | `(tactic| kprim) => `(tactic| exact Keeps.backup)
theorem Keeps.backup2 (t : Item) : Keeps inp (backup2 t) (Lined.ok inp) := by unfold Parse.backup2; kauto
macro_rules | `(tactic| kprim) => `(tactic| exact Keeps.backup2 _)
theorem Keeps.peek : Keeps inp peek (Lined.ok inp) := by unfold Parse.peek; kauto
macro_rules | `(tactic| kprim) => `(tactic| exact Keeps.peek)

theorem Keeps.nextNonSpaceLoop : ∀ n, Keeps inp (nextNonSpaceLoop n) (Lined.ok inp)
  | 0 => Keeps.outOfFuel
  | n + 1 => by
    have ih := Keeps.nextNonSpaceLoop n
    unfold Parse.nextNonSpaceLoop
    kauto
    exact ih
theorem Keeps.nextNonSpace : Keeps inp nextNonSpace (Lined.ok inp) :=
  fun s hs a s' e => Keeps.nextNonSpaceLoop _ s hs a s' e
macro_rules | `(tactic| kprim) => `(tactic| exact Keeps.nextNonSpace)
theorem Keeps.peekNonSpace : Keeps inp peekNonSpace (Lined.ok inp) := by unfold Parse.peekNonSpace; kauto
macro_rules | `(tactic| kprim) => `(tactic| exact Keeps.peekNonSpace)
theorem Keeps.expect (ty : Tok) (c e : String) : Keeps inp (expect ty c e) (Lined.ok inp) := by
  unfold Parse.expect; kauto
macro_rules | `(tactic| kprim) => `(tactic| exact Keeps.expect _ _ _)
theorem Keeps.expectRightDelim (c : String) : Keeps inp (expectRightDelim c) (Lined.ok inp) := Keeps.expect _ _ _
macro_rules | `(tactic| kprim) => `(tactic| exact Keeps.expectRightDelim _)
theorem Keeps.expectOneOf (t1 t2 : Tok) (c e : String) : Keeps inp (expectOneOf t1 t2 c e) (Lined.ok inp) := by
  unfold Parse.expectOneOf; kauto
macro_rules | `(tactic| kprim) => `(tactic| exact Keeps.expectOneOf _ _ _ _)
theorem Keeps.expectString (cfg : Cfg) (c : String) : Keeps inp (expectString cfg c) (Lined.ok inp) := by
  unfold Parse.expectString; kauto
macro_rules | `(tactic| kprim) => `(tactic| exact Keeps.expectString _ _)

end prims

/-! ### the expression productions -/


variable (inp : Bytes) (cfg : Cfg)

structure ExprLines (n : Nat) : Prop where
  term : KeepsOk inp (term cfg n)
  chainLoop : ∀ acc, KeepsOk inp (chainLoop n acc)
  operandReset : ∀ node, Lined.ok inp node → KeepsOk inp (operandReset cfg n node)
  operand : ∀ ctx, KeepsOk inp (operand cfg n ctx)
  argsLoop : ∀ acc slot, Lined.ok inp acc → KeepsOk inp (parseArgumentsLoop cfg n acc slot)
  args : KeepsOk inp (parseArguments cfg n)
  unary : ∀ ctx, KeepsOk inp (unaryExpression cfg n ctx)
  mulLoop : ∀ ctx l e, Lined.ok inp l → KeepsOk inp (multiplicativeLoop cfg n ctx l e)
  mul : ∀ ctx, KeepsOk inp (multiplicativeExpression cfg n ctx)
  addLoop : ∀ ctx l e, Lined.ok inp l → KeepsOk inp (additiveLoop cfg n ctx l e)
  add : ∀ ctx, KeepsOk inp (additiveExpression cfg n ctx)
  relLoop : ∀ ctx l e, Lined.ok inp l → KeepsOk inp (numericComparativeLoop cfg n ctx l e)
  rel : ∀ ctx, KeepsOk inp (numericComparativeExpression cfg n ctx)
  eqLoop : ∀ ctx l e, Lined.ok inp l → KeepsOk inp (comparativeLoop cfg n ctx l e)
  eq : ∀ ctx, KeepsOk inp (comparativeExpression cfg n ctx)
  logLoop : ∀ ctx l e, Lined.ok inp l → KeepsOk inp (logicalLoop cfg n ctx l e)
  log : ∀ ctx, KeepsOk inp (logicalExpression cfg n ctx)
  pexpr : ∀ ctx, KeepsOk inp (parseExpression cfg n ctx)
  expr : ∀ ctx as, KeepsOk inp (expression cfg n ctx as)

theorem exprLines_zero : ExprLines inp cfg 0 := by
  constructor <;> intros <;> first
    | (rw [term]; exact Keeps.outOfFuel) | (rw [chainLoop]; exact Keeps.outOfFuel)
    | (rw [operandReset]; exact Keeps.outOfFuel) | (rw [operand]; exact Keeps.outOfFuel)
    | (rw [parseArgumentsLoop]; exact Keeps.outOfFuel) | (rw [parseArguments]; exact Keeps.outOfFuel)
    | (rw [unaryExpression]; exact Keeps.outOfFuel) | (rw [multiplicativeLoop]; exact Keeps.outOfFuel)
    | (rw [multiplicativeExpression]; exact Keeps.outOfFuel) | (rw [additiveLoop]; exact Keeps.outOfFuel)
    | (rw [additiveExpression]; exact Keeps.outOfFuel) | (rw [numericComparativeLoop]; exact Keeps.outOfFuel)
    | (rw [numericComparativeExpression]; exact Keeps.outOfFuel) | (rw [comparativeLoop]; exact Keeps.outOfFuel)
    | (rw [comparativeExpression]; exact Keeps.outOfFuel) | (rw [logicalLoop]; exact Keeps.outOfFuel)
    | (rw [logicalExpression]; exact Keeps.outOfFuel) | (rw [parseExpression]; exact Keeps.outOfFuel)
    | (rw [expression]; exact Keeps.outOfFuel)

/-- a call of an expression production one level down: by the induction hypothesis in the context -/
macro_rules | `(tactic| kcall) => `(tactic| (first
  | apply ExprLines.term ‹ExprLines _ _ _› | apply ExprLines.chainLoop ‹ExprLines _ _ _›
  | apply ExprLines.operandReset ‹ExprLines _ _ _› | apply ExprLines.operand ‹ExprLines _ _ _›
  | apply ExprLines.argsLoop ‹ExprLines _ _ _› | apply ExprLines.args ‹ExprLines _ _ _›
  | apply ExprLines.unary ‹ExprLines _ _ _› | apply ExprLines.mulLoop ‹ExprLines _ _ _›
  | apply ExprLines.mul ‹ExprLines _ _ _› | apply ExprLines.addLoop ‹ExprLines _ _ _›
  | apply ExprLines.add ‹ExprLines _ _ _› | apply ExprLines.relLoop ‹ExprLines _ _ _›
  | apply ExprLines.rel ‹ExprLines _ _ _› | apply ExprLines.eqLoop ‹ExprLines _ _ _›
  | apply ExprLines.eq ‹ExprLines _ _ _› | apply ExprLines.logLoop ‹ExprLines _ _ _›
  | apply ExprLines.log ‹ExprLines _ _ _› | apply ExprLines.pexpr ‹ExprLines _ _ _›
  | apply ExprLines.expr ‹ExprLines _ _ _›) <;> try kok)

theorem el_term (n : Nat) (ih : ExprLines inp cfg n) :
    KeepsOk inp (term cfg (n + 1)) := by
  rw [term]
  kauto

theorem el_chainLoop (n : Nat) (ih : ExprLines inp cfg n) :
    ∀ acc, KeepsOk inp (chainLoop (n + 1) acc) := by
  intro acc
  rw [chainLoop]
  kauto

theorem el_operandReset (n : Nat) (ih : ExprLines inp cfg n) :
    ∀ node, Lined.ok inp node → KeepsOk inp (operandReset cfg (n + 1) node) := by
  intro node0 h0
  rw [operandReset]
  kauto

theorem el_operand (n : Nat) (ih : ExprLines inp cfg n) :
    ∀ ctx, KeepsOk inp (operand cfg (n + 1) ctx) := by
  intro ctx
  rw [operand]
  kauto

theorem el_argsLoop (n : Nat) (ih : ExprLines inp cfg n) :
    ∀ acc slot, Lined.ok inp acc → KeepsOk inp (parseArgumentsLoop cfg (n + 1) acc slot) := by
  intro acc slot hacc
  rw [parseArgumentsLoop]
  kauto

theorem el_args (n : Nat) (ih : ExprLines inp cfg n) :
    KeepsOk inp (parseArguments cfg (n + 1)) := by
  rw [parseArguments]
  kauto

theorem el_unary (n : Nat) (ih : ExprLines inp cfg n) :
    ∀ ctx, KeepsOk inp (unaryExpression cfg (n + 1) ctx) := by
  intro ctx
  rw [unaryExpression]
  kauto

theorem el_mulLoop (n : Nat) (ih : ExprLines inp cfg n) :
    ∀ ctx l e, Lined.ok inp l → KeepsOk inp (multiplicativeLoop cfg (n + 1) ctx l e) := by
  intro ctx l e hl
  rw [multiplicativeLoop]
  kauto

theorem el_mul (n : Nat) (ih : ExprLines inp cfg n) :
    ∀ ctx, KeepsOk inp (multiplicativeExpression cfg (n + 1) ctx) := by
  intro ctx
  rw [multiplicativeExpression]
  kauto

theorem el_addLoop (n : Nat) (ih : ExprLines inp cfg n) :
    ∀ ctx l e, Lined.ok inp l → KeepsOk inp (additiveLoop cfg (n + 1) ctx l e) := by
  intro ctx l e hl
  rw [additiveLoop]
  kauto

theorem el_add (n : Nat) (ih : ExprLines inp cfg n) :
    ∀ ctx, KeepsOk inp (additiveExpression cfg (n + 1) ctx) := by
  intro ctx
  rw [additiveExpression]
  kauto

theorem el_relLoop (n : Nat) (ih : ExprLines inp cfg n) :
    ∀ ctx l e, Lined.ok inp l → KeepsOk inp (numericComparativeLoop cfg (n + 1) ctx l e) := by
  intro ctx l e hl
  rw [numericComparativeLoop]
  kauto

theorem el_rel (n : Nat) (ih : ExprLines inp cfg n) :
    ∀ ctx, KeepsOk inp (numericComparativeExpression cfg (n + 1) ctx) := by
  intro ctx
  rw [numericComparativeExpression]
  kauto

theorem el_eqLoop (n : Nat) (ih : ExprLines inp cfg n) :
    ∀ ctx l e, Lined.ok inp l → KeepsOk inp (comparativeLoop cfg (n + 1) ctx l e) := by
  intro ctx l e hl
  rw [comparativeLoop]
  kauto

theorem el_eq (n : Nat) (ih : ExprLines inp cfg n) :
    ∀ ctx, KeepsOk inp (comparativeExpression cfg (n + 1) ctx) := by
  intro ctx
  rw [comparativeExpression]
  kauto

theorem el_logLoop (n : Nat) (ih : ExprLines inp cfg n) :
    ∀ ctx l e, Lined.ok inp l → KeepsOk inp (logicalLoop cfg (n + 1) ctx l e) := by
  intro ctx l e hl
  rw [logicalLoop]
  kauto

theorem el_log (n : Nat) (ih : ExprLines inp cfg n) :
    ∀ ctx, KeepsOk inp (logicalExpression cfg (n + 1) ctx) := by
  intro ctx
  rw [logicalExpression]
  kauto

theorem el_pexpr (n : Nat) (ih : ExprLines inp cfg n) :
    ∀ ctx, KeepsOk inp (parseExpression cfg (n + 1) ctx) := by
  intro ctx
  rw [parseExpression]
  kauto

theorem el_expr (n : Nat) (ih : ExprLines inp cfg n) :
    ∀ ctx as, KeepsOk inp (expression cfg (n + 1) ctx as) := by
  intro ctx as
  rw [expression]
  kauto

theorem exprLines_step (n : Nat) (ih : ExprLines inp cfg n) : ExprLines inp cfg (n + 1) where
  term := el_term inp cfg n ih
  chainLoop := el_chainLoop inp cfg n ih
  operandReset := el_operandReset inp cfg n ih
  operand := el_operand inp cfg n ih
  argsLoop := el_argsLoop inp cfg n ih
  args := el_args inp cfg n ih
  unary := el_unary inp cfg n ih
  mulLoop := el_mulLoop inp cfg n ih
  mul := el_mul inp cfg n ih
  addLoop := el_addLoop inp cfg n ih
  add := el_add inp cfg n ih
  relLoop := el_relLoop inp cfg n ih
  rel := el_rel inp cfg n ih
  eqLoop := el_eqLoop inp cfg n ih
  eq := el_eq inp cfg n ih
  logLoop := el_logLoop inp cfg n ih
  log := el_log inp cfg n ih
  pexpr := el_pexpr inp cfg n ih
  expr := el_expr inp cfg n ih

theorem exprLines_all : ∀ n, ExprLines inp cfg n
  | 0 => exprLines_zero inp cfg
  | n + 1 => exprLines_step inp cfg n (exprLines_all n)

/-! ### assignments, commands, pipelines, block parameter lists -/

/-- a recursive call or a production whose triple is a hypothesis -/
macro_rules | `(tactic| kcall) => `(tactic| (show Keeps _ _ _; apply_assumption -exfalso <;> try kok))

theorem assignLeftLoop_lines (fuel : Nat) (ctx : String) : ∀ k left op ret, Lined.ok inp left → Lined.ok inp op →
    KeepsOk inp (assignLeftLoop cfg fuel ctx k left op ret)
  | 0, _, _, _, _, _ => by rw [assignLeftLoop]; exact Keeps.outOfFuel
  | k + 1, left, op, ret, hl, ho => by
    have E := exprLines_all inp cfg fuel
    have ih := assignLeftLoop_lines fuel ctx k
    rw [assignLeftLoop]
    kauto

theorem assignRightLoop_lines (fuel : Nat) : ∀ k right, Lined.ok inp right →
    KeepsOk inp (assignRightLoop cfg fuel k right)
  | 0, _, _ => by rw [assignRightLoop]; exact Keeps.outOfFuel
  | k + 1, right, hr => by
    have E := exprLines_all inp cfg fuel
    have ih := assignRightLoop_lines fuel k
    rw [assignRightLoop]
    kauto

theorem assignmentOrExpression_lines (fuel : Nat) (ctx : String) :
    KeepsOk inp (assignmentOrExpression cfg fuel ctx) := by
  have E := exprLines_all inp cfg fuel
  have hl := assignLeftLoop_lines inp cfg fuel ctx
  have hr := assignRightLoop_lines inp cfg fuel
  unfold assignmentOrExpression
  kauto

theorem command_lines (fuel : Nat) (base : Option PExpr) (hb : Lined.ok inp base) :
    KeepsOk inp (command cfg fuel base) := by
  have E := exprLines_all inp cfg fuel
  unfold command
  kauto

theorem pipelineLoop_lines (fuel : Nat) : ∀ k cmds, Lined.ok inp cmds → KeepsOk inp (pipelineLoop cfg fuel k cmds)
  | 0, _, _ => by rw [pipelineLoop]; exact Keeps.outOfFuel
  | k + 1, cmds, hc => by
    have ih := pipelineLoop_lines fuel k
    have hcmd := command_lines inp cfg fuel
    rw [pipelineLoop]
    kauto

theorem pipeline_lines (fuel : Nat) (base : PExpr) (hb : Lined.ok inp base) : KeepsOk inp (pipeline cfg fuel base) := by
  have hcmd := command_lines inp cfg fuel
  have hloop := pipelineLoop_lines inp cfg fuel
  unfold pipeline
  kauto

theorem blockParamsLoop_lines (fuel : Nat) (isDecl : Bool) (ctx : String) : ∀ k acc, Lined.ok inp acc →
    KeepsOk inp (blockParamsLoop cfg fuel isDecl ctx k acc)
  | 0, _, _ => by rw [blockParamsLoop]; exact Keeps.outOfFuel
  | k + 1, acc, ha => by
    have E := exprLines_all inp cfg fuel
    have ih := blockParamsLoop_lines fuel isDecl ctx k
    rw [blockParamsLoop]
    kauto

theorem blockParametersList_lines (fuel : Nat) (isDecl : Bool) (ctx : String) :
    KeepsOk inp (blockParametersList cfg fuel isDecl ctx) := by
  have hloop := blockParamsLoop_lines inp cfg fuel isDecl ctx
  unfold blockParametersList
  kauto

/-! ### statements -/

structure StmtLines (n : Nat) : Prop where
  itemListLoop : ∀ terms acc, Lined.ok inp acc → KeepsOk inp (itemListLoop cfg n terms acc)
  itemList : ∀ terms, KeepsOk inp (itemList cfg n terms)
  textOrAction : KeepsOk inp (textOrAction cfg n)
  action : KeepsOk inp (action cfg n)
  parseInclude : KeepsOk inp (parseInclude cfg n)
  parseBlock : KeepsOk inp (parseBlock cfg n)
  parseYield : KeepsOk inp (parseYield cfg n)
  parseControl : ∀ a ctx, KeepsOk inp (parseControl cfg n a ctx)
  parseTry : KeepsOk inp (parseTry cfg n)
  parseCatch : KeepsOk inp (parseCatch cfg n)

theorem stmtLines_zero : StmtLines inp cfg 0 := by
  constructor <;> intros <;> first
    | (rw [itemListLoop]; exact Keeps.outOfFuel)
    | (rw [itemList]; exact Keeps.outOfFuel)
    | (rw [textOrAction]; exact Keeps.outOfFuel)
    | (rw [action]; exact Keeps.outOfFuel)
    | (rw [parseInclude]; exact Keeps.outOfFuel)
    | (rw [parseBlock]; exact Keeps.outOfFuel)
    | (rw [parseYield]; exact Keeps.outOfFuel)
    | (rw [parseControl]; exact Keeps.outOfFuel)
    | (rw [parseTry]; exact Keeps.outOfFuel)
    | (rw [parseCatch]; exact Keeps.outOfFuel)

theorem sl_itemListLoop (n : Nat) (ih : StmtLines inp cfg n) :
    ∀ terms acc, Lined.ok inp acc → KeepsOk inp (itemListLoop cfg (n + 1) terms acc) := by
  intro terms acc hacc
  obtain ⟨i1, i2, i3, i4, i5, i6, i7, i8, i9, i10⟩ := ih
  have E := exprLines_all inp cfg n
  have a1 := assignmentOrExpression_lines inp cfg n
  have a2 := pipeline_lines inp cfg n
  have a3 := blockParametersList_lines inp cfg n
  rw [itemListLoop]
  kauto

theorem sl_itemList (n : Nat) (ih : StmtLines inp cfg n) :
    ∀ terms, KeepsOk inp (itemList cfg (n + 1) terms) := by
  intro terms
  obtain ⟨i1, i2, i3, i4, i5, i6, i7, i8, i9, i10⟩ := ih
  have E := exprLines_all inp cfg n
  have a1 := assignmentOrExpression_lines inp cfg n
  have a2 := pipeline_lines inp cfg n
  have a3 := blockParametersList_lines inp cfg n
  rw [itemList]
  kauto

theorem sl_textOrAction (n : Nat) (ih : StmtLines inp cfg n) :
    KeepsOk inp (textOrAction cfg (n + 1)) := by
  obtain ⟨i1, i2, i3, i4, i5, i6, i7, i8, i9, i10⟩ := ih
  have E := exprLines_all inp cfg n
  have a1 := assignmentOrExpression_lines inp cfg n
  have a2 := pipeline_lines inp cfg n
  have a3 := blockParametersList_lines inp cfg n
  rw [textOrAction]
  kauto

theorem sl_action (n : Nat) (ih : StmtLines inp cfg n) :
    KeepsOk inp (action cfg (n + 1)) := by
  obtain ⟨i1, i2, i3, i4, i5, i6, i7, i8, i9, i10⟩ := ih
  have E := exprLines_all inp cfg n
  have a1 := assignmentOrExpression_lines inp cfg n
  have a2 := pipeline_lines inp cfg n
  have a3 := blockParametersList_lines inp cfg n
  rw [action]
  kauto

theorem sl_parseInclude (n : Nat) (ih : StmtLines inp cfg n) :
    KeepsOk inp (parseInclude cfg (n + 1)) := by
  obtain ⟨i1, i2, i3, i4, i5, i6, i7, i8, i9, i10⟩ := ih
  have E := exprLines_all inp cfg n
  have a1 := assignmentOrExpression_lines inp cfg n
  have a2 := pipeline_lines inp cfg n
  have a3 := blockParametersList_lines inp cfg n
  rw [parseInclude]
  kauto

theorem sl_parseBlock (n : Nat) (ih : StmtLines inp cfg n) :
    KeepsOk inp (parseBlock cfg (n + 1)) := by
  obtain ⟨i1, i2, i3, i4, i5, i6, i7, i8, i9, i10⟩ := ih
  have E := exprLines_all inp cfg n
  have a1 := assignmentOrExpression_lines inp cfg n
  have a2 := pipeline_lines inp cfg n
  have a3 := blockParametersList_lines inp cfg n
  rw [parseBlock]
  kauto

theorem sl_parseYield (n : Nat) (ih : StmtLines inp cfg n) :
    KeepsOk inp (parseYield cfg (n + 1)) := by
  obtain ⟨i1, i2, i3, i4, i5, i6, i7, i8, i9, i10⟩ := ih
  have E := exprLines_all inp cfg n
  have a1 := assignmentOrExpression_lines inp cfg n
  have a2 := pipeline_lines inp cfg n
  have a3 := blockParametersList_lines inp cfg n
  rw [parseYield]
  kauto

theorem sl_parseControl (n : Nat) (ih : StmtLines inp cfg n) :
    ∀ a ctx, KeepsOk inp (parseControl cfg (n + 1) a ctx) := by
  intro allowElseIf ctx
  obtain ⟨i1, i2, i3, i4, i5, i6, i7, i8, i9, i10⟩ := ih
  have E := exprLines_all inp cfg n
  have a1 := assignmentOrExpression_lines inp cfg n
  have a2 := pipeline_lines inp cfg n
  have a3 := blockParametersList_lines inp cfg n
  rw [parseControl]
  kauto

theorem sl_parseTry (n : Nat) (ih : StmtLines inp cfg n) :
    KeepsOk inp (parseTry cfg (n + 1)) := by
  obtain ⟨i1, i2, i3, i4, i5, i6, i7, i8, i9, i10⟩ := ih
  have E := exprLines_all inp cfg n
  have a1 := assignmentOrExpression_lines inp cfg n
  have a2 := pipeline_lines inp cfg n
  have a3 := blockParametersList_lines inp cfg n
  rw [parseTry]
  kauto

theorem sl_parseCatch (n : Nat) (ih : StmtLines inp cfg n) :
    KeepsOk inp (parseCatch cfg (n + 1)) := by
  obtain ⟨i1, i2, i3, i4, i5, i6, i7, i8, i9, i10⟩ := ih
  have E := exprLines_all inp cfg n
  have a1 := assignmentOrExpression_lines inp cfg n
  have a2 := pipeline_lines inp cfg n
  have a3 := blockParametersList_lines inp cfg n
  rw [parseCatch]
  kauto

theorem stmtLines_step (n : Nat) (ih : StmtLines inp cfg n) : StmtLines inp cfg (n + 1) where
  itemListLoop := sl_itemListLoop inp cfg n ih
  itemList := sl_itemList inp cfg n ih
  textOrAction := sl_textOrAction inp cfg n ih
  action := sl_action inp cfg n ih
  parseInclude := sl_parseInclude inp cfg n ih
  parseBlock := sl_parseBlock inp cfg n ih
  parseYield := sl_parseYield inp cfg n ih
  parseControl := sl_parseControl inp cfg n ih
  parseTry := sl_parseTry inp cfg n ih
  parseCatch := sl_parseCatch inp cfg n ih

theorem stmtLines_all : ∀ n, StmtLines inp cfg n
  | 0 => stmtLines_zero inp cfg
  | n + 1 => stmtLines_step inp cfg n (stmtLines_all n)

/-! ### the template level -/

theorem prologueLoop_lines : ∀ k skipped, Lined.ok inp skipped → KeepsOk inp (prologueLoop cfg k skipped)
  | 0, _, _ => by rw [prologueLoop]; exact Keeps.outOfFuel
  | k + 1, skipped, hs => by
    have ih := prologueLoop_lines k
    rw [prologueLoop]
    kauto

theorem bodyLoop_lines (fuel : Nat) : ∀ k acc, Lined.ok inp acc → KeepsOk inp (bodyLoop cfg fuel k acc)
  | 0, _, _ => by rw [bodyLoop]; exact Keeps.outOfFuel
  | k + 1, acc, ha => by
    have ih := bodyLoop_lines fuel k
    have h1 := (stmtLines_all inp cfg fuel).textOrAction
    rw [bodyLoop]
    kauto

theorem parseTemplate_lines (fuel : Nat) : KeepsOk inp (parseTemplate cfg fuel) := by
  have h1 := prologueLoop_lines inp cfg
  have h2 := bodyLoop_lines inp cfg fuel
  unfold parseTemplate
  kauto
  split <;> kok

/-! ### together with the no-crash triples -/

/-- two triples about the same computation combine (`m` is a function) -/
theorem SafeL.and {α} {L : Nat → Prop} {P : PSt → Prop} {m : PM α} {Q1 Q2 : α → PSt → Prop}
    (h1 : SafeL L P m Q1) (h2 : SafeL L P m Q2) : SafeL L P m (fun a s => Q1 a s ∧ Q2 a s) := by
  intro s hs
  have a1 := h1 s hs
  have a2 := h2 s hs
  cases hm : m s with
  | ok a s' => rw [hm] at a1 a2; exact ⟨a1, a2⟩
  | err l msg => rw [hm] at a1; exact a1
  | crash w => rw [hm] at a1; exact a1.elim
  | fuel => trivial
  | unsupported w => trivial

/-- a `Keeps` fact as a triple of the Hoare logic of Lemmas/ParseSafe.lean, given a triple that rules out the crash
    and bounds the error line -/
theorem SafeL.withLines {α} {L : Nat → Prop} {P : PSt → Prop} {m : PM α} {Q1 : α → PSt → Prop} {Q2 : α → Prop}
    (h1 : SafeL L P m Q1) (h2 : Keeps inp m Q2) :
    SafeL L (fun s => P s ∧ J inp s) m (fun a s => Q1 a s ∧ J inp s ∧ Q2 a) := by
  intro s hs
  have a1 := h1 s hs.1
  cases hm : m s with
  | ok a s' => rw [hm] at a1; exact ⟨a1, h2 s hs.2 a s' hm⟩
  | err l msg => rw [hm] at a1; exact a1
  | crash w => rw [hm] at a1; exact a1.elim
  | fuel => trivial
  | unsupported w => trivial

/-- `parseTemplate`: no crash, an error names a source line, and on success the state is well-formed, every
    registered block and every node returned has good lines -/
theorem parseTemplate_safe_lines (fuel : Nat) :
    SafeL (LineOk inp) (fun s => Inv inp 2 s ∧ J inp s) (parseTemplate cfg fuel)
      (fun a s => Inv inp 2 s ∧ J inp s ∧ Lined.ok inp a) :=
  SafeL.withLines inp (parseTemplate_safe inp cfg fuel) (parseTemplate_lines inp cfg fuel)

theorem initial_J (input name : Bytes) (toks : List Item) : J input { input := input, name := name, toks := toks } :=
  ⟨rfl, fun b hb => by simp at hb⟩

end JetVerif.Parse
