/-
  The precedence ladder: by mutual structural recursion over the stratified grammar, each
  production of the parser model maps the spelling of a derivation of its level to the promised
  tree and stops at the first item that does not belong to the level.
-/
import JetVerif.Lemmas.ParseLevels

namespace JetVerif.Parse
open JetVerif.ExprGrammar

variable (cfg : Cfg)

/-! ### statements of the chain levels, and how a chain ends -/

@[reducible] def Ladder2 (c : E2) : Prop := ∀ (k : Nat) (ctx : String) (s b : PSt) (u : Item) (rest : List Item),
    k + it2 c + 1 ≥ 10 * sz2 c → noPostfix u → Starts s b (toks2 c ++ u :: rest) →
    multiplicativeExpression cfg (k + it2 c + 1) ctx s = multiplicativeLoop cfg k ctx (tree2 c) u (mkS b rest u 0)
@[reducible] def Ladder3 (c : E3) : Prop := ∀ (k : Nat) (ctx : String) (s b : PSt) (u : Item) (rest : List Item),
    k + it3 c + 1 ≥ 10 * sz3 c → stop2 u → Starts s b (toks3 c ++ u :: rest) →
    additiveExpression cfg (k + it3 c + 1) ctx s = additiveLoop cfg k ctx (tree3 c) u (mkS b rest u 0)
@[reducible] def Ladder4 (c : E4) : Prop := ∀ (k : Nat) (ctx : String) (s b : PSt) (u : Item) (rest : List Item),
    k + it4 c + 1 ≥ 10 * sz4 c → stop3 u → Starts s b (toks4 c ++ u :: rest) →
    numericComparativeExpression cfg (k + it4 c + 1) ctx s = numericComparativeLoop cfg k ctx (tree4 c) u (mkS b rest u 0)
@[reducible] def Ladder5 (c : E5) : Prop := ∀ (k : Nat) (ctx : String) (s b : PSt) (u : Item) (rest : List Item),
    k + it5 c + 1 ≥ 10 * sz5 c → stop4 u → Starts s b (toks5 c ++ u :: rest) →
    comparativeExpression cfg (k + it5 c + 1) ctx s = comparativeLoop cfg k ctx (tree5 c) u (mkS b rest u 0)
@[reducible] def Ladder6 (c : E6) : Prop := ∀ (k : Nat) (ctx : String) (s b : PSt) (u : Item) (rest : List Item),
    k + it6 c + 1 ≥ 10 * sz6 c → stop5 u → Starts s b (toks6 c ++ u :: rest) →
    logicalExpression cfg (k + it6 c + 1) ctx s = logicalLoop cfg k ctx (tree6 c) u (mkS b rest u 0)

theorem finish2 (c : E2) (H : Ladder2 cfg c) (n : Nat) (ctx : String) (s b : PSt) (u : Item) (rest : List Item)
    (hn : n ≥ 10 * sz2 c) (hu : stop2 u) (hs : Starts s b (toks2 c ++ u :: rest)) :
    multiplicativeExpression cfg n ctx s = .ok (tree2 c, u) (mkS b rest u 0) := by
  have hit := it2_le c
  obtain ⟨k, rfl⟩ : ∃ k, n = (k + 1) + it2 c + 1 := ⟨n - it2 c - 2, by omega⟩
  rw [H (k + 1) ctx s b u rest hn hu.1 hs]
  exact mulLoop_stop cfg k ctx _ u _ hu.2

theorem finish3 (c : E3) (H : Ladder3 cfg c) (n : Nat) (ctx : String) (s b : PSt) (u : Item) (rest : List Item)
    (hn : n ≥ 10 * sz3 c) (hu : stop3 u) (hs : Starts s b (toks3 c ++ u :: rest)) :
    additiveExpression cfg n ctx s = .ok (tree3 c, u) (mkS b rest u 0) := by
  have hit := it3_le c
  obtain ⟨k, rfl⟩ : ∃ k, n = (k + 1) + it3 c + 1 := ⟨n - it3 c - 2, by omega⟩
  rw [H (k + 1) ctx s b u rest hn hu.1 hs]
  exact addLoop_stop cfg k ctx _ u _ hu.2.1 hu.2.2

theorem finish4 (c : E4) (H : Ladder4 cfg c) (n : Nat) (ctx : String) (s b : PSt) (u : Item) (rest : List Item)
    (hn : n ≥ 10 * sz4 c) (hu : stop4 u) (hs : Starts s b (toks4 c ++ u :: rest)) :
    numericComparativeExpression cfg n ctx s = .ok (tree4 c, u) (mkS b rest u 0) := by
  have hit := it4_le c
  obtain ⟨k, rfl⟩ : ∃ k, n = (k + 1) + it4 c + 1 := ⟨n - it4 c - 2, by omega⟩
  rw [H (k + 1) ctx s b u rest hn hu.1 hs]
  exact relLoop_stop cfg k ctx _ u _ hu.2

theorem finish5 (c : E5) (H : Ladder5 cfg c) (n : Nat) (ctx : String) (s b : PSt) (u : Item) (rest : List Item)
    (hn : n ≥ 10 * sz5 c) (hu : stop5 u) (hs : Starts s b (toks5 c ++ u :: rest)) :
    comparativeExpression cfg n ctx s = .ok (tree5 c, u) (mkS b rest u 0) := by
  have hit := it5_le c
  obtain ⟨k, rfl⟩ : ∃ k, n = (k + 1) + it5 c + 1 := ⟨n - it5 c - 2, by omega⟩
  rw [H (k + 1) ctx s b u rest hn hu.1 hs]
  exact eqLoop_stop cfg k ctx _ u _ hu.2.1 hu.2.2

theorem finish6 (c : E6) (H : Ladder6 cfg c) (n : Nat) (ctx : String) (s b : PSt) (u : Item) (rest : List Item)
    (hn : n ≥ 10 * sz6 c) (hu : stop6 u) (hs : Starts s b (toks6 c ++ u :: rest)) :
    logicalExpression cfg n ctx s = .ok (tree6 c, u) (mkS b rest u 0) := by
  have hit := it6_le c
  obtain ⟨k, rfl⟩ : ∃ k, n = (k + 1) + it6 c + 1 := ⟨n - it6 c - 2, by omega⟩
  rw [H (k + 1) ctx s b u rest hn hu.1 hs]
  exact logLoop_stop cfg k ctx _ u _ hu.2.1 hu.2.2

mutual

theorem ladder0 : (e : E0) → ∀ (n : Nat) (ctx : String) (s b : PSt) (u : Item) (rest : List Item),
    n ≥ 10 * sz0 e → noPostfix u → Starts s b (toks0 e ++ u :: rest) →
    operand cfg n ctx s = .ok (tree0 e) (mkS b rest u 1)
  | .atom name => by
    intro n ctx s b u rest hn hu hs
    obtain ⟨t, ts, hl, hnx⟩ := hs
    simp [toks0] at hl
    obtain ⟨rfl, rfl⟩ := hl
    obtain ⟨m, rfl⟩ : ∃ m, n = m + 2 := ⟨n - 2, by simp [sz0] at hn; omega⟩
    rw [operand]
    have ht : term cfg (m + 1) s = .ok (some (.ident 1 name)) (mkS b (u :: rest) (it Tok.identifier name) 0) := by
      rw [term]; simp [bind_apply, hnx, it]
    simp [bind_apply, ht, tree0]
    exact operandReset_plain cfg m b _ u rest _ hu
  | .paren e => by
    intro n ctx s b u rest hn hu hs
    obtain ⟨t, ts, hl, hnx⟩ := hs
    simp [toks0] at hl
    obtain ⟨rfl, rfl⟩ := hl
    obtain ⟨m, rfl⟩ : ∃ m, n = m + 4 := ⟨n - 4, by simp [sz0] at hn; omega⟩
    have h7 := ladder7 e (m + 1) "parenthesized expression" (mkS b (toks7 e ++ it Tok.rightParen [41] :: u :: rest) (it Tok.leftParen [40]) 0)
      b (it Tok.rightParen [41]) (u :: rest) (by simp [sz0] at hn; omega) (stop7_rparen _)
      (starts_fresh b _ ((good7 e).append _))
    have ht : term cfg (m + 3) s = .ok (some (tree7 e)) (mkS b (u :: rest) (it Tok.rightParen [41]) 0) := by
      rw [term]
      simp [bind_apply, hnx, it]
      rw [expression]
      simp [it] at h7
      simp [bind_apply, h7]
    rw [operand]
    simp [bind_apply, ht, tree0]
    exact operandReset_plain cfg (m + 2) b _ u rest _ hu

theorem ladder1 : (e : E1) → ∀ (n : Nat) (ctx : String) (s b : PSt) (u : Item) (rest : List Item),
    n ≥ 10 * sz1 e → noPostfix u → Starts s b (toks1 e ++ u :: rest) →
    unaryExpression cfg n ctx s = .ok (tree1 e, u) (mkS b rest u 0)
  | .base e => by
    intro n ctx s b u rest hn hu hs
    obtain ⟨m, rfl⟩ : ∃ m, n = m + 1 := ⟨n - 1, by simp [sz1] at hn; omega⟩
    obtain ⟨t, ts, hl, hnx⟩ := hs
    obtain ⟨t', ts', h0, hp0, hty⟩ := head0 e
    simp only [toks1] at hl
    have htt : t = t' := by rw [h0] at hl; simp at hl; exact hl.1.symm
    subst htt
    have hsp : t.typ ≠ Tok.space := by rcases hty with h | h <;> simp [h]
    have hop := ladder0 e m ctx (mkS b ts t 1) b u rest (by simp [sz1] at hn; omega) hu
      (by rw [hl]; exact starts_pushed b t ts hsp)
    rw [unaryExpression]
    have hnn : t.typ ≠ Tok.not_ ∧ t.typ ≠ Tok.minus ∧ t.typ ≠ Tok.add := by
      rcases hty with h | h <;> simp [h]
    simp [bind_apply, hnx, hnn.1, hnn.2.1, hnn.2.2, hop, hu.2.1, tree1]
  | .sign op v e => by
    intro n ctx s b u rest hn hu hs
    obtain ⟨m, rfl⟩ : ∃ m, n = m + 1 := ⟨n - 1, by simp [sz1] at hn; omega⟩
    obtain ⟨t, ts, hl, hnx⟩ := hs
    simp [toks1] at hl
    obtain ⟨rfl, rfl⟩ := hl
    have hop := ladder0 e m "additive expression" (mkS b (toks0 e ++ u :: rest) (it op.tok v) 0) b u rest
      (by simp [sz1] at hn; omega) hu (starts_fresh b _ ((good0 e).append _))
    rw [unaryExpression]
    cases op <;> simp [bind_apply, hnx, it, AddOp.tok, tree1] <;> simp [it, AddOp.tok] at hop <;>
      simp [hop, bind_apply, hu.2.1]

theorem ladder2 : (c : E2) → Ladder2 cfg c
  | .one e => by
    intro k ctx s b u rest hn hu hs
    simp only [it2, Nat.add_zero] at hn ⊢
    have h1 := ladder1 e k ctx s b u rest (by simp [sz2] at hn; omega) hu (by simpa [toks2] using hs)
    rw [multiplicativeExpression]
    simp [bind_apply, h1, tree2]
  | .more l op v r => by
    intro k ctx s b u rest hn hu hs
    have hit := it2_le l
    have e1 : k + it2 (E2.more l op v r) + 1 = (k + 1) + it2 l + 1 := by simp [it2]; omega
    rw [e1]
    have hl := ladder2 l (k + 1) ctx s b (it op.tok v) (toks1 r ++ u :: rest)
      (by simp [sz2, it2] at hn; omega) (noPostfix_mulop op v) (by simpa [toks2] using hs)
    rw [hl, multiplicativeLoop]
    have hm := isMulT_mulop op
    unfold isMulT at hm
    have hr := ladder1 r k ctx (mkS b (toks1 r ++ u :: rest) (it op.tok v) 0) b u rest
      (by simp [sz2, it2] at hn; omega) hu (starts_fresh b _ ((good1 r).append _))
    simp [it] at hm ⊢
    simp [it] at hr
    simp [hm, bind_apply, hr, tree2]

theorem ladder3 : (c : E3) → Ladder3 cfg c
  | .one e => by
    intro k ctx s b u rest hn hu hs
    simp only [it3, Nat.add_zero] at hn ⊢
    have h1 := finish2 cfg e (ladder2 e) k ctx s b u rest (by simp [sz3] at hn; omega) hu (by simpa [toks3] using hs)
    rw [additiveExpression]
    simp [bind_apply, h1, tree3]
  | .more l op v r => by
    intro k ctx s b u rest hn hu hs
    have hit := it3_le l
    have e1 : k + it3 (E3.more l op v r) + 1 = (k + 1) + it3 l + 1 := by simp [it3]; omega
    rw [e1]
    have hl := ladder3 l (k + 1) ctx s b (it op.tok v) (toks2 r ++ u :: rest)
      (by simp [sz3, it3] at hn; omega) (stop2_addop op v) (by simpa [toks3] using hs)
    rw [hl, additiveLoop]
    have hr := finish2 cfg r (ladder2 r) k ctx (mkS b (toks2 r ++ u :: rest) (it op.tok v) 0) b u rest
      (by simp [sz3, it3] at hn; omega) hu (starts_fresh b _ ((good2 r).append _))
    simp [it] at hr ⊢
    cases op <;> simp [AddOp.tok] at hr ⊢ <;> simp [bind_apply, hr, tree3, AddOp.tok]

theorem ladder4 : (c : E4) → Ladder4 cfg c
  | .one e => by
    intro k ctx s b u rest hn hu hs
    simp only [it4, Nat.add_zero] at hn ⊢
    have h1 := finish3 cfg e (ladder3 e) k ctx s b u rest (by simp [sz4] at hn; omega) hu (by simpa [toks4] using hs)
    rw [numericComparativeExpression]
    simp [bind_apply, h1, tree4]
  | .more l op v r => by
    intro k ctx s b u rest hn hu hs
    have hit := it4_le l
    have e1 : k + it4 (E4.more l op v r) + 1 = (k + 1) + it4 l + 1 := by simp [it4]; omega
    rw [e1]
    have hl := ladder4 l (k + 1) ctx s b (it op.tok v) (toks3 r ++ u :: rest)
      (by simp [sz4, it4] at hn; omega) (stop3_relop op v) (by simpa [toks4] using hs)
    rw [hl, numericComparativeLoop]
    have hr := finish3 cfg r (ladder3 r) k ctx (mkS b (toks3 r ++ u :: rest) (it op.tok v) 0) b u rest
      (by simp [sz4, it4] at hn; omega) hu (starts_fresh b _ ((good3 r).append _))
    have hm := isRelT_relop op
    unfold isRelT at hm
    simp [it] at hm hr ⊢
    simp [hm, bind_apply, hr, tree4]

theorem ladder5 : (c : E5) → Ladder5 cfg c
  | .one e => by
    intro k ctx s b u rest hn hu hs
    simp only [it5, Nat.add_zero] at hn ⊢
    have h1 := finish4 cfg e (ladder4 e) k ctx s b u rest (by simp [sz5] at hn; omega) hu (by simpa [toks5] using hs)
    rw [comparativeExpression]
    simp [bind_apply, h1, tree5]
  | .more l op v r => by
    intro k ctx s b u rest hn hu hs
    have hit := it5_le l
    have e1 : k + it5 (E5.more l op v r) + 1 = (k + 1) + it5 l + 1 := by simp [it5]; omega
    rw [e1]
    have hl := ladder5 l (k + 1) ctx s b (it op.tok v) (toks4 r ++ u :: rest)
      (by simp [sz5, it5] at hn; omega) (stop4_eqop op v) (by simpa [toks5] using hs)
    rw [hl, comparativeLoop]
    have hr := finish4 cfg r (ladder4 r) k ctx (mkS b (toks4 r ++ u :: rest) (it op.tok v) 0) b u rest
      (by simp [sz5, it5] at hn; omega) hu (starts_fresh b _ ((good4 r).append _))
    simp [it] at hr ⊢
    cases op <;> simp [EqOp.tok] at hr ⊢ <;> simp [bind_apply, hr, tree5, EqOp.tok]

theorem ladder5n : (x : E5n) → ∀ (n : Nat) (ctx : String) (s b : PSt) (u : Item) (rest : List Item),
    n ≥ 10 * sz5n x → stop5 u → Starts s b (toks5n x ++ u :: rest) →
    comparativeExpression cfg n ctx s = .ok (tree5n x, u) (mkS b rest u 0)
  | .plain e => by
    intro n ctx s b u rest hn hu hs
    exact finish5 cfg e (ladder5 e) n ctx s b u rest (by simp [sz5n] at hn; omega) hu (by simpa [toks5n] using hs)
  | .not v e => by
    intro n ctx s b u rest hn hu hs
    obtain ⟨m, rfl⟩ : ∃ m, n = m + 5 := ⟨n - 5, by simp [sz5n] at hn; have := it5_le e; omega⟩
    obtain ⟨t, ts, hl, hnx⟩ := hs
    simp [toks5n] at hl
    obtain ⟨rfl, rfl⟩ := hl
    have h5 := finish5 cfg e (ladder5 e) m ctx (mkS b (toks5 e ++ u :: rest) (it Tok.not_ v) 0) b u rest
      (by simp [sz5n] at hn; omega) hu (starts_fresh b _ ((good5 e).append _))
    have hun : unaryExpression cfg (m + 1) ctx s = .ok (.not 1 (tree5 e), u) (mkS b rest u 0) := by
      rw [unaryExpression]
      simp [it] at h5
      simp [bind_apply, hnx, it, h5]
    obtain ⟨⟨⟨⟨hnp, hmul⟩, hadd, hmin⟩, hrel⟩, heq, hne⟩ := hu
    rw [comparativeExpression, numericComparativeExpression, additiveExpression, multiplicativeExpression]
    simp [bind_apply, hun, tree5n, mulLoop_stop cfg m ctx _ u _ hmul, addLoop_stop cfg (m + 1) ctx _ u _ hadd hmin,
      relLoop_stop cfg (m + 2) ctx _ u _ hrel, eqLoop_stop cfg (m + 3) ctx _ u _ heq hne]

theorem ladder6 : (c : E6) → Ladder6 cfg c
  | .one e => by
    intro k ctx s b u rest hn hu hs
    simp only [it6, Nat.add_zero] at hn ⊢
    have h1 := ladder5n e k ctx s b u rest (by simp [sz6] at hn; omega) hu (by simpa [toks6] using hs)
    rw [logicalExpression]
    simp [bind_apply, h1, tree6]
  | .more l op v r => by
    intro k ctx s b u rest hn hu hs
    have hit := it6_le l
    have e1 : k + it6 (E6.more l op v r) + 1 = (k + 1) + it6 l + 1 := by simp [it6]; omega
    rw [e1]
    have hl := ladder6 l (k + 1) ctx s b (it op.tok v) (toks5n r ++ u :: rest)
      (by simp [sz6, it6] at hn; omega) (stop5_logop op v) (by simpa [toks6] using hs)
    rw [hl, logicalLoop]
    have hr := ladder5n r k ctx (mkS b (toks5n r ++ u :: rest) (it op.tok v) 0) b u rest
      (by simp [sz6, it6] at hn; omega) hu (starts_fresh b _ ((good5n r).append _))
    simp [it] at hr ⊢
    cases op <;> simp [LogOp.tok] at hr ⊢ <;> simp [bind_apply, hr, tree6, LogOp.tok]

theorem ladder7 : (c : E7) → ∀ (n : Nat) (ctx : String) (s b : PSt) (u : Item) (rest : List Item),
    n ≥ 10 * sz7 c → stop7 u → Starts s b (toks7 c ++ u :: rest) →
    parseExpression cfg n ctx s = .ok (tree7 c, u) (mkS b rest u 0)
  | .one e => by
    intro n ctx s b u rest hn hu hs
    obtain ⟨m, rfl⟩ : ∃ m, n = m + 1 := ⟨n - 1, by simp [sz7] at hn; omega⟩
    have h6 := finish6 cfg e (ladder6 e) m ctx s b u rest (by simp [sz7] at hn; omega) hu.1 (by simpa [toks7] using hs)
    rw [parseExpression]
    simp [bind_apply, h6, hu.2, tree7]
  | .tern c a b' => by
    intro n ctx s b u rest hn hu hs
    obtain ⟨m, rfl⟩ : ∃ m, n = m + 1 := ⟨n - 1, by simp [sz7] at hn; omega⟩
    have hc := finish6 cfg c (ladder6 c) m ctx s b (it Tok.ternary [63]) (toks7 a ++ it Tok.colon [58] :: (toks7 b' ++ u :: rest))
      (by simp [sz7] at hn; omega) (stop6_ternary _) (by simpa [toks7] using hs)
    have ha := ladder7 a m ctx (mkS b (toks7 a ++ it Tok.colon [58] :: (toks7 b' ++ u :: rest)) (it Tok.ternary [63]) 0) b
      (it Tok.colon [58]) (toks7 b' ++ u :: rest) (by simp [sz7] at hn; omega) (stop7_colon _)
      (starts_fresh b _ ((good7 a).append _))
    have hb := ladder7 b' m ctx (mkS b (toks7 b' ++ u :: rest) (it Tok.colon [58]) 0) b u rest
      (by simp [sz7] at hn; omega) hu (starts_fresh b _ ((good7 b').append _))
    rw [parseExpression]
    simp [it] at hc ha hb
    simp [bind_apply, hc, ha, hb, tree7]

end

end JetVerif.Parse
