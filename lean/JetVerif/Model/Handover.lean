/-
  The hand-over between the lexer goroutine and the parser (lex.go `run` / `emit` / `errorf` / `nextItem` /
  `drain`, parse.go `Template.recover`), as a small abstract machine.

  The lexer goroutine sends its items one by one on an unbuffered channel - a send completes only when
  somebody receives - and, after the last one, leaves its loop, closes the channel and returns.  Its state
  between two sends is therefore the list of items it still has to send; it has run to completion exactly
  when that list is empty.  The other side performs receives (`nextItem`; a receive from the closed channel
  yields the zero item), may drain the channel (`for range l.items {}`), or does something that does not
  touch the channel.  What the other side does on the parser's error path is read off the regenerated facts
  (Facts.recoverCalls, Facts.drainShape).
-/
import JetVerif.Generated.Facts

namespace JetVerif.Handover

inductive Act where
  | recv     -- `<-l.items`
  | drain    -- `for range l.items {}`
  | other    -- a call that does not touch the channel
  deriving DecidableEq, Repr

/-- the items the goroutine still has to send, after the other side did `a` -/
def act {α : Type} : Act → List α → List α
  | .recv, [] => []
  | .recv, _ :: r => r
  | .drain, _ => []
  | .other, l => l

def run {α : Type} (acts : List Act) (l : List α) : List α := acts.foldl (fun l a => act a l) l

/-- the goroutine has closed the channel and returned: nothing is left to send (a blocked send is the only
    place it can wait at) -/
def finished {α : Type} (l : List α) : Bool := l.isEmpty

/-- what a call made by `Template.recover` does to the channel -/
def actOfCall (drainShape : String) (call : String) : Act :=
  if call = "t.lex.drain" then (if drainShape = "range l.items" then .drain else .other) else .other

/-- the error path of `Set.parse` as the code has it now -/
def errorPathActs : List Act := Facts.recoverCalls.map (actOfCall Facts.drainShape)

/-- the discipline that makes "drain on error, read to the end on success" sufficient: one goroutine, one
    unbuffered channel, every send on it a plain blocking send of the lexer, closed by the goroutine right
    after its loop, received from only by `nextItem` and `drain` -/
def disciplined : Bool :=
  Facts.goStmts == ["lex.go lexer.run"] &&
  Facts.chanMakes == [("lex", "unbuffered")] &&
  Facts.chanSends.all (fun s => s.2.1 == "l.items" && s.2.2 == "plain" && (s.1 == "lexer.emit" || s.1 == "lexer.errorf")) &&
  Facts.chanCloses == [("lexer.run", "l.items")] && Facts.goroutineClosesAfterLoop &&
  Facts.chanRecvs == [("lexer.nextItem", "l.items", "plain"), ("lexer.drain", "l.items", "range")]

end JetVerif.Handover
