/-
  `unicode/utf8.DecodeRuneInString` and the classifiers the lexer uses.
  Modelled (not verified) Go standard library; validated by the lexer correspondence.
-/
import JetVerif.Generated.Unicode

namespace JetVerif.Utf8

abbrev Bytes := List UInt8

def runeError : Nat := 0xFFFD

def isCont (b : UInt8) : Bool := 0x80 ≤ b && b ≤ 0xBF

/-- (rune, width) of the first rune of a non-empty byte string; `(RuneError, 0)` on empty. -/
def decodeRune : Bytes → Nat × Nat
  | [] => (runeError, 0)
  | b0 :: rest =>
    if b0 < 0x80 then (b0.toNat, 1)
    else if 0xC2 ≤ b0 ∧ b0 ≤ 0xDF then
      match rest with
      | b1 :: _ => if isCont b1 then ((b0.toNat % 32) * 64 + (b1.toNat % 64), 2) else (runeError, 1)
      | _ => (runeError, 1)
    else if 0xE0 ≤ b0 ∧ b0 ≤ 0xEF then
      match rest with
      | b1 :: b2 :: _ =>
        let lo : UInt8 := if b0 = 0xE0 then 0xA0 else 0x80
        let hi : UInt8 := if b0 = 0xED then 0x9F else 0xBF
        if lo ≤ b1 ∧ b1 ≤ hi ∧ isCont b2 then
          ((b0.toNat % 16) * 4096 + (b1.toNat % 64) * 64 + (b2.toNat % 64), 3)
        else (runeError, 1)
      | _ => (runeError, 1)
    else if 0xF0 ≤ b0 ∧ b0 ≤ 0xF4 then
      match rest with
      | b1 :: b2 :: b3 :: _ =>
        let lo : UInt8 := if b0 = 0xF0 then 0x90 else 0x80
        let hi : UInt8 := if b0 = 0xF4 then 0x8F else 0xBF
        if lo ≤ b1 ∧ b1 ≤ hi ∧ isCont b2 ∧ isCont b3 then
          ((b0.toNat % 8) * 262144 + (b1.toNat % 64) * 4096 + (b2.toNat % 64) * 64 + (b3.toNat % 64), 4)
        else (runeError, 1)
      | _ => (runeError, 1)
    else (runeError, 1)

def inRanges (tbl : Array (Nat × Nat × Nat)) (r : Nat) : Bool :=
  tbl.any (fun (lo, hi, stride) => lo ≤ r && r ≤ hi && (stride ≤ 1 || (r - lo) % stride == 0))

def isLetter (r : Nat) : Bool := inRanges Unicode.letterRanges r
def isDigit (r : Nat) : Bool := inRanges Unicode.digitRanges r

/-- lex.go isAlphaNumeric on a rune (`none` = eof) -/
def isAlphaNumeric : Option Nat → Bool
  | none => false
  | some r => r == 95 || isLetter r || isDigit r

/-- lex.go isSpace -/
def isSpace : Option Nat → Bool
  | none => false
  | some r => r == 32 || r == 9 || r == 13 || r == 10

def isSpaceByte (b : UInt8) : Bool := b == 32 || b == 9 || b == 13 || b == 10

end JetVerif.Utf8
