/-
  The documented control structures, as a grammar written down independently of the parser:

    S     text                                              a text item
        | '{{' E7 '}}'                                      print the value
        | '{{' 'if' ␣ E7 '}}' L Else
        | '{{' 'range' ␣ Vars E7 '}}' L RElse
    L     S*
    Else  '{{' 'end' '}}'
        | '{{' 'else' '}}' L '{{' 'end' '}}'
        | '{{' 'else' ␣ 'if' ␣ E7 '}}' L Else               (ONE `{{end}}` closes the whole chain)
    RElse '{{' 'end' '}}'  |  '{{' 'else' '}}' L '{{' 'end' '}}'
    Vars  (nothing)  |  v ':='  |  k ',' v ':='

  `toksS` spells a derivation as the items the lexer hands to the parser, in ONE canonical spelling
  (one space item after `if` / `range` / `else` before `if`, none elsewhere; every item at position 0,
  so that every node is on line 1), `treeS` is the tree the documentation promises: every body under
  its own condition, in order; `else if` is an else list whose only node is the nested `if`, and the
  nested `if` has no `{{end}}` of its own.  Props/C05P.lean proves that the parser model maps `toksS`
  to `treeS` for every derivation.  Expressions are the derivations of Model/ExprGrammar.lean.
-/
import JetVerif.Model.ExprGrammar

namespace JetVerif.StmtGrammar
open JetVerif JetVerif.Parse JetVerif.ExprGrammar

/-- the variables of a `range`: none, `v :=`, `k, v :=` -/
inductive RangeVars where
  | none
  | one (v : Bytes)
  | two (k v : Bytes)
  deriving Repr

mutual
/-- one statement -/
inductive S where
  | text (b : Bytes)                                           -- a text item
  | print (e : E7)                                             -- {{ e }}
  | ifS (c : E7) (thn : L) (els : Else)                        -- {{if c}} thn …
  | rangeS (vars : RangeVars) (e : E7) (body : L) (els : RElse) -- {{range vars e}} body …
/-- a list of statements -/
inductive L where
  | nil
  | cons (s : S) (l : L)
/-- how an `if` goes on after its body -/
inductive Else where
  | none                                                       -- {{end}}
  | els (l : L)                                                -- {{else}} l {{end}}
  | elseIf (c : E7) (thn : L) (els : Else)                     -- {{else if c}} thn …
/-- how a `range` goes on after its body -/
inductive RElse where
  | none                                                       -- {{end}}
  | els (l : L)                                                -- {{else}} l {{end}}
end

def L.ofList : List S → L
  | [] => .nil
  | s :: l => .cons s (L.ofList l)

/-! ### the spelling -/

def ld : Item := it Tok.leftDelim (str "{{")
def rd : Item := it Tok.rightDelim (str "}}")
def sp : Item := it Tok.space (str " ")
def kIf : Item := it Tok.if_ (str "if")
def kElse : Item := it Tok.else_ (str "else")
def kEnd : Item := it Tok.end_ (str "end")
def kRange : Item := it Tok.range (str "range")
def comma : Item := it Tok.comma (str ",")
def letTok : Item := it Tok.assign (str ":=")

/-- the identifier `name` as an expression derivation -/
def atom7 (name : Bytes) : E7 := .one (.one (.plain (.one (.one (.one (.one (.base (.atom name))))))))

def toksV : RangeVars → List Item
  | .none => []
  | .one v => [it Tok.identifier v, letTok]
  | .two k v => [it Tok.identifier k, comma, it Tok.identifier v, letTok]

/-- `{{end}}` -/
def endToks : List Item := [ld, kEnd, rd]

mutual
def toksS : S → List Item
  | .text b => [it Tok.text b]
  | .print e => ld :: (toks7 e ++ [rd])
  | .ifS c thn els => ld :: kIf :: sp :: (toks7 c ++ rd :: (toksL thn ++ toksElse els))
  | .rangeS v e body els => ld :: kRange :: sp :: (toksV v ++ (toks7 e ++ rd :: (toksL body ++ toksR els)))
def toksL : L → List Item
  | .nil => []
  | .cons s l => toksS s ++ toksL l
def toksElse : Else → List Item
  | .none => endToks
  | .els l => ld :: kElse :: rd :: (toksL l ++ endToks)
  | .elseIf c thn els => ld :: kElse :: sp :: kIf :: sp :: (toks7 c ++ rd :: (toksL thn ++ toksElse els))
def toksR : RElse → List Item
  | .none => endToks
  | .els l => ld :: kElse :: rd :: (toksL l ++ endToks)
end

/-! ### the promised tree -/

/-- `{{ e }}`: an action whose pipeline is the one command `e`, without arguments -/
def printTree (e : PExpr) : PStmt :=
  .action 1 none (some { line := 1, cmds := [{ line := 1, callLine := 0, base := e, args := none, hasSlot := false }] })

/-- the `Set` node of a range header: `vars := e` -/
def setV (v : RangeVars) (e : PExpr) : Option PSet :=
  match v with
  | .none => none
  | .one x => some { line := 1, isLet := true, lookup := false, left := [.ident 1 x], right := [e] }
  | .two k x => some { line := 1, isLet := true, lookup := false, left := [.ident 1 k, .ident 1 x], right := [e] }

/-- the `Expression` of a range header: only when there are no variables -/
def exprV (v : RangeVars) (e : PExpr) : Option PExpr :=
  match v with
  | .none => some e
  | _ => none

mutual
def treeS : S → PStmt
  | .text b => .text 1 b
  | .print e => printTree (tree7 e)
  | .ifS c thn els => .branch true 1 none (some (tree7 c)) 1 (treeL thn) (treeElse els)
  | .rangeS v e body els => .branch false 1 (setV v (tree7 e)) (exprV v (tree7 e)) 1 (treeL body) (treeR els)
def treeL : L → List PStmt
  | .nil => []
  | .cons s l => treeS s :: treeL l
def treeElse : Else → Option (Nat × List PStmt)
  | .none => none
  | .els l => some (1, treeL l)
  | .elseIf c thn els => some (1, [.branch true 1 none (some (tree7 c)) 1 (treeL thn) (treeElse els)])
def treeR : RElse → Option (Nat × List PStmt)
  | .none => none
  | .els l => some (1, treeL l)
end

/-- the last item of the spelling -/
def lastS : S → Item
  | .text b => it Tok.text b
  | _ => rd

/- the fuel a derivation needs is proportional to its size -/
mutual
def sizeS : S → Nat
  | .text _ => 1
  | .print e => sz7 e + 2
  | .ifS c thn els => sz7 c + sizeL thn + sizeElse els + 2
  | .rangeS _ e body els => sz7 e + sizeL body + sizeR els + 20
def sizeL : L → Nat
  | .nil => 1
  | .cons s l => sizeS s + sizeL l + 1
def sizeElse : Else → Nat
  | .none => 1
  | .els l => sizeL l + 2
  | .elseIf c thn els => sz7 c + sizeL thn + sizeElse els + 2
def sizeR : RElse → Nat
  | .none => 1
  | .els l => sizeL l + 2
end

end JetVerif.StmtGrammar
