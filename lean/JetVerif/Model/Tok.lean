/- lex.go item types. The numeric codes come from the regenerated const block (Facts). -/
import JetVerif.Generated.Facts

namespace JetVerif

inductive Tok where
  | error | bool | char | charConstant | complex | eof | field | identifier | leftDelim
  | leftParen | number | pipe | rawString | rightDelim | rightParen | space | string | text
  | assign | equals | notEquals | great | greatEquals | less | lessEquals | comma | semicolon
  | add | minus | mul | div | mod | colon | ternary | leftBrackets | rightBrackets | underscore
  | keyword | extends_ | import_ | include_ | block | end_ | yield | content | if_ | else_ | range
  | try_ | catch_ | return_ | and_ | or_ | not_ | nil_ | msg | trans
  deriving DecidableEq, Repr, Inhabited

namespace Tok

def name : Tok → String
  | error => "itemError" | bool => "itemBool" | char => "itemChar"
  | charConstant => "itemCharConstant" | complex => "itemComplex" | eof => "itemEOF"
  | field => "itemField" | identifier => "itemIdentifier" | leftDelim => "itemLeftDelim"
  | leftParen => "itemLeftParen" | number => "itemNumber" | pipe => "itemPipe"
  | rawString => "itemRawString" | rightDelim => "itemRightDelim" | rightParen => "itemRightParen"
  | space => "itemSpace" | string => "itemString" | text => "itemText" | assign => "itemAssign"
  | equals => "itemEquals" | notEquals => "itemNotEquals" | great => "itemGreat"
  | greatEquals => "itemGreatEquals" | less => "itemLess" | lessEquals => "itemLessEquals"
  | comma => "itemComma" | semicolon => "itemSemicolon" | add => "itemAdd" | minus => "itemMinus"
  | mul => "itemMul" | div => "itemDiv" | mod => "itemMod" | colon => "itemColon"
  | ternary => "itemTernary" | leftBrackets => "itemLeftBrackets"
  | rightBrackets => "itemRightBrackets" | underscore => "itemUnderscore" | keyword => "itemKeyword"
  | extends_ => "itemExtends" | import_ => "itemImport" | include_ => "itemInclude"
  | block => "itemBlock" | end_ => "itemEnd" | yield => "itemYield" | content => "itemContent"
  | if_ => "itemIf" | else_ => "itemElse" | range => "itemRange" | try_ => "itemTry"
  | catch_ => "itemCatch" | return_ => "itemReturn" | and_ => "itemAnd" | or_ => "itemOr"
  | not_ => "itemNot" | nil_ => "itemNil" | msg => "itemMSG" | trans => "itemTrans"

def all : List Tok :=
  [error, bool, char, charConstant, complex, eof, field, identifier, leftDelim, leftParen, number,
   pipe, rawString, rightDelim, rightParen, space, string, text, assign, equals, notEquals, great,
   greatEquals, less, lessEquals, comma, semicolon, add, minus, mul, div, mod, colon, ternary,
   leftBrackets, rightBrackets, underscore, keyword, extends_, import_, include_, block, end_, yield,
   content, if_, else_, range, try_, catch_, return_, and_, or_, not_, nil_, msg, trans]

def ofName (s : String) : Option Tok := all.find? (fun t => t.name == s)

/-- Go's numeric value of the item type, from the regenerated const block -/
def code (t : Tok) : Nat := Facts.itemTypes.idxOf t.name

end Tok
end JetVerif
