/-
  Generic model of `utils.Walk` with a visitor that descends through `VisitorContext.Visit`
  (utils/visitor.go), parameterised by
    * a schema: per node kind, its child slots in declaration order (regenerated from node.go), and
    * a visit table: per node kind, the ordered visit actions of its helper (regenerated from
      utils/visitor.go).
  A tree stores, per slot, `none` (nil pointer / absent) or the list of sub-trees.
-/
namespace JetVerif.Visitor

/-- how many children a slot holds and whether it may be nil -/
inductive Arity where
  | one        -- always exactly one child (never nil in parser output)
  | opt        -- nil or one child
  | many       -- a slice of children (ranging over a nil slice is fine)
  | optMany    -- a pointer to a list of children that may itself be nil (`*BlockParameterList`)
  deriving Repr, DecidableEq

structure Slot where
  path : String          -- e.g. "Expression", "Catch.Err"
  arity : Arity
  guardBy : String       -- the path whose non-nilness implies this slot's presence
  deriving Repr, DecidableEq

structure KindSpec where
  kind : String
  slots : List Slot
  deriving Repr, DecidableEq

inductive Op where
  | plain     -- vc.visitNode(x.F)
  | each      -- for _, n := range x.F { vc.visitNode(n) }   (also the params loop)
  | inline    -- vc.visitListNode(x.F): like `plain`, except that the visitor callback is not
              -- invoked for the list node F itself (list nodes are neither statements nor
              -- expressions; the harness compares non-list nodes only)
  deriving Repr, DecidableEq

structure Act where
  op : Op
  path : String
  guards : List String   -- enclosing `if g != nil` conditions
  deriving Repr, DecidableEq

structure Arm where
  kind : String
  acts : List Act
  leaf : Bool            -- `case *jet.X:` with an empty body
  deriving Repr, DecidableEq

inductive Tree where
  | node (id : Nat) (kind : String) (kids : List (Option (List Tree)))
  deriving Repr

inductive Res where
  | ok (visited : List Nat)
  | crash (why : String)
  | fuel
  deriving Repr, DecidableEq

def findArm (tbl : List Arm) (kind : String) : Option Arm := tbl.find? (fun a => a.kind == kind)
def findKind (schema : List KindSpec) (kind : String) : Option KindSpec := schema.find? (fun k => k.kind == kind)

def seqRes : Res → (List Nat → Res) → Res
  | .ok l, k => k l
  | r, _ => r

/-- visiting a list of nodes in order with `rec` -/
def runList (rec : Tree → Res) : List Tree → Res
  | [] => .ok []
  | t :: ts => seqRes (rec t) (fun l1 => seqRes (runList rec ts) (fun l2 => .ok (l1 ++ l2)))

/-- one visit action on the slot it is aligned with -/
def actOn (rec : Tree → Res) (a : Act) : Option (List Tree) → Res
  | none => if a.guards.isEmpty then .crash ("nil pointer: " ++ a.path) else .ok []
  | some ts =>
    match a.op with
    | .each => runList rec ts
    | _ =>
      (match ts with
       | [t] => rec t
       | _ => .crash ("not a single node: " ++ a.path))

/-- the helper's actions, aligned positionally with the node's slots -/
def runActs (rec : Tree → Res) : List Act → List (Option (List Tree)) → Res
  | [], _ => .ok []
  | _ :: _, [] => .crash "visit table and tree out of step"
  | a :: as, kid :: kids =>
    seqRes (actOn rec a kid) (fun l1 => seqRes (runActs rec as kids) (fun l2 => .ok (l1 ++ l2)))

/-- the visitor callback on node `t`: records it, then `vc.Visit(t)` dispatches on its kind and the
    helper visits the children (each with one unit of fuel less) -/
def walk (tbl : List Arm) : Nat → Tree → Res
  | 0, _ => .fuel
  | fuel + 1, .node id kind kids =>
    match findArm tbl kind with
    | none => .crash ("unexpected node " ++ kind)          -- the `default: panic` of Visit
    | some arm => seqRes (runActs (walk tbl fuel) arm.acts kids) (fun l => .ok (id :: l))

def optList (rec : Tree → Option (List Nat)) : List Tree → Option (List Nat)
  | [] => some []
  | t :: ts =>
    match rec t, optList rec ts with
    | some l1, some l2 => some (l1 ++ l2)
    | _, _ => none

def optOn (rec : Tree → Option (List Nat)) : Option (List Tree) → Option (List Nat)
  | none => some []
  | some ts => optList rec ts

def optActs (rec : Tree → Option (List Nat)) : List Act → List (Option (List Tree)) → Option (List Nat)
  | [], _ => some []
  | _ :: _, [] => none
  | _ :: as, kid :: kids =>
    match optOn rec kid, optActs rec as kids with
    | some l1, some l2 => some (l1 ++ l2)
    | _, _ => none

/-- all nodes of a tree in the order a complete traversal meets them (`none`: not enough fuel
    for the tree's depth) -/
def allNodes (tbl : List Arm) : Nat → Tree → Option (List Nat)
  | 0, _ => none
  | fuel + 1, .node id kind kids =>
    match findArm tbl kind with
    | none => none
    | some arm => (optActs (allNodes tbl fuel) arm.acts kids).map (fun l => id :: l)

/-- the action fits the slot: same path, and what may be nil is guarded -/
def alignedOne (a : Act) (s : Slot) : Bool :=
  a.path == s.path &&
  (match s.arity with
   | .one => a.op == .plain || a.op == .inline
   | .opt => (a.op == .plain || a.op == .inline) && a.guards.contains s.guardBy
   | .many => a.op == .each && (a.guards.isEmpty || a.guards.contains s.guardBy)
   | .optMany => a.op == .each && a.guards.contains s.guardBy)

/-- the arm visits every slot of its kind exactly once, in declaration order, guarding what may be
    nil; a leaf kind has no slots -/
def armCovers (k : KindSpec) (arm : Arm) : Bool :=
  arm.acts.length == k.slots.length &&
  (List.zip arm.acts k.slots).all (fun (a, s) => alignedOne a s)

/-- every node kind the parser can produce has an arm that covers it -/
def covers (schema : List KindSpec) (tbl : List Arm) : Bool :=
  schema.all (fun k => match findArm tbl k.kind with
    | some arm => armCovers k arm
    | none => false)

def wfList (rec : Tree → Bool) : List Tree → Bool
  | [] => true
  | t :: ts => rec t && wfList rec ts

def wfKid (rec : Tree → Bool) : Arity → Option (List Tree) → Bool
  | .one, some [t] => rec t
  | .one, _ => false
  | .opt, none => true
  | .opt, some [t] => rec t
  | .opt, _ => false
  | .many, some ts => wfList rec ts
  | .many, none => false
  | .optMany, none => true
  | .optMany, some ts => wfList rec ts

def wfKids (rec : Tree → Bool) : List Slot → List (Option (List Tree)) → Bool
  | [], [] => true
  | s :: ss, kid :: kids => wfKid rec s.arity kid && wfKids rec ss kids
  | _, _ => false

/-- a tree respects the schema's arities (to the given depth) -/
def wf (schema : List KindSpec) : Nat → Tree → Bool
  | 0, _ => true
  | fuel + 1, .node _ kind kids =>
    match findKind schema kind with
    | none => false
    | some k => kids.length == k.slots.length && wfKids (wf schema fuel) k.slots kids

end JetVerif.Visitor
