/-
  Model of parse.go: the recursive-descent parser, one Lean function per Go function.

  * Parser state is Go's: the three-slot look-ahead buffer `token[3]`, `peekCount`, the items
    still to come from the lexer's channel, and the lexer's `lastPos` (the position of the
    most recent item *received* — peeks included — which is what `lineNumber()` reports).
    Reading a closed channel yields the zero item (`itemError`, position 0, empty value), as in Go.
  * Every `t.errorf` is the outcome `err line msg` (the panic `Template.recover` turns into
    Parse's returned error); the message text is modelled exactly up to the first piece that
    depends on a node's `String()` form or on a lexer error text (`Msg.exact = false` from there).
    Go operations that would panic with a `runtime.Error` or a non-error value (index out of
    range on the token buffer, `ChainNode.Add` on a field without a name, `ident[1:]` on an
    empty string) are the outcome `crash`: `Template.recover` re-panics those.
  * Literal conversion (`strconv.Unquote`, `UnquoteChar`, `ParseInt/ParseUint/ParseFloat`,
    `fmt.Sscan` for complex constants) is a *parameter* (`Cfg.lit`), and so is the resolution of
    an `extends` / `import` name to a loaded template (`Cfg.load`; the Set is modelled in SetM).
  * Recursion is by fuel; `Props/Parse*.lean` prove that fuel proportional to the number of
    items always suffices and that no input makes the parser crash.
-/
import JetVerif.Model.Lex

namespace JetVerif.Parse
open JetVerif

abbrev Bytes := List UInt8

/-- lex.go `item` -/
structure Item where
  typ : Tok
  pos : Int
  val : Bytes
  deriving Repr, DecidableEq, Inhabited

/-- what a receive from the closed items channel yields -/
def Item.zero : Item := { typ := Tok.error, pos := 0, val := [] }

def str (s : String) : Bytes := s.toUTF8.toList

/-! ### the tree (node.go), with every `Line` -/

inductive BinKind where
  | add | mul | cmp | numcmp | logic
  deriving Repr, DecidableEq, Inhabited

/-- result of `newNumber` / `unquote` on a literal token (supplied by `Cfg.lit`) -/
inductive Lit where
  | num (isInt isUint isFloat isComplex : Bool) (i : Int) (u : Nat) (fbits : Nat)
  | str (s : Bytes)
  | bad (msg : Bytes)        -- the conversion error's text
  | unknown                  -- not in the table: the case is outside the model
  deriving Repr, DecidableEq, Inhabited

inductive PExpr where
  | ident (line : Nat) (name : Bytes)
  | field (line : Nat) (names : List Bytes)
  | chain (line : Nat) (base : PExpr) (fields : List Bytes)
  | underscore (line : Nat)
  | nilLit (line : Nat)
  | boolLit (line : Nat) (b : Bool)
  | strLit (line : Nat) (s : Bytes)
  | numLit (line : Nat) (lit : Lit) (text : Bytes)
  | binary (kind : BinKind) (line : Nat) (op : Tok) (l : Option PExpr) (r : PExpr)
  | not (line : Nat) (e : PExpr)
  | ternary (line : Nat) (c l r : PExpr)
  | call (line : Nat) (base : PExpr) (args : List PExpr) (hasSlot : Bool)
  | index (line : Nat) (base : PExpr) (idx : Option PExpr)
  | slice (line : Nat) (base : PExpr) (i j : Option PExpr)
  deriving Repr, Inhabited

/-- `Node.line()` -/
def PExpr.line : PExpr → Nat
  | .ident l _ | .field l _ | .chain l _ _ | .underscore l | .nilLit l | .boolLit l _
  | .strLit l _ | .numLit l _ _ | .binary _ l _ _ _ | .not l _ | .ternary l _ _ _
  | .call l _ _ _ | .index l _ _ | .slice l _ _ _ => l

structure PSet where
  line : Nat
  isLet : Bool
  lookup : Bool
  left : List PExpr
  right : List PExpr
  deriving Repr, Inhabited

/-- `CommandNode`: its own `NodeBase` and the embedded `CallExprNode` (whose `Line` is `callLine`) -/
structure PCmd where
  line : Nat
  callLine : Nat
  base : PExpr
  args : Option (List PExpr)      -- `none` = nil `CallArgs.Exprs`
  hasSlot : Bool
  deriving Repr, Inhabited

structure PPipe where
  line : Nat
  cmds : List PCmd
  deriving Repr, Inhabited

structure PParam where
  name : Bytes
  dflt : Option PExpr
  deriving Repr, Inhabited

inductive PStmt where
  | text (line : Nat) (b : Bytes)
  | action (line : Nat) (set : Option PSet) (pipe : Option PPipe)
  | branch (isIf : Bool) (line : Nat) (set : Option PSet) (e : Option PExpr)
      (listLine : Nat) (list : List PStmt) (els : Option (Nat × List PStmt))
  | block (line : Nat) (name : Bytes) (params : List PParam) (ctx : Option PExpr)
      (listLine : Nat) (list : List PStmt) (content : Option (Nat × List PStmt))
  | yield (line : Nat) (name : Bytes) (params : Option (List PParam)) (ctx : Option PExpr)
      (content : Option (Nat × List PStmt)) (isContent : Bool)
  | include (line : Nat) (name : PExpr) (ctx : Option PExpr)
  | tryS (line : Nat) (listLine : Nat) (list : List PStmt)
      (catchC : Option (Nat × Option (Nat × Bytes) × Nat × List PStmt))
  | ret (line : Nat) (e : PExpr)
  -- clause markers (`endNode`, `elseNode`, `contentNode`, `catchNode`): returned by textOrAction,
  -- consumed by the enclosing construct, never part of a finished tree
  | endM
  | elseM (line : Nat)
  | contentM
  | catchM (line : Nat) (errVar : Option (Nat × Bytes)) (listLine : Nat) (list : List PStmt)
  deriving Repr, Inhabited

inductive Marker where
  | none | end_ | else_ | content | catch_
  deriving Repr, DecidableEq

def PStmt.marker : PStmt → Marker
  | .endM => .end_
  | .elseM _ => .else_
  | .contentM => .content
  | .catchM _ _ _ _ => .catch_
  | _ => .none

/-- a parsed template as `Set.parse` returns it (before `addBlocks` of ancestors) -/
structure PTmpl where
  name : Bytes
  ext : Option Bytes
  imports : List Bytes
  passed : List (Bytes × PStmt)       -- `passedBlocks`, in order of first registration
  rootLine : Nat
  root : List PStmt
  deriving Repr, Inhabited

/-! ### errors -/

structure Msg where
  text : Bytes
  exact : Bool        -- `false`: the real message continues with text the model does not produce
  deriving Repr, DecidableEq, Inhabited

inductive MP where
  | s (b : Bytes)
  | wild

def mkMsg : List MP → Msg
  | [] => { text := [], exact := true }
  | .wild :: _ => { text := [], exact := false }
  | .s b :: rest => let m := mkMsg rest; { m with text := b ++ m.text }

/-! ### configuration and state -/

structure Cfg where
  /-- `newNumber` / `unquote` for a literal token -/
  lit : Tok → Bytes → Lit
  /-- `set.getSiblingTemplate(s, t.Name, …)`: the loaded template's `Name`, or an error -/
  load : Bytes → Option Bytes

structure PSt where
  input : Bytes
  name : Bytes
  toks : List Item
  t0 : Item := Item.zero
  t1 : Item := Item.zero
  t2 : Item := Item.zero
  peekCount : Nat := 0
  lastPos : Int := 0
  ext : Option Bytes := none
  imports : List Bytes := []
  passed : List (Bytes × PStmt) := []
  deriving Inhabited

inductive PRes (α : Type) where
  | ok (a : α) (s : PSt)
  | err (line : Nat) (msg : Msg)
  | crash (what : String)
  | fuel
  | unsupported (why : String)

abbrev PM (α : Type) := PSt → PRes α

instance : Monad PM where
  pure a := fun s => .ok a s
  bind m f := fun s => match m s with
    | .ok a s' => f a s'
    | .err l m => .err l m
    | .crash w => .crash w
    | .fuel => .fuel
    | .unsupported w => .unsupported w

def get : PM PSt := fun s => .ok s s
def modify (f : PSt → PSt) : PM Unit := fun s => .ok () (f s)
def crash {α} (w : String) : PM α := fun _ => .crash w
def outOfFuel {α} : PM α := fun _ => .fuel
def unsupported {α} (w : String) : PM α := fun _ => .unsupported w

def countNl (b : Bytes) : Nat := (b.filter (· == 10)).length

/-- `lexer.lineNumber()`: `1 + strings.Count(l.input[:l.lastPos], "\n")` -/
def lineNumber : PM Nat := fun s =>
  match Lex.slice s.input 0 s.lastPos with
  | some pre => .ok (1 + countNl pre) s
  | none => .crash "slice bounds out of range"

/-- `t.errorf` -/
def errorf {α} (ps : List MP) : PM α := fun s =>
  match lineNumber s with
  | .ok l _ => .err l (mkMsg ps)
  | .crash w => .crash w
  | .err l m => .err l m
  | .fuel => .fuel
  | .unsupported w => .unsupported w

/-! ### the token buffer (parse.go:89-151) -/

/-- `l.nextItem()` -/
def nextItem : PM Item := fun s =>
  match s.toks with
  | [] => .ok Item.zero { s with lastPos := 0 }
  | t :: ts => .ok t { s with toks := ts, lastPos := t.pos }

/-- `t.token[i]` -/
def tokenAt (i : Nat) : PM Item := fun s =>
  match i with
  | 0 => .ok s.t0 s
  | 1 => .ok s.t1 s
  | 2 => .ok s.t2 s
  | _ => .crash "index out of range"

def next : PM Item := do
  let s ← get
  if s.peekCount > 0 then
    modify fun s => { s with peekCount := s.peekCount - 1 }
  else do
    let it ← nextItem
    modify fun s => { s with t0 := it }
  let s ← get
  tokenAt s.peekCount

def backup : PM Unit := modify fun s => { s with peekCount := s.peekCount + 1 }

def backup2 (t1 : Item) : PM Unit := modify fun s => { s with t1 := t1, peekCount := 2 }

def peek : PM Item := do
  let s ← get
  if s.peekCount > 0 then tokenAt (s.peekCount - 1)
  else do
    let it ← nextItem
    modify fun s => { s with peekCount := 1, t0 := it }
    pure it

def nextNonSpaceLoop : Nat → PM Item
  | 0 => outOfFuel
  | n + 1 => do
    let tk ← next
    if tk.typ = Tok.space then nextNonSpaceLoop n else pure tk

/-- the loop ends at the first non-space item; the closed channel yields `itemError` items -/
def nextNonSpace : PM Item := fun s => nextNonSpaceLoop (s.toks.length + s.peekCount + 2) s

def peekNonSpace : PM Item := do
  let tk ← nextNonSpace
  backup
  pure tk

def valPart (tk : Item) : MP := if tk.typ = Tok.error then .wild else .s tk.val

/-- `t.unexpected` -/
def unexpected {α} (tk : Item) (context expected : String) : PM α :=
  if tk.typ = Tok.import_ ∨ tk.typ = Tok.extends_ then
    errorf [.s (str ("parsing " ++ context ++ ": unexpected keyword '")), valPart tk, .s (str "' ('"), valPart tk,
            .s (str "' statements must be at the beginning of the template)")]
  else if tk.typ.code > Tok.keyword.code then
    errorf [.s (str ("parsing " ++ context ++ ": unexpected keyword '")), valPart tk,
            .s (str ("' (expected " ++ expected ++ ")"))]
  else
    errorf [.s (str ("parsing " ++ context ++ ": unexpected token '")), valPart tk,
            .s (str ("' (expected " ++ expected ++ ")"))]

def expect (ty : Tok) (context expected : String) : PM Item := do
  let tk ← nextNonSpace
  if tk.typ ≠ ty then unexpected tk context expected else pure tk

def expectRightDelim (context : String) : PM Item := expect Tok.rightDelim context "closing delimiter"

def expectOneOf (ty1 ty2 : Tok) (context expected : String) : PM Item := do
  let tk ← nextNonSpace
  if tk.typ ≠ ty1 ∧ tk.typ ≠ ty2 then unexpected tk context expected else pure tk

/-- `t.expectString` -/
def expectString (cfg : Cfg) (context : String) : PM Bytes := do
  let tk ← expectOneOf Tok.string Tok.rawString context "string literal"
  match cfg.lit tk.typ tk.val with
  | .str s => pure s
  | .bad m => errorf [.s m]
  | .num .. => unsupported "literal table: number for a string token"
  | .unknown => unsupported "literal not in the table"

/-! ### small node helpers -/

/-- `strings.Split(s, ".")` -/
def splitDots (b : Bytes) : List Bytes :=
  let rec go (cur : Bytes) (acc : List Bytes) : Bytes → List Bytes
    | [] => (cur.reverse :: acc).reverse
    | c :: rest => if c = 46 then go [] (cur.reverse :: acc) rest else go (c :: cur) acc rest
  go [] [] b

/-- `newField(…, ident)`: `strings.Split(ident[1:], ".")` -/
def fieldNames (ident : Bytes) : PM (List Bytes) :=
  match ident with
  | [] => crash "slice bounds out of range"
  | _ :: rest => pure (splitDots rest)

/-- `ChainNode.Add` -/
def chainAdd (fields : List Bytes) (field : Bytes) : PM (List Bytes) :=
  match field with
  | 46 :: rest => if rest = [] then crash "empty field" else pure (fields ++ [rest])
  | _ => crash "no dot in field"

/-- `FieldNode.String()` / the field part of `ChainNode.String()` -/
def dotted (names : List Bytes) : Bytes := names.foldr (fun n acc => 46 :: n ++ acc) []

inductive NT where
  | ident | field | chain | underscore | nil_ | bool | string | number | additive | mul | cmp
  | numcmp | logic | not_ | ternary | call | index | slice
  deriving Repr, DecidableEq

def PExpr.nt : PExpr → NT
  | .ident .. => .ident | .field .. => .field | .chain .. => .chain | .underscore .. => .underscore
  | .nilLit .. => .nil_ | .boolLit .. => .bool | .strLit .. => .string | .numLit .. => .number
  | .binary .add .. => .additive | .binary .mul .. => .mul | .binary .cmp .. => .cmp
  | .binary .numcmp .. => .numcmp | .binary .logic .. => .logic
  | .not .. => .not_ | .ternary .. => .ternary | .call .. => .call | .index .. => .index
  | .slice .. => .slice

/-- unicode.IsSpace -/
def isUnicodeSpace (r : Nat) : Bool :=
  r == 9 || r == 10 || r == 11 || r == 12 || r == 13 || r == 32 || r == 0x85 || r == 0xA0 ||
  r == 0x1680 || (0x2000 ≤ r && r ≤ 0x200A) || r == 0x2028 || r == 0x2029 || r == 0x202F ||
  r == 0x205F || r == 0x3000

/-- `strings.TrimSpace(s) == ""` -/
def allSpace : Nat → Bytes → Bool
  | 0, _ => true
  | _, [] => true
  | n + 1, b :: rest =>
    let (r, w) := Utf8.decodeRune (b :: rest)
    if w = 0 then true
    else if isUnicodeSpace r && (w = 1 || r ≠ Utf8.runeError) then allSpace n ((b :: rest).drop w) else false

def isBlank (b : Bytes) : Bool := allSpace (b.length + 1) b

/-- `passedBlocks[name] = block` -/
def registerBlock (name : Bytes) (b : PStmt) : PM Unit := modify fun s =>
  if s.passed.any (fun e => e.1 == name) then
    { s with passed := s.passed.map fun e => if e.1 == name then (name, b) else e }
  else { s with passed := s.passed ++ [(name, b)] }

def isTermTok (t : Tok) : Bool :=
  t = Tok.error ∨ t = Tok.identifier ∨ t = Tok.underscore ∨ t = Tok.nil_ ∨ t = Tok.field ∨ t = Tok.bool ∨
  t = Tok.charConstant ∨ t = Tok.complex ∨ t = Tok.number ∨ t = Tok.leftParen ∨ t = Tok.string ∨ t = Tok.rawString

def postfixable (n : NT) : Bool :=
  n = .ident ∨ n = .call ∨ n = .field ∨ n = .chain ∨ n = .index

def assignable (n : NT) : Bool := n = .field ∨ n = .chain ∨ n = .ident ∨ n = .underscore

/-! ### the productions -/

mutual

/-- `t.term()`: `none` = "the next item is not a term" (the item is pushed back) -/
def term (cfg : Cfg) : Nat → PM (Option PExpr)
  | 0 => outOfFuel
  | n + 1 => do
    let tk ← nextNonSpace
    if tk.typ = Tok.error then errorf [valPart tk]
    else if tk.typ = Tok.identifier then do pure (some (.ident (← lineNumber) tk.val))
    else if tk.typ = Tok.underscore then do pure (some (.underscore (← lineNumber)))
    else if tk.typ = Tok.nil_ then do pure (some (.nilLit (← lineNumber)))
    else if tk.typ = Tok.field then do
      let l ← lineNumber
      pure (some (.field l (← fieldNames tk.val)))
    else if tk.typ = Tok.bool then do pure (some (.boolLit (← lineNumber) (tk.val == str "true")))
    else if tk.typ = Tok.charConstant ∨ tk.typ = Tok.complex ∨ tk.typ = Tok.number then do
      let l ← lineNumber
      match cfg.lit tk.typ tk.val with
      | .num a b c d i u f => pure (some (.numLit l (.num a b c d i u f) tk.val))
      | .bad m => errorf [.s m]
      | .str _ => unsupported "literal table: string for a number token"
      | .unknown => unsupported "literal not in the table"
    else if tk.typ = Tok.leftParen then do
      let e ← expression cfg n "parenthesized expression" "expression"
      let tk2 ← next
      if tk2.typ ≠ Tok.rightParen then unexpected tk2 "parenthesized expression" "closing parenthesis"
      else pure (some e)
    else if tk.typ = Tok.string ∨ tk.typ = Tok.rawString then
      match cfg.lit tk.typ tk.val with
      | .str s => do pure (some (.strLit (← lineNumber) s))
      | .bad m => errorf [.s m]
      | .num .. => unsupported "literal table: number for a string token"
      | .unknown => unsupported "literal not in the table"
    else do
      backup
      pure none

/-- the `for t.peekNonSpace().typ == itemField { chain.Add(t.next().val) }` loop of `operand` -/
def chainLoop : Nat → List Bytes → PM (List Bytes)
  | 0, _ => outOfFuel
  | n + 1, fields => do
    let pk ← peekNonSpace
    if pk.typ = Tok.field then do
      let tk ← next
      chainLoop n (← chainAdd fields tk.val)
    else pure fields

/-- `operand` from the label `RESET` on -/
def operandReset (cfg : Cfg) : Nat → PExpr → PM PExpr
  | 0, _ => outOfFuel
  | n + 1, node0 => do
    let pk ← peek
    let node ← (if pk.typ = Tok.field then do
        let l ← lineNumber
        let fields ← chainLoop n []
        match node0 with
        | .field _ names => do
          -- `t.newField(chain.Position(), t.lex.lineNumber(), chain.String())`
          let l2 ← lineNumber
          pure (PExpr.field l2 (← fieldNames (dotted names ++ dotted fields)))
        | .boolLit .. | .strLit .. | .numLit .. | .nilLit .. =>
          errorf [.s (str "unexpected . after term "), .wild]
        | _ => pure (PExpr.chain l node0 fields)
      else pure node0)
    if postfixable node.nt then do
      let tk ← nextNonSpace
      if tk.typ = Tok.leftParen then do
        let l ← lineNumber
        let (args, slot) ← parseArguments cfg n
        let _ ← expect Tok.rightParen "call expression" "closing parenthesis"
        operandReset cfg n (.call l node args slot)
      else if tk.typ = Tok.leftBrackets then do
        let pk2 ← peekNonSpace
        let (index, nx) ← (if pk2.typ ≠ Tok.colon then do
            let (e, tk3) ← parseExpression cfg n "index|slice expression"
            pure (some e, tk3)
          else do
            let tk3 ← nextNonSpace
            pure (none, tk3))
        let node2 ← (if nx.typ = Tok.colon then do
            let pk3 ← peekNonSpace
            let endIndex ← (if pk3.typ ≠ Tok.rightBrackets then do
                pure (some (← expression cfg n "slice expression" "end indexß"))
              else pure none)
            pure (PExpr.slice node.line node index endIndex)
          else if nx.typ = Tok.rightBrackets then do
            backup
            pure (PExpr.index node.line node index)
          else do
            backup
            pure node)
        let _ ← expect Tok.rightBrackets "index expression" "closing bracket"
        operandReset cfg n node2
      else do
        backup
        pure node
    else pure node

/-- `t.operand(context)` -/
def operand (cfg : Cfg) : Nat → String → PM PExpr
  | 0, _ => outOfFuel
  | n + 1, context => do
    match ← term cfg n with
    | none => do
      let tk ← next
      unexpected tk context "term"
    | some node => operandReset cfg n node

/-- `t.parseArguments()` (the loop) -/
def parseArgumentsLoop (cfg : Cfg) : Nat → List PExpr → Bool → PM (List PExpr × Bool)
  | 0, _, _ => outOfFuel
  | n + 1, acc, slot => do
    let pk ← peekNonSpace
    if pk.typ = Tok.rightParen then pure (acc, slot)
    else do
      let (e, endtoken) ← parseExpression cfg n "call expression argument list"
      let slot' ← (if e.nt = .underscore then
          (if slot then errorf [.s (str "found two pipe slot markers ('_') for the same function call")]
           else pure true)
        else pure slot)
      let acc' := acc ++ [e]
      if endtoken.typ = Tok.comma then parseArgumentsLoop cfg n acc' slot'
      else do
        backup
        pure (acc', slot')

def parseArguments (cfg : Cfg) : Nat → PM (List PExpr × Bool)
  | 0 => outOfFuel
  | n + 1 => parseArgumentsLoop cfg n [] false

/-- `t.unaryExpression(context)` -/
def unaryExpression (cfg : Cfg) : Nat → String → PM (PExpr × Item)
  | 0, _ => outOfFuel
  | n + 1, context => do
    let nx ← nextNonSpace
    if nx.typ = Tok.not_ then do
      let (e, endtoken) ← comparativeExpression cfg n context
      let l ← lineNumber
      pure (.not l e, endtoken)
    else if nx.typ = Tok.minus ∨ nx.typ = Tok.add then do
      let l ← lineNumber
      let r ← operand cfg n "additive expression"
      let endtoken ← nextNonSpace
      pure (.binary .add l nx.typ none r, endtoken)
    else do
      backup
      let e ← operand cfg n context
      let endtoken ← nextNonSpace
      pure (e, endtoken)

def multiplicativeLoop (cfg : Cfg) : Nat → String → PExpr → Item → PM (PExpr × Item)
  | 0, _, _, _ => outOfFuel
  | n + 1, context, left, endtoken =>
    if Tok.mul.code ≤ endtoken.typ.code ∧ endtoken.typ.code ≤ Tok.mod.code then do
      let (right, rightend) ← unaryExpression cfg n context
      let l ← lineNumber
      multiplicativeLoop cfg n context (.binary .mul l endtoken.typ (some left) right) rightend
    else pure (left, endtoken)

def multiplicativeExpression (cfg : Cfg) : Nat → String → PM (PExpr × Item)
  | 0, _ => outOfFuel
  | n + 1, context => do
    let (left, endtoken) ← unaryExpression cfg n context
    multiplicativeLoop cfg n context left endtoken

def additiveLoop (cfg : Cfg) : Nat → String → PExpr → Item → PM (PExpr × Item)
  | 0, _, _, _ => outOfFuel
  | n + 1, context, left, endtoken =>
    if endtoken.typ = Tok.add ∨ endtoken.typ = Tok.minus then do
      let (right, rightend) ← multiplicativeExpression cfg n context
      let l ← lineNumber
      additiveLoop cfg n context (.binary .add l endtoken.typ (some left) right) rightend
    else pure (left, endtoken)

def additiveExpression (cfg : Cfg) : Nat → String → PM (PExpr × Item)
  | 0, _ => outOfFuel
  | n + 1, context => do
    let (left, endtoken) ← multiplicativeExpression cfg n context
    additiveLoop cfg n context left endtoken

def numericComparativeLoop (cfg : Cfg) : Nat → String → PExpr → Item → PM (PExpr × Item)
  | 0, _, _, _ => outOfFuel
  | n + 1, context, left, endtoken =>
    if Tok.great.code ≤ endtoken.typ.code ∧ endtoken.typ.code ≤ Tok.lessEquals.code then do
      let (right, rightend) ← additiveExpression cfg n context
      let l ← lineNumber
      numericComparativeLoop cfg n context (.binary .numcmp l endtoken.typ (some left) right) rightend
    else pure (left, endtoken)

def numericComparativeExpression (cfg : Cfg) : Nat → String → PM (PExpr × Item)
  | 0, _ => outOfFuel
  | n + 1, context => do
    let (left, endtoken) ← additiveExpression cfg n context
    numericComparativeLoop cfg n context left endtoken

def comparativeLoop (cfg : Cfg) : Nat → String → PExpr → Item → PM (PExpr × Item)
  | 0, _, _, _ => outOfFuel
  | n + 1, context, left, endtoken =>
    if endtoken.typ = Tok.equals ∨ endtoken.typ = Tok.notEquals then do
      let (right, rightend) ← numericComparativeExpression cfg n context
      let l ← lineNumber
      comparativeLoop cfg n context (.binary .cmp l endtoken.typ (some left) right) rightend
    else pure (left, endtoken)

def comparativeExpression (cfg : Cfg) : Nat → String → PM (PExpr × Item)
  | 0, _ => outOfFuel
  | n + 1, context => do
    let (left, endtoken) ← numericComparativeExpression cfg n context
    comparativeLoop cfg n context left endtoken

def logicalLoop (cfg : Cfg) : Nat → String → PExpr → Item → PM (PExpr × Item)
  | 0, _, _, _ => outOfFuel
  | n + 1, context, left, endtoken =>
    if endtoken.typ = Tok.and_ ∨ endtoken.typ = Tok.or_ then do
      let (right, rightend) ← comparativeExpression cfg n context
      let l ← lineNumber
      logicalLoop cfg n context (.binary .logic l endtoken.typ (some left) right) rightend
    else pure (left, endtoken)

def logicalExpression (cfg : Cfg) : Nat → String → PM (PExpr × Item)
  | 0, _ => outOfFuel
  | n + 1, context => do
    let (left, endtoken) ← comparativeExpression cfg n context
    logicalLoop cfg n context left endtoken

/-- `t.parseExpression(context)` -/
def parseExpression (cfg : Cfg) : Nat → String → PM (PExpr × Item)
  | 0, _ => outOfFuel
  | n + 1, context => do
    let (e, endtoken) ← logicalExpression cfg n context
    if endtoken.typ = Tok.ternary then do
      let (left, endtoken2) ← parseExpression cfg n context
      if endtoken2.typ ≠ Tok.colon then
        unexpected endtoken2 "ternary expression" "colon in ternary expression"
      else do
        let (right, endtoken3) ← parseExpression cfg n context
        let l ← lineNumber
        pure (.ternary l e left right, endtoken3)
    else pure (e, endtoken)

/-- `t.expression(context, as)` -/
def expression (cfg : Cfg) : Nat → String → String → PM PExpr
  | 0, _, _ => outOfFuel
  | n + 1, context, _as => do
    let (e, _) ← parseExpression cfg n context
    backup
    pure e

end

/-- the left-hand-side loop of `assignmentOrExpression` -/
def assignLeftLoop (cfg : Cfg) (fuel : Nat) (context : String) :
    Nat → List PExpr → PExpr → Item → PM (List PExpr × Bool)
  | 0, _, _, _ => outOfFuel
  | n + 1, left, operand, returned => do
    if !assignable operand.nt then errorf [.s (str "unexpected node in assign")]
    else do
      let left' := left ++ [operand]
      if returned.typ = Tok.comma then do
        let (op2, ret2) ← parseExpression cfg fuel context
        assignLeftLoop cfg fuel context n left' op2 ret2
      else if returned.typ = Tok.assign then pure (left', returned.val == str ":=")
      else unexpected returned "assignment" "comma or assignment"

def assignRightLoop (cfg : Cfg) (fuel : Nat) : Nat → List PExpr → PM (List PExpr)
  | 0, _ => outOfFuel
  | n + 1, right => do
    let (op, returned) ← parseExpression cfg fuel "assignment"
    let right' := right ++ [op]
    if returned.typ ≠ Tok.comma then do
      backup
      pure right'
    else assignRightLoop cfg fuel n right'

/-- `t.assignmentOrExpression(context)` -/
def assignmentOrExpression (cfg : Cfg) (fuel : Nat) (context : String) : PM (PExpr ⊕ PSet) := do
  let _ ← peekNonSpace
  let line ← lineNumber
  let (operand, returned) ← parseExpression cfg fuel context
  if returned.typ = Tok.comma ∨ returned.typ = Tok.assign then do
    let s ← get
    let bound := s.toks.length + s.peekCount + 2
    let (left, isLet) ← assignLeftLoop cfg fuel context bound [] operand returned
    if isLet ∧ left.any (fun o => o.nt ≠ .ident ∧ o.nt ≠ .underscore) then
      errorf [.s (str "unexpected node type "), .wild]
    else do
      let s ← get
      let right ← assignRightLoop cfg fuel (s.toks.length + s.peekCount + 2) []
      let tooMany := [.s (str "unexpected number of operands in assign on range")]
      if context = "range" then
        if left.length > 2 ∨ right.length > 1 then errorf tooMany
        else pure (.inr { line := line, isLet := isLet, lookup := false, left := left, right := right })
      else if left.length ≠ right.length then
        match left, right with
        | [_, _], [r] =>
          if r.nt = .index then
            pure (.inr { line := line, isLet := isLet, lookup := true, left := left, right := right })
          else errorf tooMany
        | _, _ => errorf tooMany
      else pure (.inr { line := line, isLet := isLet, lookup := false, left := left, right := right })
  else do
    backup
    pure (.inl operand)

/-- `t.command(baseExpr)` -/
def command (cfg : Cfg) (fuel : Nat) (baseExpr : Option PExpr) : PM PCmd := do
  let _ ← peekNonSpace
  let line ← lineNumber
  let base ← (match baseExpr with
    | some b => pure b
    | none => expression cfg fuel "command" "name")
  match base with
  | .call cl b args slot =>
    pure { line := line, callLine := cl, base := b, args := some args, hasSlot := slot }
  | _ => do
    let nx ← nextNonSpace
    if nx.typ = Tok.colon then do
      let (args, slot) ← parseArguments cfg fuel
      pure { line := line, callLine := 0, base := base, args := some args, hasSlot := slot }
    else do
      backup
      pure { line := line, callLine := 0, base := base, args := none, hasSlot := false }

def pipelineLoop (cfg : Cfg) (fuel : Nat) : Nat → List PCmd → PM (List PCmd)
  | 0, _ => outOfFuel
  | n + 1, cmds => do
    let tk ← expectOneOf Tok.pipe Tok.rightDelim "pipeline" "pipe or right delimiter"
    if tk.typ = Tok.rightDelim then pure cmds
    else do
      let tk2 ← nextNonSpace
      if tk2.typ = Tok.field ∨ tk2.typ = Tok.identifier then do
        backup
        let c ← command cfg fuel none
        pipelineLoop cfg fuel n (cmds ++ [c])
      else unexpected tk2 "pipeline" "field or identifier"

/-- `t.pipeline(context, base)` -/
def pipeline (cfg : Cfg) (fuel : Nat) (base : PExpr) : PM PPipe := do
  let _ ← peekNonSpace
  let line ← lineNumber
  let c ← command cfg fuel (some base)
  let s ← get
  let cmds ← pipelineLoop cfg fuel (s.toks.length + s.peekCount + 2) [c]
  pure { line := line, cmds := cmds }

/-- the loop of `t.blockParametersList` -/
def blockParamsLoop (cfg : Cfg) (fuel : Nat) (isDeclaring : Bool) (context : String) :
    Nat → List PParam → PM (List PParam)
  | 0, _ => outOfFuel
  | n + 1, acc => do
    let nx ← nextNonSpace
    let (acc', last) ← (
      if nx.typ = Tok.identifier then do
        let nx2 ← nextNonSpace
        if nx2.typ = Tok.comma ∨ nx2.typ = Tok.rightParen then
          pure (acc ++ [{ name := nx.val, dflt := none }], nx2)
        else if nx2.typ = Tok.assign then do
          let (e, tk) ← parseExpression cfg fuel context
          pure (acc ++ [{ name := nx.val, dflt := some e }], tk)
        else if !isDeclaring then do
          backup2 nx
          let (e, tk) ← parseExpression cfg fuel context
          pure (acc ++ [{ name := [], dflt := some e }], tk)
        else unexpected nx2 context "comma, assignment, or closing parenthesis"
      else if !isDeclaring then
        if nx.typ = Tok.comma ∨ nx.typ = Tok.rightParen then pure (acc, nx)
        else do
          backup
          let (e, tk) ← parseExpression cfg fuel context
          pure (acc ++ [{ name := [], dflt := some e }], tk)
      else pure (acc, nx))
    if last.typ ≠ Tok.comma then do
      backup
      pure acc'
    else blockParamsLoop cfg fuel isDeclaring context n acc'

/-- `t.blockParametersList(isDeclaring, context)` -/
def blockParametersList (cfg : Cfg) (fuel : Nat) (isDeclaring : Bool) (context : String) : PM (List PParam) := do
  let _ ← expect Tok.leftParen context "opening parenthesis"
  let s ← get
  let ps ← blockParamsLoop cfg fuel isDeclaring context (s.toks.length + s.peekCount + 2) []
  let _ ← expect Tok.rightParen context "closing parenthesis"
  pure ps

def inTerminators (m : Marker) (terms : List Marker) : Bool := terms.contains m

mutual

/-- `t.itemList(terminatedBy...)`, the loop -/
def itemListLoop (cfg : Cfg) : Nat → List Marker → List PStmt → PM (List PStmt × PStmt)
  | 0, _, _ => outOfFuel
  | n + 1, terms, acc => do
    let pk ← peekNonSpace
    if pk.typ = Tok.eof then errorf [.s (str "unexpected EOF")]
    else do
      let nd ← textOrAction cfg n
      if nd.marker ≠ .none ∧ inTerminators nd.marker terms then pure (acc, nd)
      else if nd.marker ≠ .none then errorf [.s (str "unexpected "), .wild]
      else itemListLoop cfg n terms (acc ++ [nd])

/-- `t.itemList`: (the list's line, its nodes, the terminating marker) -/
def itemList (cfg : Cfg) : Nat → List Marker → PM (Nat × List PStmt × PStmt)
  | 0, _ => outOfFuel
  | n + 1, terms => do
    let _ ← peekNonSpace
    let line ← lineNumber
    let (nodes, endN) ← itemListLoop cfg n terms []
    pure (line, nodes, endN)

/-- `t.textOrAction()` -/
def textOrAction (cfg : Cfg) : Nat → PM PStmt
  | 0 => outOfFuel
  | n + 1 => do
    let tk ← nextNonSpace
    if tk.typ = Tok.text then do pure (.text (← lineNumber) tk.val)
    else if tk.typ = Tok.leftDelim then action cfg n
    else unexpected tk "input" "text or action"

/-- `t.action()` -/
def action (cfg : Cfg) : Nat → PM PStmt
  | 0 => outOfFuel
  | n + 1 => do
    let tk ← nextNonSpace
    if tk.typ = Tok.include_ then parseInclude cfg n
    else if tk.typ = Tok.block then parseBlock cfg n
    else if tk.typ = Tok.end_ then do
      let _ ← expectRightDelim "end"
      pure .endM
    else if tk.typ = Tok.yield then parseYield cfg n
    else if tk.typ = Tok.content then do
      let _ ← expectRightDelim "content"
      pure .contentM
    else if tk.typ = Tok.if_ then parseControl cfg n true "if"
    else if tk.typ = Tok.else_ then do
      -- elseControl
      let pk ← peekNonSpace
      if pk.typ = Tok.if_ then do pure (.elseM (← lineNumber))
      else do
        let _ ← expectRightDelim "else"
        pure (.elseM (← lineNumber))
    else if tk.typ = Tok.range then parseControl cfg n false "range"
    else if tk.typ = Tok.try_ then parseTry cfg n
    else if tk.typ = Tok.catch_ then parseCatch cfg n
    else if tk.typ = Tok.return_ then do
      -- parseReturn
      let v ← expression cfg n "return" "value"
      let _ ← expectRightDelim "return"
      pure (.ret (← lineNumber) v)
    else do
      backup
      let _ ← peek
      let line ← lineNumber
      match ← assignmentOrExpression cfg n "command" with
      | .inr set => do
        let tk2 ← expectOneOf Tok.semicolon Tok.rightDelim "command" "semicolon or right delimiter"
        if tk2.typ = Tok.semicolon then do
          let e ← expression cfg n "command" "pipeline base expression"
          let p ← pipeline cfg n e
          pure (.action line (some set) (some p))
        else pure (.action line (some set) none)
      | .inl e => do
        let p ← pipeline cfg n e
        pure (.action line none (some p))

/-- `t.parseInclude()` -/
def parseInclude (cfg : Cfg) : Nat → PM PStmt
  | 0 => outOfFuel
  | n + 1 => do
    let name ← expression cfg n "include" "template name"
    let pk ← peekNonSpace
    let ctx ← (if pk.typ ≠ Tok.rightDelim then do pure (some (← expression cfg n "include" "context")) else pure none)
    let _ ← expectRightDelim "include invocation"
    pure (.include (← lineNumber) name ctx)

/-- `t.parseBlock()` -/
def parseBlock (cfg : Cfg) : Nat → PM PStmt
  | 0 => outOfFuel
  | n + 1 => do
    let context := "block clause"
    let line ← lineNumber
    let name ← expect Tok.identifier context "name"
    let params ← blockParametersList cfg n true context
    let pk ← peekNonSpace
    let ctx ← (if pk.typ ≠ Tok.rightDelim then do pure (some (← expression cfg n context "context")) else pure none)
    let _ ← expectRightDelim context
    let (ll, list, endN) ← itemList cfg n [.content, .end_]
    let content ← (if endN.marker = .content then do
        let (cl, clist, _) ← itemList cfg n [.end_]
        pure (some (cl, clist))
      else pure none)
    let b := PStmt.block line name.val params ctx ll list content
    registerBlock name.val b
    pure b

/-- `t.parseYield()` -/
def parseYield (cfg : Cfg) : Nat → PM PStmt
  | 0 => outOfFuel
  | n + 1 => do
    let context := "yield clause"
    let line ← lineNumber
    let name ← nextNonSpace
    if name.typ = Tok.content then do
      let pk ← peekNonSpace
      let ctx ← (if pk.typ ≠ Tok.rightDelim then do pure (some (← expression cfg n context "content context")) else pure none)
      let _ ← expectRightDelim context
      pure (.yield line [] none ctx none true)
    else if name.typ ≠ Tok.identifier then unexpected name context "block name"
    else do
      let params ← blockParametersList cfg n false context
      let pk ← peekNonSpace
      if pk.typ = Tok.rightDelim then do
        let _ ← expectRightDelim context
        pure (.yield line name.val (some params) none none false)
      else do
        let (ctx, typ) ← (if pk.typ ≠ Tok.content then do
            let e ← expression cfg n "yield" "context"
            let pk2 ← peekNonSpace
            pure (some e, pk2.typ)
          else pure (none, pk.typ))
        if typ = Tok.rightDelim then do
          let _ ← expectRightDelim context
          pure (.yield line name.val (some params) ctx none false)
        else if typ = Tok.content then do
          let _ ← nextNonSpace
          let _ ← expectRightDelim context
          let (cl, clist, _) ← itemList cfg n [.end_]
          pure (.yield line name.val (some params) ctx (some (cl, clist)) false)
        else do
          let tk ← nextNonSpace
          unexpected tk context "content keyword or closing delimiter"

/-- `t.parseControl(allowElseIf, context)` wrapped by `ifControl` / `rangeControl` -/
def parseControl (cfg : Cfg) : Nat → Bool → String → PM PStmt
  | 0, _, _ => outOfFuel
  | n + 1, allowElseIf, context => do
    let line ← lineNumber
    let (set, e) ← (do
      match ← assignmentOrExpression cfg n context with
      | .inr set =>
        if context ≠ "range" then do
          let _ ← expect Tok.semicolon context "semicolon between assignment and expression"
          let e ← expression cfg n context "expression after assignment"
          pure (some set, some e)
        else pure (some set, none)
      | .inl e => pure (none, some e))
    let _ ← expectRightDelim context
    let (ll, list, nx) ← itemList cfg n [.else_, .end_]
    let els ← (if nx.marker = .else_ then do
        let pk ← peek
        if allowElseIf ∧ pk.typ = Tok.if_ then do
          let _ ← next
          let el ← lineNumber
          let inner ← parseControl cfg n true "if"
          pure (some (el, [inner]))
        else do
          let (el, elist, _) ← itemList cfg n [.end_]
          pure (some (el, elist))
      else pure none)
    pure (.branch allowElseIf line set e ll list els)

/-- `t.parseTry()` -/
def parseTry (cfg : Cfg) : Nat → PM PStmt
  | 0 => outOfFuel
  | n + 1 => do
    let line ← lineNumber
    let _ ← expectRightDelim "try"
    let (ll, list, nx) ← itemList cfg n [.catch_, .end_]
    match nx with
    | .catchM cl ev cll clist => pure (.tryS line ll list (some (cl, ev, cll, clist)))
    | _ => pure (.tryS line ll list none)

/-- `t.parseCatch()` -/
def parseCatch (cfg : Cfg) : Nat → PM PStmt
  | 0 => outOfFuel
  | n + 1 => do
    let line ← lineNumber
    let pk ← peekNonSpace
    let errVar ← (if pk.typ ≠ Tok.rightDelim then do
        match ← term cfg n with
        | none => do
          let tk ← next
          unexpected tk "catch" "identifier"
        | some (.ident l name) => pure (some (l, name))
        | some _ => errorf [.s (str "unexpected node type '"), .wild]
      else pure none)
    let _ ← expectRightDelim "catch"
    let (cl, clist, _) ← itemList cfg n [.end_]
    pure (.catchM line errVar cl clist)

end

/-- the `extends` / `import` prologue loop of `parseTemplate`; returns the skipped blank text nodes -/
def prologueLoop (cfg : Cfg) : Nat → List PStmt → PM (List PStmt)
  | 0, _ => outOfFuel
  | n + 1, skipped => do
    let pk ← peek
    if pk.typ = Tok.eof then pure skipped
    else do
      let delim ← next
      if delim.typ = Tok.text ∧ isBlank delim.val then do
        let s ← get
        if s.ext.isNone ∧ s.imports.isEmpty then do
          let l ← lineNumber
          prologueLoop cfg n (skipped ++ [.text l delim.val])
        else prologueLoop cfg n skipped
      else if delim.typ = Tok.leftDelim then do
        let tk ← nextNonSpace
        if tk.typ = Tok.extends_ ∨ tk.typ = Tok.import_ then do
          let sname ← expectString cfg "extends|import"
          let s ← get
          if tk.typ = Tok.extends_ then do
            if s.ext.isSome then
              errorf [.s (str "Unexpected extends clause: each template can only extend one template")]
            else if !s.imports.isEmpty then
              errorf [.s (str "Unexpected extends clause: the 'extends' clause should come before all import clauses")]
            else match cfg.load sname with
              | some nm => modify fun s => { s with ext := some nm }
              | none => errorf [.wild]
          else match cfg.load sname with
            | some nm => modify fun s => { s with imports := s.imports ++ [nm] }
            | none => errorf [.wild]
          let _ ← expect Tok.rightDelim "extends|import" "closing delimiter"
          prologueLoop cfg n skipped
        else do
          backup2 delim
          pure skipped
      else do
        backup
        pure skipped

def bodyLoop (cfg : Cfg) (fuel : Nat) : Nat → List PStmt → PM (List PStmt)
  | 0, _ => outOfFuel
  | n + 1, acc => do
    let pk ← peek
    if pk.typ = Tok.eof then pure acc
    else do
      let nd ← textOrAction cfg fuel
      if nd.marker ≠ .none then errorf [.s (str "unexpected "), .wild]
      else bodyLoop cfg fuel n (acc ++ [nd])

/-- `t.parseTemplate(…)` -/
def parseTemplate (cfg : Cfg) (fuel : Nat) : PM (Nat × List PStmt) := do
  let _ ← peek
  let rootLine ← lineNumber
  let s ← get
  let bound := s.toks.length + s.peekCount + 2
  let skipped ← prologueLoop cfg bound []
  let s ← get
  let start := if s.ext.isNone ∧ s.imports.isEmpty then skipped else []
  let nodes ← bodyLoop cfg fuel bound start
  pure (rootLine, nodes)

inductive Outcome where
  | ok (t : PTmpl)
  | err (line : Nat) (msg : Msg)
  | crash (what : String)
  | fuel
  | unsupported (why : String)
  deriving Repr

/-- fuel that always suffices (Props/ParseTotal): proportional to the number of items -/
def fuelFor (toks : List Item) : Nat := 40 * (toks.length + 4)

/-- `Set.parse` on an already lexed source -/
def parseItems (cfg : Cfg) (name input : Bytes) (toks : List Item) : Outcome :=
  match parseTemplate cfg (fuelFor toks) { input := input, name := name, toks := toks } with
  | .ok (rl, nodes) s => .ok { name := name, ext := s.ext, imports := s.imports, passed := s.passed,
                                rootLine := rl, root := nodes }
  | .err l m => .err l m
  | .crash w => .crash w
  | .fuel => .fuel
  | .unsupported w => .unsupported w

def itemsOf (evs : List Lex.Event) : List Item :=
  (Lex.tokensOf evs).map fun (t, a, v) => { typ := t, pos := a, val := v }

/-- lexer + parser: what `Set.parse(name, text)` computes -/
def parseSource (cfg : Cfg) (d : Lex.Delims) (name input : Bytes) : Outcome :=
  match Lex.lexRun d input with
  | .done evs => parseItems cfg name input (itemsOf evs)
  | .crash w _ => .crash ("lexer: " ++ w)
  | .outOfFuel _ => .fuel

end JetVerif.Parse
