/-
  S-expressions for the line protocol between the Go harness and the model driver.
  Atoms are bare words; byte strings are `#` followed by hex digits (`#` alone = empty).
  Not part of any theorem: protocol plumbing (trusted, see DESIGN.md section 8).
-/
namespace JetVerif

inductive Sexp where
  | atom (s : String)
  | bytes (b : List UInt8)
  | list (xs : List Sexp)
  deriving Repr, Inhabited

namespace Sexp

def hexVal (c : UInt8) : Option UInt8 :=
  if 48 ≤ c ∧ c ≤ 57 then some (c - 48)
  else if 97 ≤ c ∧ c ≤ 102 then some (c - 87)
  else if 65 ≤ c ∧ c ≤ 70 then some (c - 55)
  else none

def isDelim (c : UInt8) : Bool := c == 32 || c == 40 || c == 41 || c == 10 || c == 13 || c == 9

partial def skipWs (b : ByteArray) (i : Nat) : Nat :=
  if h : i < b.size then
    let c := b[i]
    if c == 32 || c == 10 || c == 13 || c == 9 then skipWs b (i+1) else i
  else i

partial def readHex (b : ByteArray) (i : Nat) (acc : Array UInt8) : Option (Array UInt8 × Nat) :=
  if h : i + 1 < b.size then
    match hexVal b[i], hexVal b[i+1] with
    | some hi, some lo => readHex b (i+2) (acc.push (hi * 16 + lo))
    | _, _ => if isDelim b[i] then some (acc, i) else none
  else if h2 : i < b.size then
    if isDelim b[i] then some (acc, i) else none
  else some (acc, i)

partial def readAtom (b : ByteArray) (i : Nat) (acc : ByteArray) : ByteArray × Nat :=
  if h : i < b.size then
    if isDelim b[i] then (acc, i) else readAtom b (i+1) (acc.push b[i])
  else (acc, i)

mutual
partial def parseAt (b : ByteArray) (i : Nat) : Option (Sexp × Nat) :=
  let i := skipWs b i
  if h : i < b.size then
    let c := b[i]
    if c == 40 then parseList b (i+1) #[]
    else if c == 41 then none
    else if c == 35 then
      match readHex b (i+1) #[] with
      | some (bs, j) => some (.bytes bs.toList, j)
      | none => none
    else
      let (a, j) := readAtom b i ByteArray.empty
      match String.fromUTF8? a with
      | some s => some (.atom s, j)
      | none => none
  else none

partial def parseList (b : ByteArray) (i : Nat) (acc : Array Sexp) : Option (Sexp × Nat) :=
  let i := skipWs b i
  if h : i < b.size then
    if b[i] == 41 then some (.list acc.toList, i+1)
    else match parseAt b i with
      | some (x, j) => parseList b j (acc.push x)
      | none => none
  else none
end

def parse (s : String) : Option Sexp :=
  match parseAt s.toUTF8 0 with
  | some (x, _) => some x
  | none => none

def hexDigit (n : UInt8) : Char :=
  if n < 10 then Char.ofNat (48 + n.toNat) else Char.ofNat (87 + n.toNat)

def hexOf (b : List UInt8) : String :=
  String.ofList (b.foldr (fun c acc => hexDigit (c / 16) :: hexDigit (c % 16) :: acc) [])

partial def render : Sexp → String
  | .atom s => s
  | .bytes b => "#" ++ hexOf b
  | .list xs => "(" ++ " ".intercalate (xs.map render) ++ ")"

def asNat? : Sexp → Option Nat
  | .atom s => s.toNat?
  | _ => none

def asInt? : Sexp → Option Int
  | .atom s => s.toInt?
  | _ => none

def ofNat (n : Nat) : Sexp := .atom (toString n)
def ofInt (n : Int) : Sexp := .atom (toString n)
def ofBool (b : Bool) : Sexp := .atom (if b then "true" else "false")

end Sexp
end JetVerif
