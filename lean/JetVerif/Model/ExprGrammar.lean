/-
  The documented expression grammar, as a stratified (level-indexed) syntax: what C04 says about
  precedence and associativity, written down independently of the parser.

    E0  operand      identifier | '(' E7 ')'
    E1  unary        E0 | '-' E0 | '+' E0              (unary sign binds tightest)
    E2  E2 (* / %) E1 | E1                             (left-associative chains, level by level)
    E3  E3 (+ -) E2 | E2
    E4  E4 (< <= > >=) E3 | E3
    E5  E5 (== !=) E4 | E4
    E5n E5 | '!' E5                                    (operand of a logical connective)
    E6  E6 (&& ||) E5n | E5n
    E7  E6 | E6 '?' E7 ':' E7                          (?: nests to the right)

  `toks` spells a derivation as the items the lexer would hand to the parser (operators carry
  any spelling: `&&` / `and`, …), `tree` is the tree the documentation promises: every chain folded
  to the left, `?:` nested to the right, parentheses leaving no node of their own.
  Props/C04P.lean proves that the parser model maps `toks` to `tree` for every derivation.
-/
import JetVerif.Model.Parse

namespace JetVerif.ExprGrammar
open JetVerif JetVerif.Parse

inductive MulOp where | mul | div | mod deriving DecidableEq, Repr
inductive AddOp where | add | minus deriving DecidableEq, Repr
inductive RelOp where | great | greatEquals | less | lessEquals deriving DecidableEq, Repr
inductive EqOp where | equals | notEquals deriving DecidableEq, Repr
inductive LogOp where | and_ | or_ deriving DecidableEq, Repr

def MulOp.tok : MulOp → Tok | .mul => Tok.mul | .div => Tok.div | .mod => Tok.mod
def AddOp.tok : AddOp → Tok | .add => Tok.add | .minus => Tok.minus
def RelOp.tok : RelOp → Tok
  | .great => Tok.great | .greatEquals => Tok.greatEquals | .less => Tok.less | .lessEquals => Tok.lessEquals
def EqOp.tok : EqOp → Tok | .equals => Tok.equals | .notEquals => Tok.notEquals
def LogOp.tok : LogOp → Tok | .and_ => Tok.and_ | .or_ => Tok.or_

mutual
inductive E0 where
  | atom (name : Bytes)
  | paren (e : E7)
inductive E1 where
  | base (e : E0)
  | sign (op : AddOp) (spelling : Bytes) (e : E0)
inductive E2 where
  | one (e : E1)
  | more (l : E2) (op : MulOp) (spelling : Bytes) (r : E1)
inductive E3 where
  | one (e : E2)
  | more (l : E3) (op : AddOp) (spelling : Bytes) (r : E2)
inductive E4 where
  | one (e : E3)
  | more (l : E4) (op : RelOp) (spelling : Bytes) (r : E3)
inductive E5 where
  | one (e : E4)
  | more (l : E5) (op : EqOp) (spelling : Bytes) (r : E4)
inductive E5n where
  | plain (e : E5)
  | not (spelling : Bytes) (e : E5)
inductive E6 where
  | one (e : E5n)
  | more (l : E6) (op : LogOp) (spelling : Bytes) (r : E5n)
inductive E7 where
  | one (e : E6)
  | tern (c : E6) (a b : E7)
end

/-- an item at position 0 -/
def it (t : Tok) (v : Bytes) : Item := { typ := t, pos := 0, val := v }

mutual
def toks0 : E0 → List Item
  | .atom name => [it Tok.identifier name]
  | .paren e => it Tok.leftParen [40] :: (toks7 e ++ [it Tok.rightParen [41]])
def toks1 : E1 → List Item
  | .base e => toks0 e
  | .sign op v e => it op.tok v :: toks0 e
def toks2 : E2 → List Item
  | .one e => toks1 e
  | .more l op v r => toks2 l ++ it op.tok v :: toks1 r
def toks3 : E3 → List Item
  | .one e => toks2 e
  | .more l op v r => toks3 l ++ it op.tok v :: toks2 r
def toks4 : E4 → List Item
  | .one e => toks3 e
  | .more l op v r => toks4 l ++ it op.tok v :: toks3 r
def toks5 : E5 → List Item
  | .one e => toks4 e
  | .more l op v r => toks5 l ++ it op.tok v :: toks4 r
def toks5n : E5n → List Item
  | .plain e => toks5 e
  | .not v e => it Tok.not_ v :: toks5 e
def toks6 : E6 → List Item
  | .one e => toks5n e
  | .more l op v r => toks6 l ++ it op.tok v :: toks5n r
def toks7 : E7 → List Item
  | .one e => toks6 e
  | .tern c a b => toks6 c ++ it Tok.ternary [63] :: (toks7 a ++ it Tok.colon [58] :: toks7 b)
end

mutual
def tree0 : E0 → PExpr
  | .atom name => .ident 1 name
  | .paren e => tree7 e
def tree1 : E1 → PExpr
  | .base e => tree0 e
  | .sign op _ e => .binary .add 1 op.tok none (tree0 e)
def tree2 : E2 → PExpr
  | .one e => tree1 e
  | .more l op _ r => .binary .mul 1 op.tok (some (tree2 l)) (tree1 r)
def tree3 : E3 → PExpr
  | .one e => tree2 e
  | .more l op _ r => .binary .add 1 op.tok (some (tree3 l)) (tree2 r)
def tree4 : E4 → PExpr
  | .one e => tree3 e
  | .more l op _ r => .binary .numcmp 1 op.tok (some (tree4 l)) (tree3 r)
def tree5 : E5 → PExpr
  | .one e => tree4 e
  | .more l op _ r => .binary .cmp 1 op.tok (some (tree5 l)) (tree4 r)
def tree5n : E5n → PExpr
  | .plain e => tree5 e
  | .not _ e => .not 1 (tree5 e)
def tree6 : E6 → PExpr
  | .one e => tree5n e
  | .more l op _ r => .binary .logic 1 op.tok (some (tree6 l)) (tree5n r)
def tree7 : E7 → PExpr
  | .one e => tree6 e
  | .tern c a b => .ternary 1 (tree6 c) (tree7 a) (tree7 b)
end

/- number of constructors: the fuel a derivation needs is proportional to it -/
mutual
def sz0 : E0 → Nat
  | .atom _ => 1
  | .paren e => sz7 e + 1
def sz1 : E1 → Nat
  | .base e => sz0 e + 1
  | .sign _ _ e => sz0 e + 1
def sz2 : E2 → Nat
  | .one e => sz1 e + 1
  | .more l _ _ r => sz2 l + sz1 r + 1
def sz3 : E3 → Nat
  | .one e => sz2 e + 1
  | .more l _ _ r => sz3 l + sz2 r + 1
def sz4 : E4 → Nat
  | .one e => sz3 e + 1
  | .more l _ _ r => sz4 l + sz3 r + 1
def sz5 : E5 → Nat
  | .one e => sz4 e + 1
  | .more l _ _ r => sz5 l + sz4 r + 1
def sz5n : E5n → Nat
  | .plain e => sz5 e + 1
  | .not _ e => sz5 e + 1
def sz6 : E6 → Nat
  | .one e => sz5n e + 1
  | .more l _ _ r => sz6 l + sz5n r + 1
def sz7 : E7 → Nat
  | .one e => sz6 e + 1
  | .tern c a b => sz6 c + sz7 a + sz7 b + 1
end

end JetVerif.ExprGrammar
