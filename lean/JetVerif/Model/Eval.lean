/-
  Model of the interpreter: eval.go, exec.go, func.go, default.go (built-ins), ranger.go.

  * `RT` is `*Runtime`: scopes are heap cells (`frames`, addressed by id) linked into a chain
    (`scope`, innermost first) exactly like Go's `*scope` objects, so "restore the saved
    pointer" and "mutation through a captured scope" mean what they mean in Go.
  * Every Go panic is an explicit outcome: `err` (a panic with an `error` value: what
    `Runtime.recover` turns into Execute's returned error), `crash` (a `runtime.Error` or a
    non-error panic value: what `Runtime.recover` re-panics).  `executeTry`'s `recover()`
    catches both, like Go's.
  * Non-deferred restores (if-let scope, range scope/context, yield scope/content) are *not*
    performed when the body fails; deferred ones (list-level let scope, include, exec,
    try's writer) are.  This mirrors the code, it is not a simplification.
  * Recursion is open (`Rec`) and closed with fuel (`recAt`), because template evaluation can
    legitimately diverge (recursive blocks/includes); all theorems are "if it finishes".
  * The output sink records *tagged* writes (literal text / escaped value / SafeWriter / …)
    so that C01/C03/C12/C13 can speak about provenance.
-/
import JetVerif.Model.Val
import JetVerif.Model.Path

namespace JetVerif.Eval
open JetVerif

structure Frame where
  vars : Option (List (Bytes × Val))      -- none = nil VarMap
  blocks : List (Bytes × BlockN)
  deriving Inhabited

/-- the func value stored in `Runtime.content` by executeYieldBlock -/
inductive Closure where
  | mk (body : List Stmt) (scope : List Nat) (outer : Option Closure)
  deriving Inhabited

inductive Wr where
  | top | buf (n : Nat) | discard
  deriving Repr, DecidableEq, Inhabited

inductive Tag where
  | lit            -- a TextNode's bytes, written raw
  | esc            -- a printed value through the Set's escapee
  | safe (w : String)   -- a printed value through a SafeWriter command
  | raw            -- set.escapee == nil
  deriving Repr, DecidableEq

structure Chunk where
  tag : Tag
  piece : Piece
  deriving Repr, DecidableEq

inductive LogE where
  | probe (id : Int)
  | call (fn : String) (n : Nat)
  deriving Repr, DecidableEq

structure Err where
  located : Bool
  loc : Loc
  what : String
  deriving Repr, Inhabited

structure Env where
  store : List (Bytes × Option Tmpl)    -- loader contents, already parsed (none = parse error)
  exts : List Bytes
  escapee : Option String               -- none = WithSafeWriter(nil)
  globals : List (Bytes × Val)
  deriving Inhabited

structure RT where
  frames : List Frame := []
  scope : List Nat := []
  ctx : Val := .invalid
  content : Option Closure := none
  writer : Wr := .top
  sink : Nat → List Chunk := fun _ => []   -- sink 0 = Execute's writer, sink (n+1) = try buffer n; most recent first
  nbufs : Nat := 0                         -- number of try buffers allocated so far
  log : List LogE := []                    -- most recent first
  deriving Inhabited

inductive Res (α : Type) where
  | ok (a : α) (rt : RT)
  | err (e : Err) (rt : RT)
  | crash (msg : String) (rt : RT)
  | fuel
  | unsupported (what : String)

abbrev M (α : Type) := RT → Res α

instance : Monad M where
  pure a := fun rt => .ok a rt
  bind m f := fun rt => match m rt with
    | .ok a rt' => f a rt'
    | .err e rt' => .err e rt'
    | .crash s rt' => .crash s rt'
    | .fuel => .fuel
    | .unsupported w => .unsupported w

def getRT : M RT := fun rt => .ok rt rt
def setRT (rt : RT) : M Unit := fun _ => .ok () rt
def modifyRT (f : RT → RT) : M Unit := fun rt => .ok () (f rt)
/-- how a computation fails: a panic with an error value, a runtime panic, or "outside the model" -/
inductive Fail where
  | err (e : Err)
  | crash (msg : String)
  | unsupported (what : String)

/-- pure helpers (everything that only looks at values) live in `P`; only code that touches the
    runtime lives in `M` -/
abbrev P (α : Type) := Except Fail α

class Fails (m : Type → Type) where
  failWith {α : Type} : Fail → m α

instance : Fails P := ⟨fun f => .error f⟩

instance : Fails M := ⟨fun f rt => match f with
  | .err e => .err e rt
  | .crash s => .crash s rt
  | .unsupported w => .unsupported w⟩

def liftP {α} (p : P α) : M α := fun rt =>
  match p with
  | .ok a => .ok a rt
  | .error (.err e) => .err e rt
  | .error (.crash s) => .crash s rt
  | .error (.unsupported w) => .unsupported w

instance : MonadLift P M := ⟨liftP⟩

section
variable {m : Type → Type} [Fails m]

def throwErr {α} (e : Err) : m α := Fails.failWith (.err e)
def crash {α} (msg : String) : m α := Fails.failWith (.crash msg)
def unsupported {α} (w : String) : m α := Fails.failWith (.unsupported w)

/-- `node.errorf(...)`: a located runtime error -/
def errAt {α} (loc : Loc) (what : String) : m α := throwErr { located := true, loc := loc, what := what }
/-- `panic(fmt.Errorf(...))` / `a.Panicf(...)` / error returned by a helper: no position -/
def errPlain {α} (what : String) : m α :=
  throwErr { located := false, loc := { path := [], line := 0 }, what := what }

def liftOpt [Monad m] {α} (what : String) : Option α → m α
  | some a => pure a
  | none => unsupported what
end

def outOfFuel {α} : M α := fun _ => .fuel

/-! ### association lists -/

def alookup {β} (k : Bytes) : List (Bytes × β) → Option β
  | [] => none
  | (k', v) :: rest => if k' = k then some v else alookup k rest

def aset {β} (k : Bytes) (v : β) : List (Bytes × β) → List (Bytes × β)
  | [] => [(k, v)]
  | (k', v') :: rest => if k' = k then (k, v) :: rest else (k', v') :: aset k v rest

/-! ### scopes -/

def frameAt (rt : RT) (id : Nat) : Option Frame := rt.frames[id]?

def setFrame (rt : RT) (id : Nat) (f : Frame) : RT := { rt with frames := rt.frames.set id f }

/-- `st.newScope()` -/
def newScope : M Unit := fun rt =>
  match rt.scope with
  | [] => .crash "nil pointer dereference (newScope on nil scope)" rt
  | cur :: _ =>
    match frameAt rt cur with
    | none => .crash "dangling scope" rt
    | some f =>
      let id := rt.frames.length
      .ok () { rt with frames := rt.frames ++ [{ vars := some [], blocks := f.blocks }], scope := id :: rt.scope }

/-- `st.releaseScope()`: `st.scope = st.scope.parent` -/
def releaseScope : M Unit := fun rt =>
  match rt.scope with
  | [] => .crash "nil pointer dereference (releaseScope on nil scope)" rt
  | _ :: parent => .ok () { rt with scope := parent }

/-- `st.variables[name] = v` on the current scope -/
def letVar (name : Bytes) (v : Val) : M Unit := fun rt =>
  match rt.scope with
  | [] => .crash "nil pointer dereference" rt
  | cur :: _ =>
    match frameAt rt cur with
    | none => .crash "dangling scope" rt
    | some f =>
      match f.vars with
      | none => .crash "assignment to entry in nil map" rt
      | some vs => .ok () (setFrame rt cur { f with vars := some (aset name v vs) })

/-- `st.blocks = b` on the current scope -/
def setBlocks (b : List (Bytes × BlockN)) : M Unit := fun rt =>
  match rt.scope with
  | [] => .crash "nil pointer dereference" rt
  | cur :: _ =>
    match frameAt rt cur with
    | none => .crash "dangling scope" rt
    | some f => .ok () (setFrame rt cur { f with blocks := b })

def lookupChain (rt : RT) (name : Bytes) : List Nat → Option (Nat × Val)
  | [] => none
  | id :: rest =>
    match frameAt rt id with
    | none => none
    | some f =>
      match f.vars with
      | some vs =>
        match alookup name vs with
        | some v => some (id, v)
        | none => lookupChain rt name rest
      | none => lookupChain rt name rest

/-- `Runtime.setValue` -/
def setValue (name : Bytes) (v : Val) : M Bool := fun rt =>
  match lookupChain rt name rt.scope with
  | none => .ok false rt
  | some (id, _) =>
    match frameAt rt id with
    | none => .crash "dangling scope" rt
    | some f =>
      match f.vars with
      | none => .crash "unreachable" rt
      | some vs => .ok true (setFrame rt id { f with vars := some (aset name v vs) })

/-- the scope `LetGlobal` writes to: walk up while the parent has a non-nil variable map -/
def letGlobalTarget (rt : RT) : List Nat → Option Nat
  | [] => none
  | [id] => some id
  | id :: p :: rest =>
    match frameAt rt p with
    | some f => if f.vars.isSome then letGlobalTarget rt (p :: rest) else some id
    | none => some id

/-- `Runtime.LetGlobal` -/
def letGlobal (name : Bytes) (v : Val) : M Unit := fun rt =>
  match letGlobalTarget rt rt.scope with
  | none => .crash "nil pointer dereference" rt
  | some id =>
    match frameAt rt id with
    | none => .crash "dangling scope" rt
    | some f =>
      match f.vars with
      | none => .crash "assignment to entry in nil map" rt
      | some vs => .ok () (setFrame rt id { f with vars := some (aset name v vs) })

def getBlockChain (rt : RT) (name : Bytes) : List Nat → Option BlockN
  | [] => none
  | id :: rest =>
    match frameAt rt id with
    | none => none
    | some f =>
      match alookup name f.blocks with
      | some b => some b
      | none => getBlockChain rt name rest

/-- `scope.getBlock` -/
def getBlock (name : Bytes) : M (Option BlockN) := fun rt => .ok (getBlockChain rt name rt.scope) rt

/-- run `m`, then `fin` on the resulting runtime whether `m` finished or panicked: a `defer` -/
def deferred {α} (fin : RT → RT) (m : M α) : M α := fun rt =>
  match m rt with
  | .ok a rt' => .ok a (fin rt')
  | .err e rt' => .err e (fin rt')
  | .crash s rt' => .crash s (fin rt')
  | .fuel => .fuel
  | .unsupported w => .unsupported w

def popScope (rt : RT) : RT :=
  match rt.scope with
  | [] => rt
  | _ :: parent => { rt with scope := parent }

/-! #### scoping combinators
    Each names one save/restore idiom of eval.go.  "ND" = the restore is an ordinary statement
    after the body (skipped when the body panics); "D" = the restore is a `defer`. -/

/-- `st.newScope(); body; st.releaseScope()` -/
def withNewScopeND {α} (body : M α) : M α := do
  newScope
  let a ← body
  releaseScope
  pure a

/-- `st.newScope(); defer st.releaseScope(); body` -/
def withNewScopeD {α} (body : M α) : M α := do
  newScope
  deferred popScope body

/-- `c := st.context; st.context = v; body; st.context = c` -/
def withCtxND {α} (v : Val) (body : M α) : M α := fun rt =>
  match body { rt with ctx := v } with
  | .ok a rt' => .ok a { rt' with ctx := rt.ctx }
  | x => x

/-- `c := st.context; defer func() { st.context = c }(); st.context = <e>; body` -/
def withCtxD {α} (e : M Val) (body : M α) : M α := fun rt =>
  deferred (fun rt' => { rt' with ctx := rt.ctx }) (do
    let nv ← e
    modifyRT fun rt' => { rt' with ctx := nv }
    body) rt

/-- `w := st.Writer; defer func() { st.Writer = w }(); st.Writer = w'; body` -/
def withWriterD {α} (w' : Wr) (body : M α) : M α := fun rt =>
  deferred (fun rt' => { rt' with writer := rt.writer }) body { rt with writer := w' }

/-- run `body` with scope chain and content replaced; both put back afterwards (not deferred) -/
def withScopeContentND {α} (sc : List Nat) (ct : Option Closure) (body : M α) : M α := fun rt =>
  match body { rt with scope := sc, content := ct } with
  | .ok a rt' => .ok a { rt' with scope := rt.scope, content := rt.content }
  | x => x

/-- run `body` with scope chain and content replaced; both put back by a deferred function, i.e.
    also when `body` fails (the content closure of executeYieldBlock) -/
def withScopeContentD {α} (sc : List Nat) (ct : Option Closure) (body : M α) : M α := fun rt =>
  match body { rt with scope := sc, content := ct } with
  | .ok a rt' => .ok a { rt' with scope := rt.scope, content := rt.content }
  | .err e rt' => .err e { rt' with scope := rt.scope, content := rt.content }
  | .crash m rt' => .crash m { rt' with scope := rt.scope, content := rt.content }
  | .fuel => .fuel
  | .unsupported w => .unsupported w

/-- `mycontent := st.content; st.content = c; body; st.content = mycontent` -/
def withContentND {α} (c : Option Closure) (body : M α) : M α := fun rt =>
  match body { rt with content := c } with
  | .ok a rt' => .ok a { rt' with content := rt.content }
  | x => x

/-! ### built-in table (default.go `defaultVariables`) -/

def b (s : String) : Bytes := s.toUTF8.toList

def defaultVar (name : Bytes) : Option Val :=
  let goFuncs := ["lower", "upper", "hasPrefix", "hasSuffix", "repeat", "replace", "split", "trimSpace", "html", "url", "json"]
  let jetFuncs := ["isset", "len", "includeIfExists", "exec", "ints", "dump", "map", "slice", "array"]
  match String.fromUTF8? (ByteArray.mk name.toArray) with
  | none => none
  | some s =>
    if goFuncs.contains s then some (.func s)
    else if jetFuncs.contains s then some (.jfunc s)
    else if s == "safeHtml" then some (.swriter "html")
    else if s == "safeJs" then some (.swriter "js")
    else if s == "raw" || s == "unsafe" then some (.swriter "raw")
    else if s == "writeJson" then some (.func "writeJson")
    else none

/-- `Runtime.resolve` -/
def resolve (env : Env) (name : Bytes) : M (Option Val) := fun rt =>
  if name = [46] then .ok (some rt.ctx) rt
  else match lookupChain rt name rt.scope with
    | some (_, v) => .ok (some v.indirectEface) rt
    | none =>
      match alookup name env.globals with
      | some v => .ok (some v.indirectEface) rt
      | none =>
        match defaultVar name with
        | some v => .ok (some v) rt
        | none => .ok none rt

/-! ### output -/

def Wr.idx : Wr → Option Nat
  | .top => some 0
  | .buf n => some (n + 1)
  | .discard => none

def appendTo (rt : RT) (w : Wr) (cs : List Chunk) : RT :=
  match w.idx with
  | none => rt
  | some k => { rt with sink := fun j => if j = k then cs.reverse ++ rt.sink j else rt.sink j }

/-- `st.Writer.Write(text)` -/
def writeLit (bts : Bytes) : M Unit := fun rt =>
  .ok () (appendTo rt rt.writer [{ tag := .lit, piece := .lit bts }])

def escapePiece (esc : String) : Piece → Option Piece
  | .lit x => (applyEscaper esc x).map Piece.lit
  | .flt f _ => if esc == "html" || esc == "raw" || esc == "brackets" then some (.flt f esc) else none

/-- `fastprinter.PrintValue(st.escapeeWriter, v)`: each Write goes through the Set's escapee -/
def printEscaped (env : Env) (v : Val) : M Unit := fun rt =>
  match printValue v with
  | none => .unsupported "printValue"
  | some pieces =>
    match env.escapee with
    | none => .ok () (appendTo rt rt.writer (pieces.map fun p => { tag := .raw, piece := p }))
    | some e =>
      match pieces.mapM (escapePiece e) with
      | none => .unsupported "escaper"
      | some ps => .ok () (appendTo rt rt.writer (ps.map fun p => { tag := .esc, piece := p }))

/-- `fastprinter.PrintValue(&escapeWriter{st.Writer, sw}, v)` -/
def printSafe (sw : String) (v : Val) : M Unit := fun rt =>
  -- PrintValue on a zero Value: v.Type() panics with a *reflect.ValueError (an error value)
  if !v.isValid then .err { located := false, loc := { path := [], line := 0 }, what := "reflect: call of reflect.Value.Type on zero Value" } rt else
  match printValue v with
  | none => .unsupported "printValue"
  | some pieces =>
    match pieces.mapM (escapePiece sw) with
    | none => .unsupported "escaper"
    | some ps => .ok () (appendTo rt rt.writer (ps.map fun p => { tag := .safe sw, piece := p }))

def logE (e : LogE) : M Unit := modifyRT fun rt => { rt with log := e :: rt.log }

/-! ### numbers -/

def f64 (bits : UInt64) : Float := Float.ofBits bits

def intToFloat (i : Int) : UInt64 := (Float.ofInt i).toBits
def natToFloat (n : Nat) : UInt64 := (Float.ofNat n).toBits

/-- Go `int64(f)` where it is defined (|f| < 2^63, not NaN) -/
def floatToInt (bits : UInt64) : Option Int :=
  let f := f64 bits
  if f.isNaN || f.isInf then none
  else if f ≥ 9223372036854775808.0 || f < -9223372036854775808.0 then none
  else some (f.toInt64.toInt)

def parseDecNat : Bytes → Option Nat
  | [] => none
  | ds => ds.foldl (fun acc (c : UInt8) => match acc with
      | none => none
      | some n => if 48 ≤ c ∧ c ≤ 57 then some (n * 10 + (c.toNat - 48)) else none) (some 0)

/-- `strconv.ParseInt(s, 10, 0)` (64 bit); none = error -/
def parseInt10 (s : Bytes) : Option Int :=
  let (neg, ds) := match s with
    | 45 :: r => (true, r)
    | 43 :: r => (false, r)
    | r => (false, r)
  match parseDecNat ds with
  | none => none
  | some n =>
    if neg then (if n ≤ 9223372036854775808 then some (-(n : Int)) else none)
    else (if n ≤ 9223372036854775807 then some (n : Int) else none)

/-- eval.go `toInt` -/
def toInt (v : Val) : P Int :=
  match v with
  | .invalid => errPlain "invalid value can't be converted to int64"
  | .int i => pure i
  | .float bts => liftOpt "int64(float) out of range" (floatToInt bts)
  | .uint u => pure (Val.wrapI u)
  | .str s => match parseInt10 s with
    | some n => pure n
    | none => errPlain "strconv.ParseInt"
  | .bool t => pure (if t then 0 else 1)
  | .hidden _ | .opaque _ => unsupported "toInt"
  | _ => errPlain "type can't be converted to int64"

/-- eval.go `toUint` -/
def toUint (v : Val) : P Nat :=
  match v with
  | .invalid => errPlain "invalid value can't be converted to uint64"
  | .uint u => pure u
  | .int i => pure (Val.wrapU i)
  | .float _ => unsupported "uint64(float)"
  | .str s => match parseDecNat s with
    | some n => if n < 18446744073709551616 then pure n else errPlain "strconv.ParseUint"
    | none => errPlain "strconv.ParseUint"
  | .bool t => pure (if t then 0 else 1)
  | .hidden _ | .opaque _ => unsupported "toUint"
  | _ => errPlain "type can't be converted to uint64"

/-- eval.go `toFloat` -/
def toFloat (v : Val) : P UInt64 :=
  match v with
  | .invalid => errPlain "invalid value can't be converted to float64"
  | .float bts => pure bts
  | .int i => pure (intToFloat i)
  | .uint u => pure (natToFloat u)
  | .str _ => unsupported "strconv.ParseFloat"
  | .bool t => pure (if t then (0 : Float).toBits else (1 : Float).toBits)
  | .hidden _ | .opaque _ => unsupported "toFloat"
  | _ => errPlain "type can't be converted to float64"

/-- `fmt.Sprint(float64)` (`%v`, i.e. 'g' with the shortest precision) where it is plain digits:
    integral values below 1e6 in magnitude -/
def sprintFloat (bits : UInt64) : Option Bytes :=
  let f := f64 bits
  if f.isNaN || f.isInf then none
  else if f.floor == f && f.abs < 1000000.0 then
    let n := f.abs.toUInt64.toNat
    let neg := bits ≥ 0x8000000000000000
    some ((if neg then [45] else []) ++ natToDec n)
  else none

def fop (op : Float → Float → Float) (a c : UInt64) : UInt64 := (op (f64 a) (f64 c)).toBits

/-- Go's truncating division / remainder on int64 (divisor ≠ 0) -/
def goDiv (a c : Int) : Int := Val.wrapI (Int.tdiv a c)
def goMod (a c : Int) : Int := Int.tmod a c

def isNumKind (v : Val) : Bool :=
  match v with
  | .int _ | .uint _ | .float _ => true
  | _ => false

def isFloatV (v : Val) : Bool :=
  match v with
  | .float _ => true
  | _ => false

/-! ### reflect: indexing -/

/-- eval.go `indirect`: strip pointers/interfaces; `(v, isNil)` -/
def indirect : Nat → Val → Val × Bool
  | 0, v => (v, false)
  | n + 1, .ptr t none => (.ptr t none, true)
  | n + 1, .ptr _ (some x) => indirect n x
  | n + 1, .iface .invalid => (.iface .invalid, true)
  | n + 1, .iface x => indirect n x
  | _, v => (v, false)

/-- `indirect` together with addressability of the result: `Elem()` of a pointer is addressable,
    `Elem()` of an interface is not -/
def indirectA : Nat → Bool → Val → Val × Bool × Bool
  | 0, a, v => (v, false, a)
  | _ + 1, a, .ptr t none => (.ptr t none, true, a)
  | n + 1, _, .ptr _ (some x) => indirectA n true x
  | _ + 1, a, .iface .invalid => (.iface .invalid, true, a)
  | n + 1, _, .iface x => indirectA n false x
  | _, a, v => (v, false, a)

/-- the method sets of the harness types with methods (`T3`): name ↦ needs a pointer receiver -/
def methodsOf (tname : String) : List (Bytes × String × Bool) :=
  -- names spelled as bytes (kernel reduction does not compute `String.toUTF8`)
  if tname == "T3" then
    [([84, 97, 103], "Tag", false), ([80, 84, 97, 103], "PTag", true), ([67, 97, 116], "Cat", false), ([77, 105, 120], "Mix", false)]
  else []

/-- `ptr.MethodByName(name)` where `ptr = v.Addr()` if `v` is addressable -/
def methodByName (tname : String) (addressable : Bool) (name : Bytes) : Option String :=
  (methodsOf tname).findSome? fun (nb, m, needsPtr) =>
    if nb == name && (addressable || !needsPtr) then some m else none

/-- eval.go `indexArg` -/
def indexArg (index : Val) (cap : Nat) : P Nat :=
  let chk (x : Int) : P Nat :=
    if x < 0 ∨ x ≥ cap then errPlain "index out of range" else pure x.toNat
  match index with
  | .int i => chk i
  | .uint u => chk (Val.wrapI u)
  | .float bts => do let i ← liftOpt "int64(float)" (floatToInt bts); chk i
  | .invalid => errPlain "cannot index slice/array/string with nil"
  | .opaque _ => unsupported "indexArg"
  | _ => errPlain "cannot index slice/array/string with type"

def elemOut (iface : Bool) (v : Val) : Val := if iface then Val.indirectEface (.iface v) else v

/-- eval.go `resolveIndex(v, index, indexAsStr)`; `key` is the string form when the index is
    (or is given as) a string.  Methods are outside the modelled fragment. -/
def resolveIndex (v : Val) (index : Val) (indexAsStr : Option Bytes) : P Val :=
  if !v.isValid then errPlain "there is no field or method in invalid value" else
  let (v, isNil, addressable) := indirectA 8 false v
  match v, isNil with
  | .iface _, true => errPlain "nil pointer evaluating"
  | _, _ =>
  let key : Option Bytes := match indexAsStr with
    | some s => some s
    | none => match index with
      | .str s => some s
      | _ => none
  -- a method of that name wins over fields, keys and indices
  let meth : Option String := match v, key with
    | .struct tn _, some k => methodByName tn addressable k
    | _, _ => none
  match meth with
  | some m => pure (.method m v)
  | none =>
  let indexVal : Val := match indexAsStr with
    | some s => .str s
    | none => index
  match v with
  | .slice es ifc _ => do
    let i ← indexArg indexVal es.length
    match es[i]? with
    | some e => pure (elemOut ifc e)
    | none => crash "unreachable index"
  | .str s => do
    let i ← indexArg indexVal s.length
    match s[i]? with
    | some c => pure (.uint c.toNat)
    | none => crash "unreachable index"
  | .bytes s => do
    let i ← indexArg indexVal s.length
    match s[i]? with
    | some c => pure (.uint c.toNat)
    | none => crash "unreachable index"
  | .struct _ fs =>
    match key with
    | none => errPlain "can't use non-string as field name in struct"
    | some k =>
      match alookup k fs with
      | some f => pure f.indirectEface
      | none => errPlain "can't use as field name in struct (missing or unexported)"
  | .smap es ifc _ =>
    match indexVal with
    | .str k =>
      match alookup k es with
      | some e => pure (elemOut ifc e)
      | none => pure .invalid     -- MapIndex of an absent key: zero Value
    | .invalid => errPlain "reflect: call of reflect.Value.Type on zero Value"
    | .int _ | .uint _ => unsupported "int key converted to string"
    | .opaque _ => unsupported "map key"
    | _ => errPlain "can't use as key for map"
  | .ptr _ none => errPlain "nil pointer evaluating / can't evaluate index"
  | .opaque _ | .errv _ _ | .intsRanger _ _ | .hidden _ => unsupported "resolveIndex"
  | _ => errPlain "can't evaluate index in type"

/-! ### equality (eval.go checkEquality) on the modelled kinds -/

def scalarKindConvertible (a c : Val.Kind) : Option Bool :=
  -- v2Type.ConvertibleTo(v1Type) for the scalar kinds
  if a == c then some true
  else
    let num (k : Val.Kind) := k == .int || k == .uint || k == .float
    if num a && num c then some true
    else if (a == .string && (c == .int || c == .uint)) then none   -- int→string conversion: outside the fragment
    else some false

def checkEquality (v1 v2 : Val) : P Bool :=
  let v1 := Val.indirectInterface v1
  let v2 := Val.indirectInterface v2
  if !v1.isValid || !v2.isValid then pure (v1.isValid == v2.isValid) else
  match scalarKindConvertible v1.kind v2.kind with
  | none => unsupported "checkEquality conversion"
  | some false =>
    (match v1, v2 with
     | .bool _, .bool _ | .int _, .int _ | .uint _, .uint _ | .float _, .float _ | .str _, .str _ => pure false
     | .bool _, _ | .int _, _ | .uint _, _ | .float _, _ | .str _, _ =>
       (match v2 with
        | .bool _ | .int _ | .uint _ | .float _ | .str _ => pure false
        | _ => unsupported "checkEquality kinds")
     | _, _ => unsupported "checkEquality kinds")
  | some true =>
    match v1, v2 with
    | .int a, .float f => pure ((intToFloat a) == f || (f64 (intToFloat a) == f64 f))
    | .int a, _ => do let c ← toInt v2; pure (a == c)
    | .float a, _ => do let c ← toFloat v2; pure (f64 a == f64 c)
    | .uint a, .float f => pure (f64 (natToFloat a) == f64 f)
    | .uint a, _ => do let c ← toUint v2; pure (a == c)
    | .bool a, _ => do let t ← liftOpt "isTrue" (Val.isTrue v2); pure (a == t)
    | .str a, .str c => pure (a == c)
    | _, _ => unsupported "checkEquality kinds"

/-! ### arithmetic -/

def evalAdditive (loc lloc rloc : Loc) (isPlus : Bool) (left : Option Val) (right : Val) : P Val :=
  match left with
  | none =>
    if !right.isValid then errAt loc "right side of additive expression is invalid value" else
    match right with
    | .int i => pure (.int (if isPlus then i else Val.wrapI (-i)))
    | .uint u => pure (if isPlus then .uint u else .int (Val.wrapI (-(Val.wrapI u))))
    | .float f => pure (.float (if isPlus then f else (-(f64 f)).toBits))
    | .opaque _ => unsupported "unary on opaque"
    | _ => errAt loc "additive expression: right side is not a numeric value (no left side)"
  | some left =>
    if !left.isValid then errAt loc "left side of additive expression is invalid value" else
    if !right.isValid then errAt loc "right side of additive expression is invalid value" else
    let isStr := match left with | .str _ => true | _ => false
    let needFloatPromotion := !isFloatV left && !isStr && isFloatV right
    if needFloatPromotion then
      match left, right with
      | .int a, .float f => pure (.float (fop (if isPlus then (· + ·) else (· - ·)) (intToFloat a) f))
      | .uint a, .float f => pure (.float (fop (if isPlus then (· + ·) else (· - ·)) (natToFloat a) f))
      | .opaque _, _ => unsupported "additive on opaque"
      | _, _ => errAt lloc "additive expression: left side needs float promotion but neither int nor uint"
    else
      match left with
      | .int a => do let c ← toInt right; pure (.int (Val.wrapI (if isPlus then a + c else a - c)))
      | .float a => do let c ← toFloat right; pure (.float (fop (if isPlus then (· + ·) else (· - ·)) a c))
      | .uint a => do let c ← toUint right; pure (.uint (Val.wrapU (if isPlus then (a : Int) + c else (a : Int) - c)))
      | .str a =>
        if !isPlus then errAt rloc "minus signal is not allowed with strings" else
        (match right with
         | .bytes s => pure (.str (a ++ s))
         | .float fb => do let p ← liftOpt "fmt.Sprint(float)" (sprintFloat fb); pure (.str (a ++ p))
         | r => do let p ← liftOpt "fmt.Sprint" (fmtComposite r); pure (.str (a ++ p)))
      | .opaque _ | .hidden _ => unsupported "additive on opaque"
      | _ => errAt lloc "additive expression: left side is not a numeric value"

def evalMultiplicative (lloc rloc : Loc) (op : Tok) (left right : Val) : P Val :=
  let needFloatPromotion := !isFloatV left && isFloatV right
  let rightF : P UInt64 := match right with
    | .float f => pure f
    | _ => crash "unreachable: promotion without float"
  let intDivisor : P Int := do
    let d ← toInt right
    if d == 0 then errAt rloc "integer division by zero in multiplicative expression" else pure d
  let uintDivisor : P Nat := do
    let d ← toUint right
    if d == 0 then errAt rloc "integer division by zero in multiplicative expression" else pure d
  match left with
  | .opaque _ | .hidden _ => unsupported "multiplicative on opaque"
  | _ =>
  if op == Tok.mul then
    match left with
    | .int a => if needFloatPromotion then do let f ← rightF; pure (.float (fop (· * ·) (intToFloat a) f))
                else do let c ← toInt right; pure (.int (Val.wrapI (a * c)))
    | .float a => do let c ← toFloat right; pure (.float (fop (· * ·) a c))
    | .uint a => if needFloatPromotion then do let f ← rightF; pure (.float (fop (· * ·) (natToFloat a) f))
                 else do let c ← toUint right; pure (.uint (Val.wrapU ((a : Int) * c)))
    | _ => errAt lloc "a non numeric value in multiplicative expression"
  else if op == Tok.div then
    match left with
    | .int a => if needFloatPromotion then do let f ← rightF; pure (.float (fop (· / ·) (intToFloat a) f))
                else do let c ← intDivisor; pure (.int (goDiv a c))
    | .float a => do let c ← toFloat right; pure (.float (fop (· / ·) a c))
    | .uint a => if needFloatPromotion then do let f ← rightF; pure (.float (fop (· / ·) (natToFloat a) f))
                 else do let c ← uintDivisor; pure (.uint (a / c))
    | _ => errAt lloc "a non numeric value in multiplicative expression"
  else if op == Tok.mod then
    match left with
    | .int a => do let c ← intDivisor; pure (.int (goMod a c))
    | .float a => do
        let ai ← liftOpt "int64(float)" (floatToInt a)
        let c ← intDivisor
        pure (.int (goMod ai c))
    | .uint a => do let c ← uintDivisor; pure (.uint (a % c))
    | _ => errAt lloc "a non numeric value in multiplicative expression"
  else crash "unreachable operator"

def fcmp (op : Tok) (a c : UInt64) : Bool :=
  let x := f64 a; let y := f64 c
  if op == Tok.great then x > y else if op == Tok.greatEquals then x ≥ y
  else if op == Tok.less then x < y else x ≤ y

def icmp (op : Tok) (a c : Int) : Bool :=
  if op == Tok.great then a > c else if op == Tok.greatEquals then a ≥ c
  else if op == Tok.less then a < c else a ≤ c

def evalNumericComparative (lloc : Loc) (op : Tok) (left right : Val) : P Val :=
  let needFloatPromotion := !isFloatV left && isFloatV right
  match left, right with
  | .opaque _, _ | .hidden _, _ => unsupported "numcmp on opaque"
  | .int a, .float f => if needFloatPromotion then pure (.bool (fcmp op (intToFloat a) f)) else crash "unreachable"
  | .uint a, .float f => if needFloatPromotion then pure (.bool (fcmp op (natToFloat a) f)) else crash "unreachable"
  | .int a, _ => do let c ← toInt right; pure (.bool (icmp op a c))
  | .float a, _ => do let c ← toFloat right; pure (.bool (fcmp op a c))
  | .uint a, _ => do let c ← toUint right; pure (.bool (icmp op a c))
  | _, _ => errAt lloc "a non numeric value in numeric comparative expression"

/-! ### function registry (harness) and Go built-ins -/

inductive Ty where
  | string | int | float | bool | any | bytes
  deriving Repr, DecidableEq

structure Sig where
  params : List Ty
  variadic : Option Ty     -- element type of the variadic tail
  deriving Repr

def goFuncSig (id : String) : Option Sig :=
  if id == "lower" || id == "upper" || id == "trimSpace" || id == "html" then some ⟨[.string], none⟩
  else if id == "hasPrefix" || id == "hasSuffix" then some ⟨[.string, .string], none⟩
  else if id == "repeat" then some ⟨[.string, .int], none⟩
  else if id == "probe" then some ⟨[.int, .any], none⟩
  else if id == "probeb" then some ⟨[.int, .bool], none⟩
  else if id == "fail" then some ⟨[.string], none⟩
  else if id == "add3" then some ⟨[.int, .int, .int], none⟩
  else if id == "cat" then some ⟨[.string], some .string⟩
  else if id == "ident" then some ⟨[.any], none⟩
  else if id == "shout" then some ⟨[.string], none⟩
  else if id == "joinv" then some ⟨[.string], some .any⟩
  else if id == "sum" then some ⟨[], some .int⟩
  else if id == "stage" then some ⟨[.int, .string], none⟩
  else if id == "replace" then some ⟨[.string, .string, .string, .int], none⟩
  else if id == "split" then some ⟨[.string, .string], none⟩
  else none

/-- `Type.AssignableTo(in)` / `ConvertibleTo(in)` + `Convert(in)` for the modelled kinds -/
def convertArg (ty : Ty) (v : Val) : P (Option Val) :=
  match ty, v with
  | .any, v => pure (some v)
  | .string, .str s => pure (some (.str s))
  | .string, .bytes s => pure (some (.str s))
  | .string, .int _ | .string, .uint _ => unsupported "int→string conversion"
  | .bytes, .bytes s => pure (some (.bytes s))
  | .bytes, .str s => pure (some (.bytes s))
  | .int, .int i => pure (some (.int i))
  | .int, .uint u => pure (some (.int (Val.wrapI u)))
  | .int, .float f => do let i ← liftOpt "int64(float)" (floatToInt f); pure (some (.int i))
  | .float, .float f => pure (some (.float f))
  | .float, .int i => pure (some (.float (intToFloat i)))
  | .float, .uint u => pure (some (.float (natToFloat u)))
  | .bool, .bool t => pure (some (.bool t))
  | _, .opaque _ | _, .hidden _ => unsupported "convertArg on opaque"
  | _, _ => pure none

def isAsciiBytes (s : Bytes) : Bool := s.all (· < 128)

def lowerB (s : Bytes) : Bytes := s.map fun c => if 65 ≤ c ∧ c ≤ 90 then c + 32 else c
def upperB (s : Bytes) : Bytes := s.map fun c => if 97 ≤ c ∧ c ≤ 122 then c - 32 else c

def hasSuffixB (s suf : Bytes) : Bool := s.length ≥ suf.length && s.drop (s.length - suf.length) == suf
def hasPrefixB (s pre : Bytes) : Bool := s.take pre.length == pre

def repeatB : Nat → Bytes → Bytes
  | 0, _ => []
  | n + 1, s => s ++ repeatB n s

/-- `strings.Replace(s, old, new, n)` for non-empty `old`; `rem = none` is n < 0 (all) -/
def replaceGo : Nat → Bytes → Bytes → Bytes → Option Nat → Bytes
  | 0, s, _, _, _ => s
  | _ + 1, [], _, _, _ => []
  | fuel + 1, c :: cs, old, new, rem =>
    if rem == some 0 then c :: cs
    else if hasPrefixB (c :: cs) old then new ++ replaceGo fuel ((c :: cs).drop old.length) old new (rem.map (· - 1))
    else c :: replaceGo fuel cs old new rem

/-- `strings.Split(s, sep)` for non-empty `sep` -/
def splitGo : Nat → Bytes → Bytes → Bytes → List Bytes
  | 0, _, _, cur => [cur.reverse]
  | _ + 1, [], _, cur => [cur.reverse]
  | fuel + 1, c :: cs, sep, cur =>
    if hasPrefixB (c :: cs) sep then cur.reverse :: splitGo fuel ((c :: cs).drop sep.length) sep []
    else splitGo fuel cs sep (c :: cur)

def isAsciiSpace (c : UInt8) : Bool := c == 32 || c == 9 || c == 10 || c == 13 || c == 11 || c == 12

def trimSpaceB (s : Bytes) : Bytes := ((s.dropWhile isAsciiSpace).reverse.dropWhile isAsciiSpace).reverse

def joinBytes (sep : Bytes) : List Bytes → Bytes
  | [] => []
  | [x] => x
  | x :: xs => x ++ sep ++ joinBytes sep xs

/-- a reflected Go function applied to converted arguments -/
def applyGoFunc (id : String) (args : List Val) : P (Val × List LogE) :=
  match id, args with
  | "lower", [.str s] => if isAsciiBytes s then pure (.str (lowerB s), []) else unsupported "non-ASCII ToLower"
  | "upper", [.str s] => if isAsciiBytes s then pure (.str (upperB s), []) else unsupported "non-ASCII ToUpper"
  | "trimSpace", [.str s] => if isAsciiBytes s then pure (.str (trimSpaceB s), []) else unsupported "non-ASCII TrimSpace"
  | "html", [.str s] => pure (.str (htmlEscape' s), [])
  | "hasPrefix", [.str s, .str p] => pure (.bool (hasPrefixB s p), [])
  | "hasSuffix", [.str s, .str p] => pure (.bool (hasSuffixB s p), [])
  | "repeat", [.str s, .int n] =>
    if n < 0 then crash "strings: negative Repeat count"
    else if s.isEmpty then pure (.str [], [])
    else if n * s.length > 100000 then unsupported "huge repeat" else pure (.str (repeatB n.toNat s), [])
  | "probe", [.int id, v] => pure (.iface (Val.indirectInterface v), [.probe id])
  | "probeb", [.int id, .bool t] => pure (.bool t, [.probe id])
  | "fail", [.str _] => errPlain "function reported an error"
  | "add3", [.int a, .int c, .int d] => pure (.int (Val.wrapI (a + c + d)), [])
  | "cat", .str a :: rest =>
    (rest.foldlM (fun acc v => match v with
      | .str s => pure (acc ++ s)
      | _ => crash "unreachable cat arg") a) >>= fun s => pure (.str s, [])
  | "ident", [v] => pure (.iface (Val.indirectInterface v), [])
  | "shout", [.str s] => pure (.str (s ++ [33]), [])
  | "joinv", .str sep :: xs =>
    (match xs.mapM (fun v => fmtAny (Val.indirectInterface v)) with
     | some ps => pure (.str (joinBytes sep ps), [])
     | none => unsupported "fmt.Sprint of a joinv argument")
  | "stage", [.int id, .str s] => pure (.str (s ++ intToDec id), [.probe id])
  | "sum", xs =>
    (xs.foldlM (fun acc v => match v with
      | .int i => pure (Val.wrapI (acc + i))
      | _ => crash "unreachable sum arg") (0 : Int)) >>= fun t => pure (.int t, [])
  | "replace", [.str s, .str old, .str new, .int n] =>
    if old.isEmpty then (if old == new || n == 0 then pure (.str s, []) else unsupported "replace of the empty string")
    else if n == 0 || old == new then pure (.str s, [])
    else pure (.str (replaceGo (s.length + 1) s old new (if n < 0 then none else some n.toNat)), [])
  | "split", [.str s, .str sep] =>
    if sep.isEmpty then
      (if !isAsciiBytes s then unsupported "split into UTF-8 sequences"
       else pure (.slice (s.map fun c => .str [c]) false false, []))
    else pure (.slice ((splitGo (s.length + 1) s sep []).map .str) false false, [])
  | _, _ => unsupported ("go func " ++ id)
where
  /-- `html.EscapeString`: escapes `<>&'"` ( `'`→`&#39;`, `"`→`&#34;` ) -/
  htmlEscape' (s : Bytes) : Bytes :=
    s.flatMap fun c =>
      if c == 34 then asciiBytes "&#34;" else if c == 39 then asciiBytes "&#39;"
      else if c == 38 then asciiBytes "&amp;" else if c == 60 then asciiBytes "&lt;"
      else if c == 62 then asciiBytes "&gt;" else [c]

/-- `fmt.Sprint(operands...)`: default formats, a space between two operands when neither is a string -/
def sprintGo : Bool → Bool → List Val → Option Bytes
  | _, _, [] => some []
  | first, prevString, v :: rest =>
    let w := Val.indirectInterface v
    let isString := match w with | .str _ => true | _ => false
    match fmtAny w, sprintGo false isString rest with
    | some b, some tail => some ((if !first && !isString && !prevString then [32] else []) ++ b ++ tail)
    | _, _ => none

def methodSig (name : String) : Option Sig :=
  if name == "Tag" then some ⟨[.string, .int], none⟩
  else if name == "PTag" then some ⟨[.string], none⟩
  else if name == "Cat" then some ⟨[], some .string⟩
  else if name == "Mix" then some ⟨[.int], some .any⟩
  else none

/-- the methods of the harness type `T3 {Pre string; N int}` applied to converted arguments -/
def applyMethod (name : String) (recv : Val) (args : List Val) : P Val :=
  match recv with
  | .struct _ fs =>
    match alookup (asciiBytes "Pre") fs, alookup (asciiBytes "N") fs with
    | some (.str pre), some (.int n) =>
      match name, args with
      | "Tag", [.str p, .int k] => pure (.str (pre ++ [58] ++ p ++ [58] ++ intToDec (Val.wrapI (k + n))))
      | "PTag", [.str p] => pure (.str ([42] ++ pre ++ [58] ++ p))
      | "Cat", xs =>
        (xs.mapM (fun v => match v with
          | .str x => pure x
          | _ => crash "unreachable Cat arg")) >>= fun ps => pure (.str (pre ++ [40] ++ joinBytes [44] ps ++ [41]))
      | "Mix", a :: xs =>
        (match sprintGo true false (.str pre :: a :: xs) with
         | some b => pure (.str b)
         | none => unsupported "fmt.Sprint of a method argument")
      | _, _ => unsupported ("method " ++ name)
    | _, _ => unsupported "method receiver"
  | _ => unsupported "method receiver"

/-! ### the evaluator (open recursion) -/

/-- what one level of the interpreter may call one level down -/
structure Rec where
  evalExpr : Env → Expr → M Val
  execList : Env → List Stmt → M Val
  isSetE : Env → Expr → M Bool

def Rec.bottom : Rec :=
  { evalExpr := fun _ _ => outOfFuel, execList := fun _ _ => outOfFuel, isSetE := fun _ _ => outOfFuel }

/-- the piped value and argument expressions of a call: func.go `Arguments` -/
structure Args where
  exprs : List Expr
  hasSlot : Bool
  piped : Option Val

def Args.num (a : Args) : Nat := if a.piped.isSome && !a.hasSlot then a.exprs.length + 1 else a.exprs.length

def isUnderscore : Expr → Bool
  | .underscore _ => true
  | _ => false

/-- the `j`-th written argument: `_` stands for the piped value -/
def Args.exprAt (r : Rec) (env : Env) (a : Args) (j : Nat) : M Val :=
  match a.exprs[j]? with
  | some e =>
    if isUnderscore e then
      match a.piped with
      | some p => pure p
      | none => errAt e.loc "pipe slot marker ('_') used as argument, but no value is piped into the call"
    else r.evalExpr env e
  | none => pure .invalid

/-- `Arguments.Get(i)` -/
def Args.get (r : Rec) (env : Env) (a : Args) (i : Nat) : M Val :=
  match a.piped with
  | some p =>
    if !a.hasSlot then (if i == 0 then pure p else a.exprAt r env (i - 1))
    else a.exprAt r env i
  | none => a.exprAt r env i

def Args.isSetAt (r : Rec) (env : Env) (a : Args) (j : Nat) : M Bool :=
  match a.exprs[j]? with
  | some e =>
    if isUnderscore e then
      match a.piped with
      | some p => pure (Val.notNil p)
      | none => pure false
    else r.isSetE env e
  | none => pure false

/-- `Arguments.IsSet(i)` -/
def Args.isSet (r : Rec) (env : Env) (a : Args) (i : Nat) : M Bool :=
  match a.piped with
  | some p =>
    if !a.hasSlot then (if i == 0 then pure (Val.notNil p) else a.isSetAt r env (i - 1))
    else a.isSetAt r env i
  | none => a.isSetAt r env i

def Sig.tyAt (sig : Sig) (slot : Nat) : Option Ty :=
  match sig.params[slot]? with
  | some t => some t
  | none => sig.variadic

/-- convert one argument to its parameter type; `.error` = an error evaluateArgs *returns* -/
def convArg (ty : Ty) (v : Val) (what : String) : P (Except String Val) := do
  if !v.isValid then pure (.error (what ++ " is not a valid value"))
  else match ← convertArg ty v with
    | some x => pure (.ok x)
    | none => pure (.error (what ++ " is not convertible"))

def evalArgsLoop (r : Rec) (env : Env) (sig : Sig) (a : Args) : List Expr → Nat → List Val → M (Except String (List Val))
  | [], _, acc => pure (.ok acc.reverse)
  | e :: rest, slot, acc => do
    match sig.tyAt slot with
    | none => crash "unreachable: too many arguments"
    | some t =>
      let v ← (if isUnderscore e then
          match a.piped with
          | some p => pure p
          | none => crash "nil pointer dereference (no piped value)"
        else r.evalExpr env e)
      match ← liftP (convArg t v "argument") with
      | .ok x => evalArgsLoop r env sig a rest (slot + 1) (x :: acc)
      | .error m => pure (.error m)

/-- `evaluateArgs`: `.error` = an error it *returns* (the caller positions it); failures while
    evaluating an argument expression are panics and propagate in `M`. -/
def evaluateArgs (r : Rec) (env : Env) (sig : Sig) (a : Args) : M (Except String (List Val)) :=
  if a.hasSlot && a.piped.isNone then
    pure (.error "pipe slot marker ('_') in call, but no value is piped into it")
  else
    let numArgs := a.num
    let required := sig.params.length
    if (sig.variadic.isSome && numArgs < required) || (sig.variadic.isNone && numArgs != required) then
      pure (.error "wrong number of arguments")
    else
      -- the effective argument list: piped value first unless a slot takes it
      match a.piped, a.hasSlot with
      | some p, false =>
        (match sig.tyAt 0 with
         | none => crash "unreachable: too many arguments"
         | some t => do
           match ← liftP (convArg t p "piped first argument") with
           | .ok x => evalArgsLoop r env sig a a.exprs 1 [x]
           | .error m => pure (.error m))
      | _, _ => evalArgsLoop r env sig a a.exprs 0 []

def canonicalOf (env : Env) (path : Bytes) : Option (Bytes × Option Tmpl) :=
  env.exts.findSome? fun ext =>
    match env.store.find? (fun p => p.1 = path ++ ext) with
    | some (n, t) => some (n, t)
    | none => none

/-- `Set.getSiblingTemplate(name, sibling)` against the pre-parsed store -/
def getSibling (env : Env) (name sibling : Bytes) : P Tmpl :=
  let p := Path.resolveSibling name sibling
  match canonicalOf env p with
  | none => errPlain "template could not be found"
  | some (_, none) => errPlain "template does not parse"
  | some (_, some t) => pure t

def findTmpl (env : Env) (name : Bytes) : Option Tmpl :=
  match env.store.find? (fun p => p.1 = name) with
  | some (_, some t) => some t
  | _ => none

/-- follow `extends` to the root ancestor: `for t.extends != nil { t = t.extends }` -/
def rootOf (env : Env) : Nat → Tmpl → Option Tmpl
  | 0, _ => none
  | n + 1, t =>
    match t.ext with
    | none => some t
    | some e => match findTmpl env e with
      | some p => rootOf env n p
      | none => none

def ctxSwap (v : Val) : M Val := fun rt => .ok rt.ctx { rt with ctx := v }

def issetLoop (r : Rec) (env : Env) (a : Args) : Nat → Nat → M Val
  | 0, _ => pure (.bool true)
  | f + 1, i =>
    if i ≥ a.num then pure (.bool true)
    else do
      let s ← a.isSet r env i
      if !s then pure (.bool false) else issetLoop r env a f (i + 1)

def sliceLoop (r : Rec) (env : Env) (a : Args) : Nat → Nat → List Val → M Val
  | 0, _, acc => pure (.slice acc.reverse true false)
  | f + 1, i, acc =>
    if i ≥ a.num then pure (.slice acc.reverse true false)
    else do
      let v ← a.get r env i
      -- a.Get(i).Interface(): panics on an invalid Value
      if !v.isValid then errPlain "reflect: call of reflect.Value.Interface on zero Value"
      else sliceLoop r env a f (i + 1) (Val.indirectInterface v :: acc)

def mapLoop (r : Rec) (env : Env) (a : Args) : Nat → Nat → List (Bytes × Val) → M Val
  | 0, _, acc => pure (.smap acc true false)
  | f + 1, i, acc =>
    if i ≥ a.num then pure (.smap acc true false)
    else do
      let k ← a.get r env i
      if !k.isValid then errPlain "map(): key argument is not a valid value" else
      match k with
      | .str _ => do
        -- m.SetMapIndex(a.Get(i), a.Get(i+1)): evaluates the key expression again
        let k2 ← a.get r env i
        let v ← a.get r env (i + 1)
        match k2 with
        | .str ks =>
          if !v.isValid then
            -- SetMapIndex with a zero Value deletes the key
            mapLoop r env a f (i + 2) (acc.filter (fun p => p.1 ≠ ks))
          else mapLoop r env a f (i + 2) (aset ks (Val.indirectInterface v) acc)
        | _ => unsupported "map key changed between evaluations"
      | .int _ | .uint _ | .bytes _ => unsupported "map(): converted key"
      | .opaque _ | .hidden _ => unsupported "map key"
      | _ => errPlain "map(): key is not convertible to string"

def recLoop (r : Rec) (env : Env) (a : Args) : Nat → Nat → List Val → M Val
  | 0, _, acc => pure (.slice acc.reverse true false)
  | f + 1, i, acc =>
    if i ≥ a.num then pure (.slice acc.reverse true false)
    else do
      let v ← a.get r env i
      recLoop r env a f (i + 1) ((if v.isValid then Val.indirectInterface v else .invalid) :: acc)

/-- `a.ParseInto(&int64)` for one argument -/
def parseIntoInt (v : Val) : P Int :=
  match Val.indirectEface v with
  | .int i => pure i
  | .float f => liftOpt "int64(float)" (floatToInt f)
  | .invalid => errPlain "argument is not a valid value"
  | .opaque _ | .hidden _ => unsupported "ParseInto"
  | _ => errPlain "could not parse into int64"

/-- `exec` / `includeIfExists` -/
def execBuiltin (r : Rec) (env : Env) (isExec : Bool) (a : Args) : M Val :=
  if a.num < 1 || a.num > 2 then errPlain "unexpected number of arguments" else do
  let nameV ← a.get r env 0
  match nameV with
  | .str name =>
    let p := Path.resolveSibling name [47]
    match canonicalOf env p with
    | none => if isExec then errPlain "exec: template could not be found" else pure (.hidden false)
    | some (_, none) =>
      -- "If template exists but returns an error then panic instead of failing silently"
      errPlain (if isExec then "exec: template does not parse" else "including: template does not parse")
    | some (_, some t) =>
      match rootOf env 64 t with
      | none => unsupported "extends chain too deep"
      | some root =>
        let inner : M Val := do
          setBlocks t.blocks
          if a.num > 1 then withCtxD (a.get r env 1) (r.execList env root.root)
          else r.execList env root.root
        do
          let v ← withNewScopeD (if isExec then withWriterD .discard inner else inner)
          pure (if isExec then v else .hidden true)
  | _ => unsupported "template name of non-string kind"

/-- `Runtime.YieldBlock(name, context)` -/
def yieldBlockApi (r : Rec) (env : Env) (name : Bytes) (ctx : Val) : M Unit := do
  match ← getBlock name with
  | none => errPlain "Block was not found"
  | some blk =>
    if ctx.isValid then do
      let _ ← withCtxND ctx (r.execList env blk.body)
      pure ()
    else do
      let _ ← r.execList env blk.body
      pure ()

/-- harness `recset`: `Arguments.IsSet(i)` for every argument, as a `[]interface{}` of bools -/
def recsetLoop (r : Rec) (env : Env) (a : Args) : Nat → Nat → List Val → M Val
  | 0, _, acc => pure (.slice acc.reverse true false)
  | fuel + 1, i, acc => do
    let t ← a.isSet r env i
    recsetLoop r env a fuel (i + 1) (.bool t :: acc)

/-- harness `parse3`: `a.ParseInto(&i, &s, &v)` with i int, s string, v interface{}; then exactly 3
    arguments; returns fmt.Sprint(i, "/", s, "/", v) -/
def parse3Func (r : Rec) (env : Env) (a : Args) : M Val :=
    (if a.num > 3 then errPlain "have more arguments than pointers to parse into" else do
      let g0 ← (if a.num > 0 then do
          let x ← a.get r env 0
          let x := x.indirectEface
          if !x.isValid then errPlain "argument is not a valid value" else
          let i ← liftP (parseIntoInt x)
          pure (some i) else pure none)
      let g1 ← (if a.num > 1 then do
          let x ← a.get r env 1
          match x.indirectEface with
          | .str s => pure (some s)
          | .invalid | .iface .invalid => errPlain "argument is not a valid value"
          | .opaque _ | .hidden _ => unsupported "ParseInto on opaque"
          | _ => errPlain "could not parse into *string"
        else pure none)
      let g2 ← (if a.num > 2 then do
          let x ← a.get r env 2
          let x := x.indirectEface
          if !x.isValid then errPlain "argument is not a valid value" else pure (some x) else pure none)
      match g0, g1, g2 with
      | some i, some s, some v =>
        (match fmtComposite (Val.indirectInterface v) with
         | some t => pure (.str (intToDec i ++ [47] ++ s ++ [47] ++ t))
         | none => unsupported "fmt.Sprint of the third argument")
      | _, _, _ => errPlain "parse3 needs 3 arguments")

def apiName (v : Val) : P Bytes :=
  match v with
  | .str s => pure s
  | _ => unsupported "Runtime API called with a non-string name"

/-- `reflect.ValueOf(v.Interface())` (nil for an invalid value): how the harness functions hand a
    template value to `Let` / `Set` / `YieldBlock` -/
def viaInterface (v : Val) : Val := Val.indirectInterface v

/-- the harness's jet.Func wrappers around the exported Runtime API (eval.go `Let`, `Set`,
    `SetOrLet`, `LetGlobal`, `Resolve`, `Context`, `YieldBlock`), acting on the call site's runtime -/
def applyApiFunc (r : Rec) (env : Env) (id : String) (a : Args) : M Val :=
  let two (k : Bytes → Val → M Val) : M Val :=
    if a.num != 2 then errPlain "unexpected number of arguments" else do
      let n ← a.get r env 0
      let v ← a.get r env 1
      let name ← liftP (apiName n)
      k name (viaInterface v)
  if id == "apiLet" then two fun name v => do letVar name v; pure .invalid
  else if id == "apiSet" then two fun name v => do
    let ok ← setValue name v
    if ok then pure .invalid else errPlain "could not assign: variable is uninitialised"
  else if id == "apiSetOrLet" then two fun name v => do
    let ok ← setValue name v
    if ok then pure .invalid else do letVar name v; pure .invalid
  else if id == "apiLetGlobal" then two fun name v => do letGlobal name v; pure .invalid
  else if id == "apiResolve" then
    (if a.num != 1 then errPlain "unexpected number of arguments" else do
      let n ← a.get r env 0
      let name ← liftP (apiName n)
      match ← resolve env name with
      | some v => pure v
      | none => pure .invalid)
  else if id == "apiContext" then
    (if a.num != 0 then errPlain "unexpected number of arguments" else do
      let rt ← getRT
      pure rt.ctx)
  else if id == "apiYield" then
    (if a.num < 1 || a.num > 2 then errPlain "unexpected number of arguments" else do
      let n ← a.get r env 0
      let name ← liftP (apiName n)
      let ctx ← (if a.num == 2 then do let c ← a.get r env 1; pure (viaInterface c) else pure .invalid)
      yieldBlockApi r env name ctx
      pure .invalid)
  else if id == "recset" then recsetLoop r env a a.num 0 []
  else if id == "parse3" then parse3Func r env a
  else unsupported ("jet func " ++ id)

/-- a jet.Func built-in -/
def applyJetFunc (r : Rec) (env : Env) (id0 : String) (a : Args) : M Val :=
  let id := if id0 == "array" then "slice" else id0
  if id == "isset" then
    (if a.num < 1 then errPlain "unexpected number of arguments in a call to isset"
     else issetLoop r env a a.num 0)
  else if id == "len" then
    (if a.num != 1 then errPlain "unexpected number of arguments in a call to len" else do
      let v ← a.get r env 0
      liftP (lenOf v))
  else if id == "ints" then
    -- a.ParseInto(&from, &to)
    (if a.num > 2 then errPlain "have more arguments than pointers to parse into"
     else if a.num < 2 then unsupported "ints with fewer than two arguments"
     else do
      let f ← a.get r env 0
      let f ← liftP (parseIntoInt f)
      let t ← a.get r env 1
      let t ← liftP (parseIntoInt t)
      if t ≤ f then errPlain "invalid range for ints ranger" else pure (.intsRanger f t))
  else if id == "slice" then sliceLoop r env a a.num 0 []
  else if id == "map" then
    (if a.num % 2 > 0 then errPlain "map(): incomplete key-value pair" else mapLoop r env a a.num 0 [])
  else if id == "exec" then execBuiltin r env true a
  else if id == "includeIfExists" then execBuiltin r env false a
  else if id == "rec" then do
    -- harness recorder: logs the number of arguments, then evaluates each in order
    logE (.call "rec" a.num)
    recLoop r env a a.num 0 []
  else applyApiFunc r env id a
where
  /-- the `len` built-in on an evaluated argument -/
  lenOf (v : Val) : P Val :=
    if !v.isValid then errPlain "len(): argument is not a valid value" else
    let v := match v with
      | .ptr _ (some x) => x
      | .iface x => x
      | x => x
    match v with
    | .str s => pure (.int s.length)
    | .bytes s => pure (.int s.length)
    | .slice es _ _ => pure (.int es.length)
    | .smap es _ _ => pure (.int es.length)
    | .struct tn fs =>
      -- reflect.Value.NumField counts unexported fields too: the zoo's T1 has one (`hidden`)
      pure (.int (if tn == "T1" then fs.length + 1 else fs.length))
    | .opaque _ | .hidden _ | .errv _ _ | .intsRanger _ _ => unsupported "len"
    | .invalid | .ptr _ none => errPlain "reflect: call of reflect.Value.Type on zero Value"
    | _ => errPlain "len(): invalid value type"

/-- `evalPipeCallExpression`: `.error` is the error it *returns* (positioned by the caller);
    a failure inside the called function is a panic and propagates unpositioned. -/
def callValue (r : Rec) (env : Env) (fn : Val) (a : Args) : M (Except String Val) :=
  match fn with
  | .invalid => pure (.error "base of call expression is invalid value")
  | .jfunc id => do let v ← applyJetFunc r env id a; pure (.ok v)
  | .func id =>
    match goFuncSig id with
    | none => unsupported ("signature of " ++ id)
    | some sig => do
      match ← evaluateArgs r env sig a with
      | .error m => pure (.error ("call expression: " ++ m))
      | .ok args => do
        let (v, logs) ← liftP (applyGoFunc id args)
        modifyRT fun rt => { rt with log := logs.reverse ++ rt.log }
        pure (.ok (Val.indirectEface v))   -- `return indirectEface(returns[0]), nil`
  | .method name recv =>
    match methodSig name with
    | none => unsupported ("signature of method " ++ name)
    | some sig => do
      match ← evaluateArgs r env sig a with
      | .error m => pure (.error ("call expression: " ++ m))
      | .ok args => do
        let v ← liftP (applyMethod name recv args)
        pure (.ok (Val.indirectEface v))
  | .swriter _ => unsupported "SafeWriter called as a plain function"
  | _ => crash "unreachable: call of non-func"

/-- `ret, err := st.evalCallExpression(...); if err != nil { node.error(err) }` -/
def callAt (r : Rec) (env : Env) (loc : Loc) (fn : Val) (a : Args) : M Val := do
  match ← callValue r env fn a with
  | .ok v => pure v
  | .error m => errAt loc m

def kindIsFunc (v : Val) : Bool :=
  match v with
  | .func _ | .jfunc _ | .swriter _ | .method _ _ => true
  | _ => false

/-- positions an error that a helper *returned* (`node.error(err)`) -/
def locateP (loc : Loc) {α} (p : P α) : P α :=
  match p with
  | .error (.err e) => if e.located then .error (.err e) else .error (.err { e with located := true, loc := loc })
  | x => x

def evalFieldPath (loc : Loc) : Val → List Bytes → P Val
  | v, [] => pure v
  | v, f :: rest =>
    match resolveIndex v .invalid (some f) with
    | .error (.err e) => .error (.err { e with located := true, loc := loc })
    | .error x => .error x
    | .ok x => if !x.isValid then errAt loc "there is no field or method" else evalFieldPath loc x rest

/-- `evalChainNodeExpression` (errors are returned, positioned by the caller) -/
def evalChainFields (base : Val) : List Bytes → P Val
  | [] => pure base
  | [f] => do
    let x ← resolveIndex base .invalid (some f)
    if !x.isValid then
      (match (indirect 8 base).1 with
       | .smap _ _ _ => pure .invalid
       | _ => errPlain "there is no field or method")
    else pure x
  | f :: rest => do
    let x ← resolveIndex base .invalid (some f)
    if !x.isValid then errPlain "there is no field or method" else evalChainFields x rest

/-- `evalPrimaryExpressionGroup` / `evalBaseExpressionGroup` -/
def evalExprF (r : Rec) (env : Env) (e : Expr) : M Val :=
  match e with
  | .nilLit _ => pure .invalid
  | .boolLit _ t => pure (.bool t)
  | .strLit _ s => pure (.str s)
  | .numLit loc isInt isUint isFloat i u f =>
    if isFloat then pure (.float f)
    else if isInt then pure (.int i)
    else if isUint then pure (.uint u)
    else errAt loc "unexpected node type in unary expression evaluating"
  | .ident loc name => do
    match ← resolve env name with
    | some v => pure v
    | none => errAt loc "identifier not available"
  | .field loc names => do
    let rt ← getRT
    liftP (evalFieldPath loc rt.ctx names)
  | .chain loc base fields => do
    let bv ← r.evalExpr env base
    liftP (locateP loc (evalChainFields bv fields))
  | .underscore loc => errAt loc "unexpected node type in unary expression evaluating"
  | .add loc isPlus l rgt => do
    match l with
    | none => do
      let rv ← r.evalExpr env rgt
      liftP (locateP rgt.loc (evalAdditive loc loc rgt.loc isPlus none rv))
    | some le => do
      let lv ← r.evalExpr env le
      let rv ← r.evalExpr env rgt
      liftP (locateP rgt.loc (evalAdditive loc le.loc rgt.loc isPlus (some lv) rv))
  | .mul _ op l rgt => do
    let lv ← r.evalExpr env l
    let rv ← r.evalExpr env rgt
    liftP (locateP rgt.loc (evalMultiplicative l.loc rgt.loc op lv rv))
  | .cmp _ isNeq l rgt => do
    let lv ← r.evalExpr env l
    let rv ← r.evalExpr env rgt
    let eq ← liftP (checkEquality lv rv)
    pure (.bool (if isNeq then !eq else eq))
  | .numcmp _ op l rgt => do
    let lv ← r.evalExpr env l
    let rv ← r.evalExpr env rgt
    liftP (locateP rgt.loc (evalNumericComparative l.loc op lv rv))
  | .logic _ isAnd l rgt => do
    let lv ← r.evalExpr env l
    let lt ← liftOpt "isTrue" (Val.isTrue lv)
    if isAnd then
      (if !lt then pure (.bool false) else do
        let rv ← r.evalExpr env rgt
        let t ← liftOpt "isTrue" (Val.isTrue rv)
        pure (.bool t))
    else
      (if lt then pure (.bool true) else do
        let rv ← r.evalExpr env rgt
        let t ← liftOpt "isTrue" (Val.isTrue rv)
        pure (.bool t))
  | .not _ x => do
    let v ← r.evalExpr env x
    let t ← liftOpt "isTrue" (Val.isTrue v)
    pure (.bool (!t))
  | .ternary _ c l rgt => do
    let cv ← r.evalExpr env c
    let t ← liftOpt "isTrue" (Val.isTrue cv)
    if t then r.evalExpr env l else r.evalExpr env rgt
  | .call loc base args _ hasSlot => do
    let fv ← r.evalExpr env base
    match fv with
    | .opaque _ => unsupported "call of opaque"
    | _ =>
    if !kindIsFunc fv then
      errAt loc "node is not func kind"
    else callAt r env loc fv { exprs := args, hasSlot := hasSlot, piped := none }
  | .index loc base idx => do
    let bv ← r.evalExpr env base
    let iv ← r.evalExpr env idx
    liftP (locateP loc (resolveIndex bv iv none))
  | .slice loc base i j => do
    let bv ← r.evalExpr env base
    -- only strings, slices (and arrays, outside the model) can be sliced: checked before the bounds are evaluated
    (match bv with
      | .slice _ _ _ | .str _ | .bytes _ => pure ()
      | .opaque _ | .hidden _ | .errv _ _ | .intsRanger _ _ => unsupported "slice of this kind"
      | _ => errAt base.loc "cannot slice")
    let numOf (x : Expr) : M Int := do
      let v ← r.evalExpr env x
      match v with
      | .int n => pure n
      | .uint n => pure (Val.wrapI n)
      | .float f => liftOpt "int64(float)" (floatToInt f)
      | .opaque _ | .hidden _ => unsupported "slice index"
      | _ => errAt x.loc "non numeric value in index expression"
    let lo ← (match i with
      | some x => numOf x
      | none => pure 0)
    let lenOf : M Nat := match bv with
      | .slice es _ _ => pure es.length
      | .str s => pure s.length
      | .bytes s => pure s.length
      | _ => crash "unreachable: length of a value that cannot be sliced"
    let hi ← (match j with
      | some x => numOf x
      | none => do let n ← lenOf; pure (n : Int))
    let n ← lenOf
    if lo < 0 ∨ hi < lo ∨ hi > n then errAt loc "slice bounds out of range"
    else match bv with
      | .slice es ifc nl => pure (.slice ((es.drop lo.toNat).take (hi - lo).toNat) ifc (nl && false))
      | .str s => pure (.str ((s.drop lo.toNat).take (hi - lo).toNat))
      | .bytes s => pure (.bytes ((s.drop lo.toNat).take (hi - lo).toNat))
      | _ => crash "unreachable: slice of a value that cannot be sliced"

/-- `notNil` on a value the model knows; values outside the model may be nil funcs, channels, ... -/
def notNilP (v : Val) : P Bool :=
  match v with
  | .opaque _ => unsupported "isset of a value outside the model"
  | v => pure (Val.notNil v)

def isSetFieldPath : Val → List Bytes → P Bool
  | _, [] => pure true
  | v, f :: rest => do
    let x ← resolveIndex v .invalid (some f)
    if !(← notNilP x) then pure false else isSetFieldPath x rest

/-- the body of `Runtime.isSet`, before its `recover()` -/
def isSetBody (r : Rec) (env : Env) (e : Expr) : M Bool :=
  match e with
  | .index _ base idx => do
    let b1 ← r.isSetE env base
    if !b1 then pure false else
    let b2 ← r.isSetE env idx
    if !b2 then pure false else
    let bv ← r.evalExpr env base
    let iv ← r.evalExpr env idx
    let x ← liftP (resolveIndex bv iv none)
    liftP (notNilP x)
  | .ident _ name => do
    match ← resolve env name with
    | some v => liftP (notNilP v)
    | none => pure false
  | .field _ names => do
    let rt ← getRT
    liftP (isSetFieldPath rt.ctx names)
  | .chain _ base fields => do
    let bv ← r.evalExpr env base
    let x ← liftP (evalChainFields bv fields)
    liftP (notNilP x)
  | _ => pure true

/-- Go's catch-all `recover()` in isSet: any panic means "not set"; the handler resets scope,
    context and content to their values at entry -/
def recoverFalse (m : M Bool) : M Bool := fun rt =>
  match m rt with
  | .err _ rt' => .ok false { rt' with scope := rt.scope, ctx := rt.ctx, content := rt.content }
  | .crash _ rt' => .ok false { rt' with scope := rt.scope, ctx := rt.ctx, content := rt.content }
  | x => x

/-- `Runtime.isSet` -/
def isSetF (r : Rec) (env : Env) (e : Expr) : M Bool := recoverFalse (isSetBody r env e)

/-! #### statements -/

/-- `executeSet(left, right)` -/
def executeSet (r : Rec) (env : Env) (left : Expr) (right : Val) : M Unit :=
  match left with
  | .ident loc name => do
    let okSet ← setValue name right
    if okSet then pure () else errAt loc "could not assign because variable is uninitialised"
  | .chain _ _ _ | .field _ _ => unsupported "assignment through a field (mutates Go data)"
  | _ => do let _ ← r.evalExpr env left; crash "interface conversion in executeSet"

def leftName : Expr → Option Bytes
  | .ident _ n => some n
  | _ => none

def assignOne (r : Rec) (env : Env) (isLet : Bool) (l : Expr) (v : Val) : M Unit :=
  if isUnderscore l then pure ()
  else if isLet then
    match leftName l with
    | some n => letVar n v
    | none => crash "interface conversion: not *IdentifierNode"
  else executeSet r env l v

def assignLoop (r : Rec) (env : Env) (isLet : Bool) : List Expr → List Expr → M Unit
  | [], _ => pure ()
  | l :: ls, rgt :: rs => do
    let v ← r.evalExpr env rgt
    assignOne r env isLet l v
    assignLoop r env isLet ls rs
  | _ :: _, [] => crash "index out of range [i] in assignment"

/-- `executeSetList` / `executeLetList` -/
def executeAssign (r : Rec) (env : Env) (s : SetN) : M Unit :=
  if s.lookup then
    match s.left, s.right with
    | [l0, l1], rgt :: _ => do
      let v ← r.evalExpr env rgt
      assignOne r env s.isLet l0 v
      assignOne r env s.isLet l1 (.bool v.isValid)
    | _, _ => crash "index out of range in lookup assignment"
  else assignLoop r env s.isLet s.left s.right

def safeWriterLoop (r : Rec) (env : Env) (sw : String) : List Expr → M Unit
  | [] => pure ()
  | e :: rest => do
    let v ← r.evalExpr env e
    printSafe sw v
    safeWriterLoop r env sw rest

/-- `evalSafeWriter(term, node, v...)` -/
def evalSafeWriter (r : Rec) (env : Env) (sw : String) (piped : Option Val) (args : List Expr) : M Unit := do
  match piped with
  | some v => printSafe sw v
  | none => pure ()
  safeWriterLoop r env sw args

/-- `evalCommandExpression` : (value, safeWriter) -/
def evalCommand (r : Rec) (env : Env) (c : Cmd) : M (Val × Bool) := do
  let term ← r.evalExpr env c.base
  if term.isValid && c.argsNonNil then
    match term with
    | .swriter sw => do
      evalSafeWriter r env sw none c.args
      pure (.invalid, true)
    | .opaque _ => unsupported "command on opaque"
    | _ =>
      if kindIsFunc term then do
        let v ← callAt r env c.base.loc term { exprs := c.args, hasSlot := c.hasSlot, piped := none }
        pure (v, false)
      else
        match c.args with
        | a0 :: _ => errAt a0.loc "command has arguments but is not a function"
        | [] => errAt c.base.loc "command is called but is not a function"
  else pure (term, false)

/-- `evalCommandPipeExpression` -/
def evalCommandPipe (r : Rec) (env : Env) (c : Cmd) (value : Val) : M (Val × Bool) := do
  let term ← r.evalExpr env c.base
  if !term.isValid then errAt c.loc "base expression of command pipe node is invalid value" else
  match term with
  | .opaque _ => unsupported "pipe command on opaque"
  | .swriter sw => do
    evalSafeWriter r env sw (some value) c.args
    pure (.invalid, true)
  | _ =>
    if !kindIsFunc term then errAt c.base.loc "pipe command must be a function" else do
    let v ← callAt r env c.base.loc term { exprs := c.args, hasSlot := c.hasSlot, piped := some value }
    pure (v, false)

def pipelineLoop (r : Rec) (env : Env) : Val × Bool → List Cmd → M (Val × Bool)
  | acc, [] => pure acc
  | acc, c :: cs =>
    if acc.2 then errAt c.loc "unexpected command, writer command should be the last command"
    else do
      let nxt ← evalCommandPipe r env c acc.1
      pipelineLoop r env nxt cs

/-- `evalPipelineExpression` -/
def evalPipeline (r : Rec) (env : Env) (p : Pipe) : M (Val × Bool) :=
  match p.cmds with
  | [] => crash "index out of range [0] with length 0"
  | c0 :: rest => do
    let first ← evalCommand r env c0
    pipelineLoop r env first rest

inductive RangerSt where
  | sliceR (rest : List Val) (i : Nat) (iface : Bool)
  | mapR (rest : List (Bytes × Val)) (iface : Bool)
  | intsR (i val to : Int)

/-- `ranger.Range()` : (index, value, end) -/
def rangerNext : RangerSt → (Val × Val × Bool) × RangerSt
  | .sliceR [] i f => ((.invalid, .invalid, true), .sliceR [] i f)
  | .sliceR (x :: xs) i f => ((.int i, if f then .iface x else x, false), .sliceR xs (i + 1) f)
  | .mapR [] f => ((.invalid, .invalid, true), .mapR [] f)
  | .mapR ((k, v) :: xs) f => ((.str k, if f then .iface v else v, false), .mapR xs f)
  | .intsR i val to =>
    let i' := i + 1
    let val' := val + 1
    ((.int i', .int val', val' == to), .intsR i' val' to)

/-- `getRanger(v)` -/
def getRanger (v : Val) : P RangerSt :=
  if !v.isValid then errPlain "can't range over invalid value" else
  match v with
  | .intsRanger f t => pure (.intsR (-1) (f - 1) t)
  | _ =>
    let (w, isNil) := indirect 8 v
    if isNil then errPlain "cannot range over nil pointer/interface" else
    match w with
    | .slice es f _ => pure (.sliceR es 0 f)
    | .smap es f _ => pure (.mapR (sortEntries es) f)     -- order abstracted: sorted on both sides
    | .opaque _ | .hidden _ | .errv _ _ => unsupported "ranger"
    | _ => errPlain "value is not rangeable"

def invokeContent (r : Rec) (env : Env) (c : Closure) (ctxE : Option Expr) : M Unit :=
  match c with
  | .mk body myscope mycontent =>
    withScopeContentD myscope mycontent (
      match ctxE with
      | some e => do
        let nv ← r.evalExpr env e
        withCtxND nv (do let _ ← r.execList env body; pure ())
      | none => do
        let _ ← r.execList env body
        pure ())

/-- `executeYieldBlock(node, block, blockParam, yieldParam, expression, content)` -/
def bindYieldParams (r : Rec) (env : Env) (nodeLoc : Loc) : List Param → M Unit
  | [] => pure ()
  | p :: ps => do
    match p.dflt with
    | none => errAt nodeLoc "missing name for block parameter"
    | some e => do
      let v ← r.evalExpr env e
      letVar p.name v
      bindYieldParams r env nodeLoc ps

def varInCurrentFrame (rt : RT) (name : Bytes) : Bool :=
  match rt.scope with
  | cur :: _ => match frameAt rt cur with
    | some f => match f.vars with
      | some vs => (alookup name vs).isSome
      | none => false
    | none => false
  | [] => false

def bindBlockParams (r : Rec) (env : Env) : List Param → M Unit
  | [] => pure ()
  | p :: ps => do
    let rt ← getRT
    if !varInCurrentFrame rt p.name then
      match p.dflt with
      | none => letVar p.name (.bool false)
      | some e => do
        let v ← r.evalExpr env e
        letVar p.name v
    bindBlockParams r env ps

/-- the part of executeYieldBlock after the parameter scope is set up -/
def yieldBody (r : Rec) (env : Env) (block : BlockN) (ctxE : Option Expr) (content : Option (List Stmt)) : M Unit := do
  let rt ← getRT
  let run : M Unit :=
    match ctxE with
    | some e => do
      let nv ← r.evalExpr env e
      withCtxND nv (do let _ ← r.execList env block.body; pure ())
    | none => do
      let _ ← r.execList env block.body
      pure ()
  match content with
  | some body => withContentND (some (.mk body rt.scope rt.content)) run
  | none => withContentND rt.content run

def executeYieldBlock (r : Rec) (env : Env) (nodeLoc : Loc) (block : BlockN)
    (blockParams yieldParams : List Param) (ctxE : Option Expr) (content : Option (List Stmt)) : M Unit :=
  let needNewScope := blockParams.length > 0 || yieldParams.length > 0
  if needNewScope then
    withNewScopeND (do
      bindYieldParams r env nodeLoc yieldParams
      bindBlockParams r env blockParams
      yieldBody r env block ctxE content)
  else yieldBody r env block ctxE content

/-- the runtime a try body starts from: a fresh buffer (`new(bytes.Buffer)`) is the destination -/
def tryStart (rt : RT) : RT :=
  { rt with nbufs := rt.nbufs + 1, writer := .buf rt.nbufs,
            sink := fun j => if j = rt.nbufs + 1 then [] else rt.sink j }

/-- what the deferred functions of executeTry do to the runtime a panic left behind: the writer is
    put back, and (the recover handler) scope, context and content are reset to their saved values -/
def tryReset (rt rt' : RT) : RT :=
  { rt' with writer := rt.writer, scope := rt.scope, ctx := rt.ctx, content := rt.content }

/-- the catch clause: runs once, with the error bound to its variable in a scope of its own -/
def tryCatch (r : Rec) (env : Env) (hasCatch : Bool) (catchVar : Option Bytes)
    (catchBody : Option (List Stmt)) (errVal : Val) : M Val :=
  if !hasCatch then pure .invalid
  else
    let run : M Val := match catchBody with
      | some l => r.execList env l
      | none => pure .invalid
    match catchVar with
    | some n => withNewScopeND (do letVar n errVal; run)
    | none => run

/-- `executeTry` -/
def executeTry (r : Rec) (env : Env) (body : List Stmt) (hasCatch : Bool) (catchVar : Option Bytes)
    (catchBody : Option (List Stmt)) : M Val := fun rt =>
  match r.execList env body (tryStart rt) with
  | .ok v rt' =>
    -- no panic: the buffered output is copied to the saved writer
    .ok v (appendTo { rt' with writer := rt.writer } rt.writer (rt'.sink (rt.nbufs + 1)).reverse)
  | .err e rt' => tryCatch r env hasCatch catchVar catchBody (.errv e.located e.loc) (tryReset rt rt')
  | .crash _ rt' => tryCatch r env hasCatch catchVar catchBody (.opaque "runtime.Error") (tryReset rt rt')
  | .fuel => .fuel
  | .unsupported w => .unsupported w

/-- `executeInclude` -/
def executeInclude (r : Rec) (env : Env) (loc : Loc) (nameE : Expr) (ctxE : Option Expr) : M Val := do
  let nameV ← r.evalExpr env nameE
  if !nameV.isValid then errAt loc "evaluating name of template to include: name is not a valid value" else
  let name ← (match nameV with
    | .str s => pure s
    | .opaque _ | .errv _ _ | .ptr _ _ | .struct _ _ => unsupported "include name kind (Stringer?)"
    | _ => errAt loc "evaluating name of template to include: unexpected expression type")
  let t ← liftP (locateP loc (getSibling env name loc.path))
  withNewScopeD (do
    setBlocks t.blocks
    let root ← liftOpt "extends chain too deep" (rootOf env 64 t)
    match ctxE with
    | some e => withCtxD (r.evalExpr env e) (r.execList env root.root)
    | none => r.execList env root.root)

/-- binds one range variable (`:=` declares in the loop scope, `=` assigns) -/
def rangeBind (r : Rec) (env : Env) (set : Option SetN) (slot : Option Nat) (v : Val) : M Unit :=
  match slot, set with
  | some k, some st =>
    match st.left[k]? with
    | some l =>
      if st.isLet then
        -- st.variables[node.Set.Left[k].String()] = v
        (match l with
         | .ident _ n => letVar n v
         | .underscore _ => letVar [95] v
         | _ => unsupported "range variable of non-identifier kind")
      else
        -- '_' discards, as in an assignment outside range (executeSetList skips it too)
        (match l with
         | .underscore _ => pure ()
         | _ => executeSet r env l v)
    | none => crash "index out of range"
  | _, _ => pure ()

/-- the `for !end && !ret.IsValid()` loop of a range, with its `else` branch -/
def rangeLoop (r : Rec) (env : Env) (set : Option SetN) (keySlot valSlot : Option Nat)
    (body : List Stmt) (els : Option (List Stmt)) : Nat → RangerSt → Bool → M Val
  | 0, _, _ => unsupported "range too long"
  | f + 1, st, first =>
    match rangerNext st with
    | ((idx, val, fin), st') =>
      if fin then
        (if first then
          match els with
          | some l => r.execList env l
          | none => pure .invalid
         else pure .invalid)
      else do
        rangeBind r env set keySlot idx
        rangeBind r env set valSlot val
        -- `if valVarSlot < 0 { st.context = rangeValue }`; Go puts the context back once, after the
        -- loop; nothing can observe it between two iterations, so it is put back per iteration here
        let ret ← (if valSlot.isNone then withCtxND (Val.indirectEface val) (r.execList env body)
                   else r.execList env body)
        if ret.isValid then pure ret else rangeLoop r env set keySlot valSlot body els f st' false

/-- everything of a range after its loop scope is set up; the context is put back afterwards
    (not deferred) -/
def rangeCore (r : Rec) (env : Env) (loc : Loc) (set : Option SetN) (expression : Val)
    (body : List Stmt) (els : Option (List Stmt)) : M Val := do
  let nLeft := match set with
    | some st => st.left.length
    | none => 0
  let rg ← liftP (locateP loc (getRanger expression))
  -- all modelled rangers provide an index
  let keySlot : Option Nat := if set.isSome then some 0 else none
  let valSlot : Option Nat := if set.isSome && nLeft > 1 then some 1 else none
  -- Go's loop shape: Range() is called once more after a body that returned; unobservable here
  rangeLoop r env set keySlot valSlot body els 100000 rg true

/-- the `NodeRange` case of executeList -/
def execRange (r : Rec) (env : Env) (loc : Loc) (set : Option SetN) (e : Option Expr)
    (body : List Stmt) (els : Option (List Stmt)) : M Val :=
  match set with
  | some st =>
    match st.right with
    | rgt :: _ => do
      let ex ← r.evalExpr env rgt
      if st.isLet then withNewScopeND (rangeCore r env loc set ex body els)
      else rangeCore r env loc set ex body els
    | [] => crash "index out of range [0] with length 0"
  | none =>
    match e with
    | some ex => do
      let v ← r.evalExpr env ex
      rangeCore r env loc set v body els
    | none => crash "nil expression in range"

/-- the assignment part of an action; the first `:=` of a list opens the list's let-scope
    (`st.newScope(); inNewScope = true; defer st.releaseScope()`).  Returns the new `inNewScope`. -/
def actionSet (r : Rec) (env : Env) (inNewScope : Bool) (set : Option SetN) : M Bool :=
  match set with
  | some st =>
    if st.isLet then
      if !inNewScope then do newScope; executeAssign r env st; pure true
      else do executeAssign r env st; pure true
    else do executeAssign r env st; pure inNewScope
  | none => pure inNewScope

/-- the pipeline part of an action: evaluate and render -/
def actionPipe (r : Rec) (env : Env) (pipe : Option Pipe) : M Unit :=
  match pipe with
  | some p => do
    let (v, safeWriter) ← evalPipeline r env p
    if !safeWriter && v.isValid then
      match v with
      | .hidden _ => pure ()        -- Renderer that renders nothing
      | .opaque _ => unsupported "print opaque"
      | _ => printEscaped env v
  | none => pure ()

/-- the two branches of an if: exactly one list is executed (or none, without else) -/
def ifBranches (r : Rec) (env : Env) (cond : Expr) (thn : List Stmt) (els : Option (List Stmt)) : M Val := do
  let cv ← r.evalExpr env cond
  let t ← liftOpt "isTrue" (Val.isTrue cv)
  if t then r.execList env thn
  else match els with
    | some l => r.execList env l
    | none => pure .invalid

/-- the `NodeIf` case of executeList -/
def execIf (r : Rec) (env : Env) (set : Option SetN) (cond : Expr) (thn : List Stmt)
    (els : Option (List Stmt)) : M Val :=
  match set with
  | some st =>
    if st.isLet then withNewScopeND (do executeAssign r env st; ifBranches r env cond thn els)
    else do executeAssign r env st; ifBranches r env cond thn els
  | none => ifBranches r env cond thn els

/-- the `NodeYield` case of executeList -/
def execYield (r : Rec) (env : Env) (loc : Loc) (name : Bytes) (params : Option (List Param))
    (ctxE : Option Expr) (content : Option (List Stmt)) (isContent : Bool) : M Unit :=
  if isContent then do
    let rt ← getRT
    match rt.content with
    | some c => invokeContent r env c ctxE
    | none => pure ()
  else do
    match ← getBlock name with
    | none => errAt loc "unresolved block"
    | some blk =>
      match params with
      | none => crash "nil pointer dereference (yield without parameter list)"
      | some ps => executeYieldBlock r env loc blk blk.params ps ctxE content

/-- the `NodeBlock` case of executeList: the most-derived definition of that name is rendered -/
def execBlock (r : Rec) (env : Env) (loc : Loc) (name : Bytes) (params : List Param)
    (ctxE : Option Expr) (body : List Stmt) (content : Option (List Stmt)) : M Unit := do
  match ← getBlock name with
  | some blk => executeYieldBlock r env blk.loc blk blk.params blk.params blk.ctx blk.content
  | none =>
    let blk : BlockN := { loc := loc, name := name, params := params, ctx := ctxE, body := body, content := content }
    executeYieldBlock r env blk.loc blk blk.params blk.params blk.ctx blk.content

/-- one statement of `executeList`; returns the value of a `return` it executed (invalid if none)
    and whether the list opened its let-scope -/
def execStmt (r : Rec) (env : Env) (inNewScope : Bool) (s : Stmt) : M (Val × Val × Bool) :=
  -- (ret, returnValueOverride, inNewScope'): `ret` is merged into returnValue only when valid;
  -- a `return` statement sets returnValue unconditionally (second component, `some`-like via flag)
  match s with
  | .text _ bts => do writeLit bts; pure (.invalid, .invalid, inNewScope)
  | .action _ set pipe => do
    let ins ← actionSet r env inNewScope set
    actionPipe r env pipe
    pure (.invalid, .invalid, ins)
  | .ifS _ set cond thn els => do
    let ret ← execIf r env set cond thn els
    pure (ret, .invalid, inNewScope)
  | .rangeS loc set e body els => do
    let ret ← execRange r env loc set e body els
    pure (ret, .invalid, inNewScope)
  | .tryS _ body hasCatch cv cb => do
    let ret ← executeTry r env body hasCatch cv cb
    pure (ret, .invalid, inNewScope)
  | .yield loc name params ctxE content isContent => do
    execYield r env loc name params ctxE content isContent
    pure (.invalid, .invalid, inNewScope)
  | .block loc name params ctxE body content => do
    execBlock r env loc name params ctxE body content
    pure (.invalid, .invalid, inNewScope)
  | .include loc nameE ctxE => do
    let ret ← executeInclude r env loc nameE ctxE
    pure (ret, .invalid, inNewScope)
  | .ret _ e => do
    let v ← r.evalExpr env e
    pure (.invalid, v, inNewScope)

/-- did this (failing) action statement register the list's deferred releaseScope before it
    failed?  It does so right after `st.newScope()`, before evaluating the right-hand sides. -/
def stmtOpensLet (s : Stmt) : Bool :=
  match s with
  | .action _ (some st) _ => st.isLet
  | _ => false

def isReturnStmt : Stmt → Bool
  | .ret _ _ => true
  | _ => false

/-- the statement loop of `executeList`; `inNewScope` = the list has opened its let-scope (and
    registered the deferred releaseScope) -/
def execListGo (r : Rec) (env : Env) : List Stmt → Val → Bool → M (Val × Bool)
  | [], returnValue, inNewScope => pure (returnValue, inNewScope)
  | s :: rest, returnValue, inNewScope => fun rt =>
    match execStmt r env inNewScope s rt with
    | .ok (ret, rv, ins) rt' =>
      let returnValue' := if isReturnStmt s then rv else if ret.isValid then ret else returnValue
      execListGo r env rest returnValue' ins rt'
    | .err e rt' =>
      -- the panic unwinds through this list: its deferred releaseScope runs if it was registered
      .err e (if inNewScope || stmtOpensLet s then popScope rt' else rt')
    | .crash m rt' =>
      .crash m (if inNewScope || stmtOpensLet s then popScope rt' else rt')
    | .fuel => .fuel
    | .unsupported w => .unsupported w

/-- `executeList`: the let-scope opened by the first `:=` of a list is released by a `defer` -/
def execListF (r : Rec) (env : Env) (l : List Stmt) : M Val := fun rt =>
  match execListGo r env l .invalid false rt with
  | .ok (v, ins) rt' => .ok v (if ins then popScope rt' else rt')
  | .err e rt' => .err e rt'
  | .crash m rt' => .crash m rt'
  | .fuel => .fuel
  | .unsupported w => .unsupported w

def stepRec (r : Rec) : Rec :=
  { evalExpr := evalExprF r, execList := execListF r, isSetE := isSetF r }

def recAt : Nat → Rec
  | 0 => Rec.bottom
  | n + 1 => stepRec (recAt n)

/-! ### Template.Execute -/

inductive Outcome where
  | ok (out : List Chunk) (log : List LogE)
  | err (e : Err) (out : List Chunk) (log : List LogE)
  | crash (msg : String) (out : List Chunk)
  | fuel
  | unsupported (what : String)

/-- `Template.Execute(w, variables, data)`: the pooled runtime after `recover` has a fresh empty
    scope, no context, no content; Execute installs blocks, variables (nil ↦ empty), writer. -/
def initRT (t : Tmpl) (vars : List (Bytes × Val)) (data : Val) : RT :=
  { frames := [{ vars := some vars, blocks := t.blocks }], scope := [0], ctx := data,
    content := none, writer := .top }

def execute (fuel : Nat) (env : Env) (t : Tmpl) (vars : List (Bytes × Val)) (data : Val) : Outcome :=
  match rootOf env 64 t with
  | none => .unsupported "extends chain"
  | some root =>
    match (recAt fuel).execList env root.root (initRT t vars data) with
    | .ok _ rt => .ok (rt.sink 0).reverse rt.log.reverse
    | .err e rt => .err e (rt.sink 0).reverse rt.log.reverse
    | .crash m rt => .crash m (rt.sink 0).reverse
    | .fuel => .fuel
    | .unsupported w => .unsupported w

end JetVerif.Eval
