/-
  Model of eval.go `buildCache`: the per-struct-type table  field name -> index path  that
  `resolveIndex` uses for `a.b` / `a["b"]` on structs (promoted fields of embedded structs included).
  A struct type is a list of fields; an anonymous field of struct kind carries its own fields.
-/
import JetVerif.Model.Eval

namespace JetVerif.StructCache
open JetVerif JetVerif.Eval

/-- reflect.StructField, as far as buildCache looks: Name, PkgPath == "", Anonymous,
    Type.Kind() == Struct, and that struct's fields -/
inductive F where
  | mk (name : Bytes) (exported anonymous isStruct : Bool) (sub : List F)
  deriving Inhabited

def F.name : F → Bytes | .mk n _ _ _ _ => n
def F.exported : F → Bool | .mk _ e _ _ _ => e
def F.anonymous : F → Bool | .mk _ _ a _ _ => a
def F.isStruct : F → Bool | .mk _ _ _ s _ => s
def F.sub : F → List F | .mk _ _ _ _ s => s

abbrev Cache := List (Bytes × List Nat)

/-- the `if old, ok := cache[name]; !ok || len(index) < len(old)` update -/
def put (name : Bytes) (index : List Nat) (c : Cache) : Cache :=
  match alookup name c with
  | some old => if index.length < old.length then aset name index c else c
  | none => aset name index c

/-- the `for i := 0; i < numFields; i++` loop; `descend` is the recursive call on an embedded struct -/
def loop (descend : List F → List Nat → Cache → Cache) (parent : List Nat) : Nat → List F → Cache → Cache
  | _, [], c => c
  | i, f :: rest, c =>
    let index := parent ++ [i]
    if !f.exported then loop descend parent (i + 1) rest c
    else
      let c1 := if f.anonymous && f.isStruct then descend f.sub index c else c
      loop descend parent (i + 1) rest (put f.name index c1)

/-- `buildCache(typ, cache, parent)`; fuel bounds the embedding depth -/
def build : Nat → List F → List Nat → Cache → Cache
  | 0, _, _, c => c
  | n + 1, fs, parent, c => loop (build n) parent 0 fs c

def buildCache (fs : List F) : Cache := build 64 fs [] []

end JetVerif.StructCache
