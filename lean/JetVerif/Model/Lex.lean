/-
  Model of lex.go: one Lean function per Go function, same cursor arithmetic (`pos`,
  `start`, `width` are Go `int`s here `Int`), every slice / index that can panic in Go is a
  checked operation that yields `crash` (what a panic in the lexer goroutine is: the death of
  the process).  The single-rune switch, two-rune operators, keyword map, terminator set and
  the two sign-exclusion lists are *imported from Generated/Facts* (tie A).

  Ghost data: every `emit` and every `ignore` appends an event `(kind, start, pos)` so that C03
  can speak about what the lexer dropped.  The ignore *kinds* are ghost labels of the five
  `l.ignore()` call sites of lex.go.
-/
import JetVerif.Model.Utf8
import JetVerif.Model.Tok

namespace JetVerif.Lex
open JetVerif.Utf8

structure Delims where
  left : Bytes
  right : Bytes
  lcomment : Bytes
  rcomment : Bytes
  trimRight : Bytes
  deriving Repr, DecidableEq

def bytesOf (l : List Char) : Bytes := l.map (fun c => c.toNat.toUInt8)

def leftTrimMarker : Bytes := [45, 32]   -- "- "
def rightTrimMarker : Bytes := [32, 45]  -- " -"

def defaultDelims : Delims :=
  { left := [123, 123], right := [125, 125], lcomment := [123, 42], rcomment := [42, 125],
    trimRight := rightTrimMarker ++ [125, 125] }

/-- `lex()` followed by `setDelimiters` / `setCommentDelimiters` (parse.go:226-228): an empty
    argument keeps the default. -/
def mkDelims (l r lc rc : Bytes) : Delims :=
  let right := if r = [] then defaultDelims.right else r
  { left := if l = [] then defaultDelims.left else l
    right := right
    lcomment := if lc = [] then defaultDelims.lcomment else lc
    rcomment := if rc = [] then defaultDelims.rcomment else rc
    trimRight := rightTrimMarker ++ right }

inductive IgnKind where
  | trimLeft    -- lexText: whitespace run before a `{{- ` action
  | markLeft    -- lexLeftDelim: the "- " marker
  | comment     -- lexComment: the whole comment
  | markRight   -- lexRightDelim: the " -" marker (and any pending space before it)
  | trimRight   -- lexRightDelim: whitespace run after a ` -}}`
  deriving Repr, DecidableEq

inductive Event where
  | emit (t : Tok) (a b : Int) (val : Bytes)
  | ignore (k : IgnKind) (a b : Int)
  | err (at_ : Int) (msg : String)
  deriving Repr, DecidableEq

structure St where
  input : Bytes
  d : Delims
  pos : Int := 0
  start : Int := 0
  width : Int := 0
  lastType : Tok := Tok.error
  parenDepth : Int := 0
  events : List Event := []   -- most recent first
  deriving Repr

inductive Res (α : Type) where
  | ok (a : α) (s : St)
  | crash (msg : String) (s : St)

abbrev M (α : Type) := St → Res α

instance : Monad M where
  pure a := fun s => .ok a s
  bind m f := fun s => match m s with
    | .ok a s' => f a s'
    | .crash msg s' => .crash msg s'

def get : M St := fun s => .ok s s
def modify (f : St → St) : M Unit := fun s => .ok () (f s)
def crash {α} (msg : String) : M α := fun s => .crash msg s

/-! ### Go slicing -/

/-- `s[a:]` -/
def sliceFrom (s : Bytes) (a : Int) : Option Bytes :=
  if 0 ≤ a ∧ a ≤ s.length then some (s.drop a.toNat) else none

/-- `s[a:b]` -/
def slice (s : Bytes) (a b : Int) : Option Bytes :=
  if 0 ≤ a ∧ a ≤ b ∧ b ≤ s.length then some ((s.drop a.toNat).take (b - a).toNat) else none

def restAt (at_ : Int) : M Bytes := fun s =>
  match sliceFrom s.input at_ with
  | some r => .ok r s
  | none => .crash "slice bounds out of range" s

def hasPrefix : Bytes → Bytes → Bool
  | _, [] => true
  | [], _ :: _ => false
  | a :: as, b :: bs => a == b && hasPrefix as bs

/-- `strings.IndexByte`: `none` = -1 -/
def indexByte : Bytes → UInt8 → Option Nat
  | [], _ => none
  | a :: as, c => if a == c then some 0 else (indexByte as c).map (· + 1)

/-- `strings.Index` -/
def indexOf : Bytes → Bytes → Option Nat
  | [], sep => if sep = [] then some 0 else none
  | a :: as, sep => if hasPrefix (a :: as) sep then some 0 else (indexOf as sep).map (· + 1)

/-- number of trailing space bytes: `rightTrimLength` -/
def rightTrimLength (s : Bytes) : Nat := (s.reverse.takeWhile isSpaceByte).length
/-- number of leading space bytes: `leftTrimLength` -/
def leftTrimLength (s : Bytes) : Nat := (s.takeWhile isSpaceByte).length

/-! ### lexer primitives -/

/-- `l.next()`; `none` = eof -/
def next : M (Option Nat) := fun s =>
  if s.pos ≥ s.input.length then .ok none { s with width := 0 }
  else match sliceFrom s.input s.pos with
    | none => .crash "slice bounds out of range" s
    | some rest =>
      let (r, w) := decodeRune rest
      .ok (some r) { s with width := w, pos := s.pos + w }

def backup : M Unit := modify fun s => { s with pos := s.pos - s.width }

def peek : M (Option Nat) := do
  let r ← next
  backup
  pure r

def emit (t : Tok) : M Unit := fun s =>
  match slice s.input s.start s.pos with
  | none => .crash "slice bounds out of range" s
  | some v => .ok () { s with lastType := t, start := s.pos,
                               events := Event.emit t s.start s.pos v :: s.events }

def ignore (k : IgnKind) : M Unit := modify fun s =>
  { s with start := s.pos, events := Event.ignore k s.start s.pos :: s.events }

inductive StateId where
  | text | leftDelim | comment | rightDelim | insideAction | space | identifier | field
  | char | number | quote | rawQuote
  deriving Repr, DecidableEq

/-- `l.errorf`: sends an error item positioned at `start` and ends the scan -/
def errorf (msg : String) : M (Option StateId) := fun s =>
  .ok none { s with events := Event.err s.start msg :: s.events }

def runeIn (valid : List Nat) : Option Nat → Bool
  | none => false
  | some r => valid.contains r

def accept (valid : List Nat) : M Bool := do
  let r ← next
  if runeIn valid r then pure true else do backup; pure false

def acceptRunLoop (valid : List Nat) : Nat → M Unit
  | 0 => crash "out of fuel"
  | fuel + 1 => do
    let r ← next
    if runeIn valid r then acceptRunLoop valid fuel else backup

def fuelOf (s : St) : Nat := s.input.length + 2

def acceptRun (valid : List Nat) : M Unit := do
  let s ← get
  acceptRunLoop valid (fuelOf s)

/-- `l.atRightDelim()` : (delim, trimSpaces) -/
def atRightDelim : M (Bool × Bool) := do
  let s ← get
  let rest ← restAt s.pos
  if hasPrefix rest s.d.trimRight then pure (true, true)
  else if hasPrefix rest s.d.right then pure (true, false)
  else pure (false, false)

def atTerminator : M Bool := do
  let r ← peek
  let s ← get
  if isSpace r then pure true
  else match r with
    | none => pure Facts.terminatorEOF
    | some c =>
      if Facts.terminatorChars.contains c then pure true
      else
        let (rd, _) := decodeRune s.d.right
        pure (rd == c)

/-! ### state functions -/

def firstByte (b : Bytes) : M UInt8 :=
  match b with
  | c :: _ => pure c
  | [] => crash "index out of range [0] with length 0"

/-- the index selection at the top of lexText's loop (lex.go:304-308) -/
def textScanIndex (rest : Bytes) (ld lc : UInt8) : Option Nat :=
  let i := indexByte rest ld
  let ic := indexByte rest lc
  match ic, i with
  | some c, some k => if c < k then some c else some k
  | some c, none => some c
  | none, k => k

def lexTextLoop : Nat → M (Option StateId)
  | 0 => crash "out of fuel"
  | fuel + 1 => do
    let s ← get
    let rest ← restAt s.pos
    let ld ← firstByte s.d.left
    let lc ← firstByte s.d.lcomment
    match textScanIndex rest ld lc with
    | none =>
      modify fun s => { s with pos := s.input.length }
      lexTextEnd
    | some i =>
      modify fun s => { s with pos := s.pos + i }
      let s ← get
      let rest ← restAt s.pos
      if hasPrefix rest s.d.left then
        let ldn : Int := s.d.left.length
        let after ← restAt (s.pos + ldn)
        let trimLength : Int ←
          (if hasPrefix after leftTrimMarker then
            match slice s.input s.start s.pos with
            | some seg => pure (rightTrimLength seg : Int)
            | none => crash "slice bounds out of range"
          else pure 0)
        modify fun s => { s with pos := s.pos - trimLength }
        let s ← get
        if s.pos > s.start then emit Tok.text
        modify fun s => { s with pos := s.pos + trimLength }
        ignore IgnKind.trimLeft
        pure (some StateId.leftDelim)
      else if hasPrefix rest s.d.lcomment then
        if s.pos > s.start then emit Tok.text
        pure (some StateId.comment)
      else do
        let r ← next
        if r.isNone then lexTextEnd else lexTextLoop fuel
where
  lexTextEnd : M (Option StateId) := do
    let s ← get
    if s.pos > s.start then emit Tok.text
    emit Tok.eof
    pure none

def lexText : M (Option StateId) := do
  let s ← get
  lexTextLoop (fuelOf s)

def lexLeftDelim : M (Option StateId) := do
  modify fun s => { s with pos := s.pos + s.d.left.length }
  emit Tok.leftDelim
  let s ← get
  let rest ← restAt s.pos
  if hasPrefix rest leftTrimMarker then
    modify fun s => { s with pos := s.pos + 2 }
    ignore IgnKind.markLeft
  modify fun s => { s with parenDepth := 0 }
  pure (some StateId.insideAction)

def lexComment : M (Option StateId) := do
  modify fun s => { s with pos := s.pos + s.d.lcomment.length }
  let s ← get
  let rest ← restAt s.pos
  match indexOf rest s.d.rcomment with
  | none => errorf "unclosed comment"
  | some i =>
    modify fun s => { s with pos := s.pos + i + s.d.rcomment.length }
    ignore IgnKind.comment
    pure (some StateId.text)

def lexRightDelim : M (Option StateId) := do
  let s ← get
  let rest ← restAt s.pos
  let trimSpace := hasPrefix rest s.d.trimRight
  if trimSpace then
    modify fun s => { s with pos := s.pos + 2 }
    ignore IgnKind.markRight
  modify fun s => { s with pos := s.pos + s.d.right.length }
  emit Tok.rightDelim
  if trimSpace then
    let s ← get
    let rest ← restAt s.pos
    modify fun s => { s with pos := s.pos + leftTrimLength rest }
    ignore IgnKind.trimRight
  pure (some StateId.text)

def tokOf (name : String) : Tok := (Tok.ofName name).getD Tok.error

def singleTok (c : Nat) : Option Tok :=
  (Facts.singleCharToks.find? (fun p => p.1 == c)).map (fun p => tokOf p.2)

def twoTok (c : Nat) : Option (Nat × Tok × Option Tok) :=
  (Facts.twoCharToks.find? (fun p => p.1 == c)).map
    (fun p => (p.2.1, tokOf p.2.2.1, if p.2.2.2 == "" then none else some (tokOf p.2.2.2)))

def isDigitRune (r : Option Nat) : Bool :=
  match r with
  | some c => 48 ≤ c && c ≤ 57
  | none => false

/-- the `-` / `+` arms: a sign directly followed by a digit starts a number unless the
    previous token is in the exclusion list (regenerated from lex.go) -/
def signArm (excl : List String) (opTok : Tok) : M (Option StateId) := do
  let r ← peek
  let s ← get
  if isDigitRune r && !(excl.contains s.lastType.name) then
    backup
    pure (some StateId.number)
  else
    emit opTok
    pure (some StateId.insideAction)

def lexInsideAction : M (Option StateId) := do
  let (delim, _) ← atRightDelim
  let s ← get
  if delim then
    if s.parenDepth == 0 then pure (some StateId.rightDelim)
    else errorf "unclosed left parenthesis"
  else
    let r ← next
    match r with
    | none => errorf "unclosed action"
    | some c =>
      if isSpace r then pure (some StateId.space)
      else if c == 45 then signArm Facts.minusExcl (tokOf Facts.minusTok)
      else if c == 43 then signArm Facts.plusExcl (tokOf Facts.plusTok)
      else match singleTok c with
      | some t => do emit t; pure (some StateId.insideAction)
      | none =>
      match twoTok c with
      | some (d, both, single) => do
        let r2 ← next
        if r2 == some d then emit both
        else
          backup
          match single with
          | some t => emit t
          | none => pure ()
        pure (some StateId.insideAction)
      | none =>
      if c == 34 then pure (some StateId.quote)
      else if c == 96 then pure (some StateId.rawQuote)
      else if c == 39 then pure (some StateId.char)
      else if c == 46 then do
        -- special look-ahead for ".field"
        let s ← get
        let fieldStart : Bool :=
          if s.pos < s.input.length then
            match sliceFrom s.input s.pos with
            | some (b :: _) => b < 48 || 57 < b
            | _ => false
          else false
        if fieldStart then pure (some StateId.field)
        else do backup; pure (some StateId.number)
      else if 48 ≤ c && c ≤ 57 then do backup; pure (some StateId.number)
      else if c == 95 then do
        let p ← peek
        if !isAlphaNumeric p then do emit Tok.underscore; pure (some StateId.insideAction)
        else pure (some StateId.identifier)   -- no backup: width is the peeked rune's
      else if isAlphaNumeric r then do backup; pure (some StateId.identifier)
      else if c == 40 then do
        emit Tok.leftParen
        modify fun s => { s with parenDepth := s.parenDepth + 1 }
        pure (some StateId.insideAction)
      else if c == 41 then do
        emit Tok.rightParen
        modify fun s => { s with parenDepth := s.parenDepth - 1 }
        let s ← get
        if s.parenDepth < 0 then errorf "unexpected right paren"
        else pure (some StateId.insideAction)
      else if 32 ≤ c && c ≤ 126 then do emit Tok.char; pure (some StateId.insideAction)
      else errorf "unrecognized character in action"

def lexSpaceLoop : Nat → Nat → M Nat
  | 0, _ => crash "out of fuel"
  | fuel + 1, n => do
    let r ← peek
    if isSpace r then do let _ ← next; lexSpaceLoop fuel (n + 1)
    else pure n

def lexSpace : M (Option StateId) := do
  let s ← get
  let numSpaces ← lexSpaceLoop (fuelOf s) 0
  let s ← get
  let rest ← restAt (s.pos - 1)
  let goRight ← (if hasPrefix rest s.d.trimRight then do
      backup
      pure (numSpaces == 1)
    else pure false)
  if goRight then pure (some StateId.rightDelim)
  else do
    emit Tok.space
    pure (some StateId.insideAction)

def keyTok (word : Bytes) : Option Tok :=
  (Facts.keywords.find? (fun p => p.1.toUTF8.toList == word)).map (fun p => tokOf p.2)

def wordTrue : Bytes := [116, 114, 117, 101]
def wordFalse : Bytes := [102, 97, 108, 115, 101]

def lexIdentifierLoop : Nat → M (Option StateId)
  | 0 => crash "out of fuel"
  | fuel + 1 => do
    let r ← next
    if isAlphaNumeric r then lexIdentifierLoop fuel
    else do
      backup
      let s ← get
      match slice s.input s.start s.pos with
      | none => crash "slice bounds out of range"
      | some word =>
        let term ← atTerminator
        if !term then errorf "bad character"
        else do
          let kw : Option Tok := match keyTok word with
            | some t => if t.code > Tok.keyword.code then some t else none
            | none => none
          (match kw with
            | some t => emit t
            | none =>
              match word with
              | [] => crash "index out of range [0] with length 0"
              | c :: _ =>
                if c == 46 then emit Tok.field
                else if word == wordTrue || word == wordFalse then emit Tok.bool
                else emit Tok.identifier)
          pure (some StateId.insideAction)

def lexIdentifier : M (Option StateId) := do
  let s ← get
  lexIdentifierLoop (fuelOf s)

def lexFieldLoop : Nat → M Unit
  | 0 => crash "out of fuel"
  | fuel + 1 => do
    let r ← next
    if isAlphaNumeric r then lexFieldLoop fuel else backup

def lexField : M (Option StateId) := do
  let t ← atTerminator
  if t then do
    emit Tok.identifier
    pure (some StateId.insideAction)
  else do
    let s ← get
    lexFieldLoop (fuelOf s)
    let t2 ← atTerminator
    if !t2 then errorf "bad character"
    else do
      emit Tok.field
      pure (some StateId.insideAction)

/-- shared shape of lexChar / lexQuote: scan to the closing `q`, a backslash escapes one rune -/
def quotedLoop (q : Nat) (t : Tok) (msg : String) : Nat → M (Option StateId)
  | 0 => crash "out of fuel"
  | fuel + 1 => do
    let r ← next
    match r with
    | none => errorf msg
    | some c =>
      if c == 92 then do
        let r2 ← next
        match r2 with
        | none => errorf msg
        | some c2 => if c2 == 10 then errorf msg else quotedLoop q t msg fuel
      else if c == 10 then errorf msg
      else if c == q then do emit t; pure (some StateId.insideAction)
      else quotedLoop q t msg fuel

def lexChar : M (Option StateId) := do
  let s ← get
  quotedLoop 39 Tok.charConstant "unterminated character constant" (fuelOf s)

def lexQuote : M (Option StateId) := do
  let s ← get
  quotedLoop 34 Tok.string "unterminated quoted string" (fuelOf s)

def rawQuoteLoop : Nat → M (Option StateId)
  | 0 => crash "out of fuel"
  | fuel + 1 => do
    let r ← next
    match r with
    | none => errorf "unterminated raw quoted string"
    | some c =>
      if c == 96 then do emit Tok.rawString; pure (some StateId.insideAction)
      else rawQuoteLoop fuel

def lexRawQuote : M (Option StateId) := do
  let s ← get
  rawQuoteLoop (fuelOf s)

def digits10 : List Nat := [48, 49, 50, 51, 52, 53, 54, 55, 56, 57]
def digits16 : List Nat := digits10 ++ [97, 98, 99, 100, 101, 102, 65, 66, 67, 68, 69, 70]

def scanNumber : M Bool := do
  let _ ← accept [43, 45]
  let z ← accept [48]
  let hex ← (if z then accept [120, 88] else pure false)
  let digits := if hex then digits16 else digits10
  acceptRun digits
  let dot ← accept [46]
  if dot then acceptRun digits
  let e ← accept [101, 69]
  if e then do
    let _ ← accept [43, 45]
    acceptRun digits10
  let _ ← accept [105]
  let p ← peek
  if isAlphaNumeric p then do
    let _ ← next
    pure false
  else pure true

def lexNumber : M (Option StateId) := do
  let okNum ← scanNumber
  if !okNum then errorf "bad number syntax"
  else do
    emit Tok.number
    pure (some StateId.insideAction)

def step : StateId → M (Option StateId)
  | .text => lexText
  | .leftDelim => lexLeftDelim
  | .comment => lexComment
  | .rightDelim => lexRightDelim
  | .insideAction => lexInsideAction
  | .space => lexSpace
  | .identifier => lexIdentifier
  | .field => lexField
  | .char => lexChar
  | .number => lexNumber
  | .quote => lexQuote
  | .rawQuote => lexRawQuote

inductive Outcome where
  | done (events : List Event)            -- oldest first
  | crash (msg : String) (events : List Event)
  | outOfFuel (events : List Event)
  deriving Repr

def runLoop : Nat → StateId → St → Outcome
  | 0, _, s => .outOfFuel s.events.reverse
  | fuel + 1, st, s =>
    match step st s with
    | .ok none s' => .done s'.events.reverse
    | .ok (some st') s' => runLoop fuel st' s'
    | .crash msg s' => .crash msg s'.events.reverse

/-- the lexer goroutine: `for l.state = lexText; l.state != nil; { l.state = l.state(l) }` -/
def lexRun (d : Delims) (input : Bytes) : Outcome :=
  runLoop (4 * input.length + 16) StateId.text { input := input, d := d }

/-- the items the parser receives -/
def tokensOf (evs : List Event) : List (Tok × Int × Bytes) :=
  evs.filterMap fun e => match e with
    | .emit t a _ v => some (t, a, v)
    | .err a msg => some (Tok.error, a, msg.toUTF8.toList)
    | .ignore _ _ _ => none

end JetVerif.Lex
