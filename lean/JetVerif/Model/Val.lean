/-
  The value domain of the evaluator model: what `reflect.Value` is to eval.go, restricted to
  the kinds the generators produce.  Keeps what the behaviour depends on: the *kind*
  (including `Interface`-kinded values as handed out by `Value.Index` / `MapIndex` on
  `interface{}` element types), validity, nil-ness, struct fields in order, map entries.

  Modelled (not verified) pieces of Go: `reflect` for these kinds, `fastprinter.PrintValue`,
  `fmt.Fprint` for flat composites, `text/template.HTMLEscape`, `strconv.ParseInt`.
-/
import JetVerif.Model.Ast

namespace JetVerif

inductive Val where
  | invalid                                   -- reflect.Value{}
  | bool (b : Bool)
  | int (i : Int)                             -- Go int / int64 (two's complement, 64 bit)
  | uint (u : Nat)                            -- uint64
  | float (bits : UInt64)                     -- float64 as its IEEE-754 bit pattern
  | str (s : Bytes)
  | bytes (s : Bytes)                         -- []byte
  | slice (elems : List Val) (iface : Bool) (isNil : Bool)
      -- []T; `iface` = T is interface{} (indexing yields Interface-kinded values)
  | smap (entries : List (Bytes × Val)) (iface : Bool) (isNil : Bool)   -- map[string]T
  | struct (tname : String) (fields : List (Bytes × Val))   -- exported fields, in order
  | ptr (tname : String) (tgt : Option Val)   -- *T; none = nil pointer
  | iface (inner : Val)                       -- Interface-kinded value; `iface invalid` = nil
  | func (id : String)                        -- a reflected Go func from the harness registry
  | jfunc (id : String)                       -- a jet.Func (built-in or registry)
  | swriter (id : String)                     -- a SafeWriter
  | hidden (b : Bool)                         -- default.go hiddenBool (a Renderer)
  | errv (located : Bool) (loc : Loc)         -- an error value (what `catch` binds)
  | intsRanger (frm to : Int)                 -- ranger.go *intsRanger fresh from ints(a,b)
  | method (name : String) (recv : Val)       -- a bound method value of a harness type (`reflect.Value.MethodByName`)
  | opaque (what : String)                    -- anything outside the modelled fragment
  deriving Repr, Inhabited

namespace Val

inductive Kind where
  | invalid | bool | int | uint | float | string | slice | map | struct | ptr | iface | func | other
  deriving Repr, DecidableEq

def kind : Val → Kind
  | .invalid => .invalid
  | .bool _ => .bool
  | .int _ => .int
  | .uint _ => .uint
  | .float _ => .float
  | .str _ => .string
  | .bytes _ => .slice
  | .slice _ _ _ => .slice
  | .smap _ _ _ => .map
  | .struct _ _ => .struct
  | .ptr _ _ => .ptr
  | .iface _ => .iface
  | .func _ | .jfunc _ | .swriter _ | .method _ _ => .func
  | .hidden _ => .bool
  | .errv _ _ => .ptr
  | .intsRanger _ _ => .ptr
  | .opaque _ => .other

def isValid : Val → Bool
  | .invalid => false
  | _ => true

/-- eval.go `indirectEface` -/
def indirectEface : Val → Val
  | .iface .invalid => .iface .invalid
  | .iface v => v
  | v => v

/-- eval.go `indirectInterface` (`v.Elem()` of an interface value; nil gives invalid) -/
def indirectInterface : Val → Val
  | .iface v => v
  | v => v

/-- two's-complement wrap to int64 -/
def wrapI (x : Int) : Int :=
  let m : Int := 18446744073709551616
  let y := x % m
  if y ≥ 9223372036854775808 then y - m else y

def wrapU (x : Int) : Nat := (x % 18446744073709551616).toNat

def floatIsZero (bits : UInt64) : Bool := bits == 0 || bits == 0x8000000000000000

/-- `reflect.Value.IsZero` on the modelled kinds (structs to a bounded depth); `none` = outside the
    fragment -/
def isZeroD : Nat → Val → Option Bool
  | _, .invalid => none   -- IsZero panics on an invalid Value; callers check IsValid first
  | _, .bool b => some (!b)
  | _, .int i => some (i == 0)
  | _, .uint u => some (u == 0)
  | _, .float b => some (floatIsZero b)
  | _, .str s => some s.isEmpty
  | _, .bytes _ => some false       -- generators only make non-nil []byte
  | _, .slice _ _ n => some n
  | _, .smap _ _ n => some n
  | 0, .struct _ _ => none
  | d + 1, .struct _ fs => fs.foldl (fun acc f => match acc, isZeroD d f.2 with
      | some a, some z => some (a && z)
      | _, _ => none) (some true)
  | _, .ptr _ t => some t.isNone
  | _, .iface .invalid => some true
  | _, .iface _ => some false
  | _, .func _ => some false
  | _, .jfunc _ => some false
  | _, .swriter _ => some false
  | _, .method _ _ => some false
  | _, .hidden b => some (!b)
  | _, .errv _ _ => some false
  | _, .intsRanger _ _ => some false
  | _, .opaque _ => none

def isZero (v : Val) : Option Bool := isZeroD 8 v

/-- eval.go `isTrue`: `v.IsValid() && !v.IsZero()` -/
def isTrue (v : Val) : Option Bool :=
  if !v.isValid then some false else (isZero v).map (!·)

/-- eval.go `notNil` -/
def notNil : Val → Bool
  | .invalid => false
  | .slice _ _ n => !n
  | .smap _ _ n => !n
  | .ptr _ t => t.isSome
  | .iface .invalid => false
  | _ => true

end Val

/-! ### printing -/

def natDigits : Nat → Nat → List UInt8 → List UInt8
  | 0, _, acc => acc
  | fuel + 1, n, acc =>
    let d : UInt8 := (48 + n % 10).toUInt8
    if n < 10 then d :: acc else natDigits fuel (n / 10) (d :: acc)

def natToDec (n : Nat) : Bytes := natDigits 40 n []

def intToDec (i : Int) : Bytes :=
  if i < 0 then 45 :: natToDec (-i).toNat else natToDec i.toNat

/-- 4096-byte chunks of `PrintString` (fastprinter/printers.go) -/
def chunk4096 : Nat → Bytes → List Bytes
  | 0, _ => []
  | fuel + 1, s =>
    if s.isEmpty then []
    else if s.length ≤ 4096 then [s]
    else s.take 4096 :: chunk4096 fuel (s.drop 4096)

def printStringChunks (s : Bytes) : List Bytes := chunk4096 (s.length / 4096 + 2) s

/-- a piece of printed output: literal bytes or a float placeholder the harness renders
    with the implementation's own formatter (float printing is not modelled) -/
inductive Piece where
  | lit (b : Bytes)
  | flt (bits : UInt64) (esc : String)   -- esc: the escaper this write goes through ("" = none yet)
  deriving Repr, DecidableEq

def asciiBytes (s : String) : Bytes := s.toUTF8.toList

/-- `fmt.Fprint` of a scalar nested in a composite (`%v`) -/
def fmtScalar : Val → Option Bytes
  | .invalid => some (asciiBytes "<nil>")
  | .bool b => some (asciiBytes (if b then "true" else "false"))
  | .int i => some (intToDec i)
  | .uint u => some (natToDec u)
  | .str s => some s
  | .iface .invalid => some (asciiBytes "<nil>")
  | .iface (.bool b) => some (asciiBytes (if b then "true" else "false"))
  | .iface (.int i) => some (intToDec i)
  | .iface (.uint u) => some (natToDec u)
  | .iface (.str s) => some s
  | _ => none

def joinSp : List Bytes → Bytes
  | [] => []
  | [x] => x
  | x :: xs => x ++ 32 :: joinSp xs

/-- insertion sort of map entries by key (fmt prints maps with sorted keys) -/
def insertEntry (e : Bytes × Val) : List (Bytes × Val) → List (Bytes × Val)
  | [] => [e]
  | x :: xs => if decide (e.1 ≤ x.1) then e :: x :: xs else x :: insertEntry e xs

def sortEntries (es : List (Bytes × Val)) : List (Bytes × Val) := es.foldr insertEntry []

/-- `fmt.Fprint(w, v.Interface())` for flat composites of scalars -/
def fmtComposite : Val → Option Bytes
  | .slice es _ _ =>
    (es.mapM (fun e => fmtScalar (Val.indirectInterface e))).map (fun ps => 91 :: joinSp ps ++ [93])
  | .smap es _ _ =>
    ((sortEntries es).mapM (fun e => (fmtScalar (Val.indirectInterface e.2)).map (fun p => e.1 ++ 58 :: p))).map
      (fun ps => asciiBytes "map[" ++ joinSp ps ++ [93])
  | v => fmtScalar v

/-- `fmt.Fprint` (`%v`) of nested composites: slices and maps of scalars, slices, maps and interface
    values holding those, to a bounded depth.  Floats, structs (unexported fields print too), non-nil
    pointers (addresses) and `[]byte` stay outside the model. -/
def fmtDeep : Nat → Val → Option Bytes
  | 0, _ => none
  | fuel + 1, v =>
    match v with
    | .slice es _ _ => (es.mapM (fmtDeep fuel)).map (fun ps => 91 :: joinSp ps ++ [93])
    | .smap es _ _ =>
      ((sortEntries es).mapM (fun e => (fmtDeep fuel e.2).map (fun p => e.1 ++ 58 :: p))).map
        (fun ps => asciiBytes "map[" ++ joinSp ps ++ [93])
    | .iface .invalid => some (asciiBytes "<nil>")
    | .iface w => fmtDeep fuel w
    | .ptr _ none => some (asciiBytes "<nil>")
    | w => fmtScalar w

def fmtAny (v : Val) : Option Bytes :=
  match fmtComposite v with
  | some b => some b
  | none => fmtDeep 6 v

/-- `maybeDereference(v, 2)` -/
def maybeDeref : Nat → Val → Val
  | 0, v => v
  | n + 1, .ptr _ (some t) => maybeDeref n t
  | _, v => v

/-- `fastprinter.PrintValue`: the sequence of `Write` calls on the destination.
    `none` = a value whose printed form is outside the model. -/
def printValue (v : Val) : Option (List Piece) :=
  match maybeDeref 2 v with
  | .str s => some ((printStringChunks s).map Piece.lit)
  | .int i => some [Piece.lit (intToDec i)]
  | .uint u => some [Piece.lit (natToDec u)]
  | .float b => some [Piece.flt b ""]
  | .bool b => some [Piece.lit (asciiBytes (if b then "true" else "false"))]
  | .bytes s => some [Piece.lit s]
  | .iface inner =>
    -- kind Interface: falls through to fmt.Fprint(w, v.Interface()) — one write
    match inner with
    | .float _ => none
    | _ => (fmtAny inner).map (fun b => [Piece.lit b])
  | .ptr _ none => some [Piece.lit (asciiBytes "<nil>")]
  | w@(.slice _ _ _) => (fmtAny w).map (fun b => [Piece.lit b])
  | w@(.smap _ _ _) => (fmtAny w).map (fun b => [Piece.lit b])
  | _ => none

/-! ### escapers -/

def entQuot : Bytes := [38, 35, 51, 52, 59]    -- &#34;
def entApos : Bytes := [38, 35, 51, 57, 59]    -- &#39;
def entAmp : Bytes := [38, 97, 109, 112, 59]   -- &amp;
def entLt : Bytes := [38, 108, 116, 59]        -- &lt;
def entGt : Bytes := [38, 103, 116, 59]        -- &gt;
def replacementChar : Bytes := [0xEF, 0xBF, 0xBD]  -- U+FFFD

/-- what `text/template.HTMLEscape` emits for one byte -/
def htmlEscapeByte (c : UInt8) : Bytes :=
  if c = 34 then entQuot
  else if c = 39 then entApos
  else if c = 38 then entAmp
  else if c = 60 then entLt
  else if c = 62 then entGt
  else if c = 0 then replacementChar
  else [c]

/-- `text/template.HTMLEscape` at byte level -/
def htmlEscape : Bytes → Bytes
  | [] => []
  | c :: cs => htmlEscapeByte c ++ htmlEscape cs

/-- the SafeWriters known to the model: what one `Write(b)` through them emits -/
def applyEscaper (name : String) (b : Bytes) : Option Bytes :=
  if name == "html" then some (htmlEscape b)
  else if name == "raw" then some b
  else if name == "brackets" then some (91 :: b ++ [93])   -- harness-registered test escaper
  else none

end JetVerif
