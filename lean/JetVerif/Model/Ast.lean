/-
  Model of node.go's AST (the part the evaluator walks).  Every node carries its
  `NodeBase.TemplatePath` and `NodeBase.Line` (as `Loc`), exactly what `node.errorf` reports.
-/
import JetVerif.Model.Tok

namespace JetVerif

abbrev Bytes := List UInt8

structure Loc where
  path : Bytes
  line : Nat
  deriving Repr, DecidableEq, Inhabited

inductive Expr where
  | ident (loc : Loc) (name : Bytes)
  | field (loc : Loc) (names : List Bytes)
  | chain (loc : Loc) (base : Expr) (fields : List Bytes)
  | underscore (loc : Loc)
  | nilLit (loc : Loc)
  | boolLit (loc : Loc) (b : Bool)
  | strLit (loc : Loc) (s : Bytes)
  | numLit (loc : Loc) (isInt isUint isFloat : Bool) (i : Int) (u : Nat) (fbits : UInt64)
  | add (loc : Loc) (isPlus : Bool) (l : Option Expr) (r : Expr)
  | mul (loc : Loc) (op : Tok) (l r : Expr)
  | cmp (loc : Loc) (isNeq : Bool) (l r : Expr)
  | numcmp (loc : Loc) (op : Tok) (l r : Expr)
  | logic (loc : Loc) (isAnd : Bool) (l r : Expr)
  | not (loc : Loc) (e : Expr)
  | ternary (loc : Loc) (c l r : Expr)
  | call (loc : Loc) (base : Expr) (args : List Expr) (argsNonNil : Bool) (hasSlot : Bool)
  | index (loc : Loc) (base idx : Expr)
  | slice (loc : Loc) (base : Expr) (i j : Option Expr)
  deriving Repr, Inhabited

def Expr.loc : Expr → Loc
  | .ident l _ | .field l _ | .chain l _ _ | .underscore l | .nilLit l | .boolLit l _
  | .strLit l _ | .numLit l _ _ _ _ _ _ | .add l _ _ _ | .mul l _ _ _ | .cmp l _ _ _
  | .numcmp l _ _ _ | .logic l _ _ _ | .not l _ | .ternary l _ _ _ | .call l _ _ _ _
  | .index l _ _ | .slice l _ _ _ => l

/-- node.go `SetNode` -/
structure SetN where
  loc : Loc
  isLet : Bool
  lookup : Bool        -- IndexExprGetLookup
  left : List Expr
  right : List Expr
  deriving Repr, Inhabited

/-- node.go `CommandNode` (a `CallExprNode` embedded in a command) -/
structure Cmd where
  loc : Loc
  base : Expr
  args : List Expr
  argsNonNil : Bool
  hasSlot : Bool
  deriving Repr, Inhabited

structure Pipe where
  loc : Loc
  cmds : List Cmd
  deriving Repr, Inhabited

structure Param where
  name : Bytes
  dflt : Option Expr
  deriving Repr, Inhabited

inductive Stmt where
  | text (loc : Loc) (b : Bytes)
  | action (loc : Loc) (set : Option SetN) (pipe : Option Pipe)
  | ifS (loc : Loc) (set : Option SetN) (cond : Expr) (thn : List Stmt) (els : Option (List Stmt))
  | rangeS (loc : Loc) (set : Option SetN) (e : Option Expr) (body : List Stmt) (els : Option (List Stmt))
  | block (loc : Loc) (name : Bytes) (params : List Param) (ctx : Option Expr)
      (body : List Stmt) (content : Option (List Stmt))
  | yield (loc : Loc) (name : Bytes) (params : Option (List Param)) (ctx : Option Expr)
      (content : Option (List Stmt)) (isContent : Bool)
  | include (loc : Loc) (name : Expr) (ctx : Option Expr)
  | tryS (loc : Loc) (body : List Stmt) (hasCatch : Bool) (catchVar : Option Bytes)
      (catchBody : Option (List Stmt))
  | ret (loc : Loc) (e : Expr)
  deriving Repr, Inhabited

/-- a `*BlockNode` as stored in block tables -/
structure BlockN where
  loc : Loc
  name : Bytes
  params : List Param
  ctx : Option Expr
  body : List Stmt
  content : Option (List Stmt)
  deriving Repr, Inhabited

/-- a parsed template: name, `extends`, `imports`, `processedBlocks`, `Root` -/
structure Tmpl where
  name : Bytes
  ext : Option Bytes
  imports : List Bytes
  blocks : List (Bytes × BlockN)
  root : List Stmt
  deriving Repr, Inhabited

end JetVerif
