/-
  Model of Go's `path` package as Jet uses it (`path.Clean`, `Join`, `Dir`, `Base`,
  `IsAbs`) at the *segment* level, and of Jet's own name canonicalisation
  (`Set.getSiblingTemplate`, `Set.Parse`, `InMemLoader.normalize`).

  Paths are byte strings (`List UInt8`).  `filepath.ToSlash` is the identity on the
  platform the checks run on (linux; separator '/') and is modelled as such.

  The standard-library functions are *modelled, not verified*: the correspondence check
  (jetcheck path) runs Go's own `path.Clean/Join/Dir/Base` and these definitions on the
  same byte strings and diffs the results.
-/
namespace JetVerif.Path

abbrev Bytes := List UInt8

def slash : UInt8 := 47   -- '/'
def dot   : UInt8 := 46   -- '.'

/-- split on '/', like `strings.Split(p, "/")`: always at least one segment. -/
def splitSegs : Bytes → List Bytes
  | [] => [[]]
  | c :: cs =>
    if c = slash then [] :: splitSegs cs
    else match splitSegs cs with
      | [] => [[c]]              -- unreachable (splitSegs is never empty)
      | s :: ss => (c :: s) :: ss

def dotSeg : Bytes := [dot]
def dotdotSeg : Bytes := [dot, dot]

/-- One step of `path.Clean`'s main loop at segment granularity.  The stack is kept
    in reverse (top first).  `rooted` paths drop `..` at the root; relative paths keep
    leading `..` segments. -/
def cleanStep (rooted : Bool) (stack : List Bytes) (seg : Bytes) : List Bytes :=
  if seg = [] ∨ seg = dotSeg then stack
  else if seg = dotdotSeg then
    match stack with
    | [] => if rooted then [] else [dotdotSeg]
    | top :: rest => if top = dotdotSeg then (if rooted then stack else dotdotSeg :: stack) else rest
  else seg :: stack

def cleanSegs (rooted : Bool) (segs : List Bytes) : List Bytes :=
  (segs.foldl (cleanStep rooted) []).reverse

/-- "/" ++ s₁ ++ "/" ++ s₂ … ; the empty list renders as "/" -/
def renderAbs : List Bytes → Bytes
  | [] => [slash]
  | segs => (segs.map (fun s => slash :: s)).flatten

def renderRel : List Bytes → Bytes
  | [] => [dot]
  | s :: ss => s ++ (ss.map (fun s => slash :: s)).flatten

def isAbs (p : Bytes) : Bool :=
  match p with
  | c :: _ => c == slash
  | [] => false

/-- `path.Clean` -/
def clean (p : Bytes) : Bytes :=
  if p = [] then [dot]
  else if isAbs p then renderAbs (cleanSegs true (splitSegs p))
  else renderRel (cleanSegs false (splitSegs p))

/-- `path.Join` -/
def joinRaw : Bytes → List Bytes → Bytes
  | buf, [] => buf
  | buf, e :: es =>
    if buf ≠ [] then joinRaw (buf ++ slash :: e) es
    else if e ≠ [] then joinRaw e es
    else joinRaw buf es

def join (elems : List Bytes) : Bytes :=
  if elems.all (· = []) then [] else clean (joinRaw [] elems)

/-- everything up to and including the last '/', and the rest (`path.Split`) -/
def splitLast : Bytes → Bytes × Bytes
  | [] => ([], [])
  | c :: cs =>
    let (d, f) := splitLast cs
    if c = slash then (c :: d, f)
    else if d = [] then ([], c :: f)
    else (c :: d, f)

/-- `path.Dir` -/
def dir (p : Bytes) : Bytes := clean (splitLast p).1

def dropTrailingSlashes (p : Bytes) : Bytes :=
  (p.reverse.dropWhile (· = slash)).reverse

/-- `path.Base` -/
def base (p : Bytes) : Bytes :=
  if p = [] then [dot]
  else
    let q := dropTrailingSlashes p
    if q = [] then [slash]
    else (splitLast q).2

/-! ### Jet's canonicalisation -/

/-- `Set.getSiblingTemplate`'s path computation (set.go): an absolute name is cleaned,
    a relative one is joined to the directory of the referring template. -/
def resolveSibling (name sibling : Bytes) : Bytes :=
  if isAbs name then clean name
  else join [dir sibling, name]

/-- `Set.Parse`'s name computation: `path.Join("/", name)` after rejecting names
    without a base name. -/
def parseName (name : Bytes) : Option Bytes :=
  let b := base name
  if b = [dot] ∨ b = [slash] then none else some (join [[slash], name])

/-- `InMemLoader.normalize` -/
def normalize (p : Bytes) : Bytes := join [[slash], p]

end JetVerif.Path
