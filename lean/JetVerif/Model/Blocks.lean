/-
  Model of how a template's effective block table is built (parse.go: `passedBlocks`,
  `addBlocks`, and the three `addBlocks` calls at the end of `Set.parse`): first the extended
  template's table, then each imported template's table in import order, then the template's own
  block definitions in the order the parser registers them (a block is registered when its
  `{{end}}` is reached, so nested definitions are registered before the enclosing one).
-/
import JetVerif.Model.Eval

namespace JetVerif.Blocks
open JetVerif JetVerif.Eval

abbrev Table (β : Type) := List (Bytes × β)

/-- `t.addBlocks(src)`: every entry of `src` is written into `t` (map assignment) -/
def addAll {β} (t : Table β) (src : Table β) : Table β := src.foldl (fun acc kv => aset kv.1 kv.2 acc) t

/-- the last entry for `k` in a registration list -/
def lookupLast {β} (k : Bytes) : Table β → Option β
  | [] => none
  | (k', v) :: rest =>
    match lookupLast k rest with
    | some w => some w
    | none => if k' = k then some v else none

/-- `Set.parse` epilogue: extends, imports in order, own -/
def processed {β} (ext : Table β) (imports : List (Table β)) (own : Table β) : Table β :=
  addAll (imports.foldl addAll ext) own

/-- own block registrations of a statement list, in the parser's registration order (post-order) -/
def ownRegs : Nat → List Stmt → Table BlockN
  | 0, _ => []
  | fuel + 1, stmts => stmts.flatMap fun s =>
    match s with
    | .block loc name params ctx body content =>
      ownRegs fuel body ++ (match content with | some c => ownRegs fuel c | none => []) ++
        [(name, { loc := loc, name := name, params := params, ctx := ctx, body := body, content := content })]
    | .ifS _ _ _ thn els => ownRegs fuel thn ++ (match els with | some e => ownRegs fuel e | none => [])
    | .rangeS _ _ _ body els => ownRegs fuel body ++ (match els with | some e => ownRegs fuel e | none => [])
    | .yield _ _ _ _ content _ => (match content with | some c => ownRegs fuel c | none => [])
    | .tryS _ body _ _ cb => ownRegs fuel body ++ (match cb with | some c => ownRegs fuel c | none => [])
    | _ => []

/-- the effective table of a template of the store, following extends/import links by name -/
def tableOf (store : List (Bytes × Option Tmpl)) : Nat → Bytes → Table BlockN
  | 0, _ => []
  | fuel + 1, name =>
    match store.find? (fun p => p.1 = name) with
    | some (_, some t) =>
      let ext := match t.ext with
        | some e => tableOf store fuel e
        | none => []
      processed ext (t.imports.map (tableOf store fuel)) (ownRegs 64 t.root)
    | _ => []

end JetVerif.Blocks
