/-
  Abstract model of `Set` (set.go, cache.go) and of `Set.parse`'s handling of extends/import
  (parse.go): template lookup through cache and loader, extension probing, caching policy,
  development mode, cycle detection, and include at execution time.

  A file's content is abstracted to: a marker (its literal text), its header references
  (extends/import, in order), the names it includes, and whether it has a syntax error.
-/
import JetVerif.Model.Path

namespace JetVerif.SetM
open JetVerif.Path

structure Content where
  mark : Nat
  refs : List Bytes        -- extends / import names, in header order
  includes : List Bytes    -- {{include "name"}} actions, in order, after the marker
  bad : Bool               -- a syntax error after the header
  deriving Repr, DecidableEq, Inhabited

inductive FileSt where
  | ok (c : Content)
  | openFails              -- Exists is true, Open returns an error
  | readFails              -- Open succeeds, reading fails
  deriving Repr, DecidableEq

/-- calls a Set makes on its Loader and Cache -/
inductive Ev where
  | exists_ (p : Bytes)
  | open_ (p : Bytes)
  | get (p : Bytes)
  | put (p : Bytes) (id : Nat)
  deriving Repr, DecidableEq

structure Tmpl where
  id : Nat
  name : Bytes
  content : Content
  deriving Repr

structure SetSt where
  files : List (Bytes × FileSt) := []
  cache : List (Bytes × Nat) := []
  tmpls : List Tmpl := []         -- every template ever parsed, by id = position
  dev : Bool := false
  exts : List Bytes := []
  trace : List Ev := []           -- most recent first

def lookupP {β} (k : Bytes) : List (Bytes × β) → Option β
  | [] => none
  | (k', v) :: rest => if k' = k then some v else lookupP k rest

def ev (e : Ev) (s : SetSt) : SetSt := { s with trace := e :: s.trace }

/-- `cache.Get(path)` -/
def cacheGet (s : SetSt) (p : Bytes) : Option Nat × SetSt := (lookupP p s.cache, ev (.get p) s)

/-- `getTemplateFromCache`: the request path itself - the key `getTemplate` stores under; entries
    under path+extension belong to other names -/
def fromCache (s : SetSt) (p : Bytes) : Option Nat × SetSt := cacheGet s p

/-- `getTemplateFromLoader`'s probe: Exists(path+ext) in configured order, first hit wins -/
def probeLoader (s : SetSt) (p : Bytes) : List Bytes → Option Bytes × SetSt
  | [] => (none, s)
  | e :: es =>
    let s' := ev (.exists_ (p ++ e)) s
    if (lookupP (p ++ e) s.files).isSome then (some (p ++ e), s') else probeLoader s' p es

inductive R where
  | ok (id : Nat)
  | err
  | fuel
  deriving Repr, DecidableEq

mutual
/-- `Set.getTemplate(path, cacheAfterParsing, parsing...)` -/
def getTemplate : Nat → SetSt → Bytes → Bool → List Bytes → R × SetSt
  | 0, s, _, _, _ => (.fuel, s)
  | fuel + 1, s, p, cacheAfter, parsing =>
    let hit : Option Nat × SetSt := if s.dev then (none, s) else fromCache s p
    match hit with
    | (some id, s1) => (.ok id, s1)
    | (none, s1) =>
      match probeLoader s1 p s1.exts with
      | (none, s2) => (.err, s2)
      | (some canonical, s2) =>
        match loadFromFile fuel s2 canonical cacheAfter parsing with
        | (.ok id, s3) =>
          if cacheAfter && !s3.dev then (.ok id, ev (.put p id) { s3 with cache := (p, id) :: s3.cache })
          else (.ok id, s3)
        | other => other

/-- `Set.loadFromFile` + `Set.parse` -/
def loadFromFile : Nat → SetSt → Bytes → Bool → List Bytes → R × SetSt
  | 0, s, _, _, _ => (.fuel, s)
  | fuel + 1, s, name, cacheAfter, parsing =>
    if parsing.contains name then (.err, s)      -- extends or imports itself
    else
      let s1 := ev (.open_ name) s
      match lookupP name s.files with
      | some (.ok c) =>
        match refsLoop fuel s1 name c.refs cacheAfter (parsing ++ [name]) with
        | (.ok _, s2) =>
          if c.bad then (.err, s2)
          else
            let id := s2.tmpls.length
            (.ok id, { s2 with tmpls := s2.tmpls ++ [{ id := id, name := name, content := c }] })
        | other => other
      | _ => (.err, s1)

/-- the header loop of parseTemplate: each extends/import is resolved against the template's name -/
def refsLoop : Nat → SetSt → Bytes → List Bytes → Bool → List Bytes → R × SetSt
  | 0, s, _, _, _, _ => (.fuel, s)
  | _ + 1, s, _, [], _, _ => (.ok 0, s)
  | fuel + 1, s, name, ref :: rest, cacheAfter, parsing =>
    match getTemplate fuel s (resolveSibling ref name) cacheAfter parsing with
    | (.ok _, s1) => refsLoop fuel s1 name rest cacheAfter parsing
    | other => other
end

/-- `Set.GetTemplate(name)` -/
def getTemplateOp (fuel : Nat) (s : SetSt) (name : Bytes) : R × SetSt :=
  getTemplate fuel s (resolveSibling name [slash]) true []

/-- `Set.Parse(name, content)`: never caches, neither its result nor what it pulls in -/
def parseOp (fuel : Nat) (s : SetSt) (name : Bytes) (c : Content) : R × SetSt :=
  match parseName name with
  | none => (.err, s)
  | some n =>
    match refsLoop fuel s n c.refs false [n] with
    | (.ok _, s2) =>
      if c.bad then (.err, s2)
      else
        let id := s2.tmpls.length
        (.ok id, { s2 with tmpls := s2.tmpls ++ [{ id := id, name := n, content := c }] })
    | other => other

/-- executing template `id`: its marker, then each include resolved *now* through the Set -/
def render : Nat → SetSt → Nat → (Bool × List Nat) × SetSt
  | 0, s, _ => ((false, []), s)
  | fuel + 1, s, id =>
    match s.tmpls[id]? with
    | none => ((false, []), s)
    | some t =>
      let rec incs (s : SetSt) (out : List Nat) : List Bytes → (Bool × List Nat) × SetSt
        | [] => ((true, out), s)
        | n :: rest =>
          match getTemplate fuel s (resolveSibling n t.name) true [] with
          | (.ok iid, s1) =>
            match render fuel s1 iid with
            | ((true, o), s2) => incs s2 (out ++ o) rest
            | ((false, o), s2) => ((false, out ++ o), s2)
          | (_, s1) => ((false, out), s1)
      incs s [t.content.mark] t.content.includes

end JetVerif.SetM
