/-
  Models of the bundled loaders: `InMemLoader` (loader.go) and `multi.Multi`
  (loaders/multi/multi.go), over an abstract `Loader` = (Exists, Open).
  File-system loaders (OS / http / embed) are modelled as a loader over an abstract tree of
  regular files; that `os.Stat`, `http.FileSystem` and `embed.FS` behave like that tree is
  exercised by the harness on real trees, not proved.
-/
import JetVerif.Model.Path

namespace JetVerif.Loaders
open JetVerif.Path



/-- what a Set needs from a loader -/
structure Loader where
  exists_ : Bytes → Bool
  open_ : Bytes → Option Bytes

/-- the Loader contract of C19: whenever Exists(p) is true, Open(p) succeeds -/
def Loader.Lawful (l : Loader) : Prop := ∀ p, l.exists_ p = true → (l.open_ p).isSome = true

def alookup (k : Bytes) : List (Bytes × Bytes) → Option Bytes
  | [] => none
  | (k', v) :: rest => if k' = k then some v else alookup k rest

def removeKey (k : Bytes) : List (Bytes × Bytes) → List (Bytes × Bytes)
  | [] => []
  | (k', v) :: rest => if k' = k then removeKey k rest else (k', v) :: removeKey k rest

/-- `InMemLoader.files`: a map from normalised path to content -/
structure InMem where
  files : List (Bytes × Bytes) := []

/-- `InMemLoader.Set`: `l.files[normalize(p)] = contents` -/
def InMem.set (l : InMem) (p c : Bytes) : InMem :=
  { files := (normalize p, c) :: removeKey (normalize p) l.files }

/-- `InMemLoader.Delete` -/
def InMem.delete (l : InMem) (p : Bytes) : InMem :=
  { files := removeKey (normalize p) l.files }

/-- `InMemLoader.Exists` -/
def InMem.exists_ (l : InMem) (p : Bytes) : Bool := (alookup (normalize p) l.files).isSome

/-- `InMemLoader.Open` -/
def InMem.open_ (l : InMem) (p : Bytes) : Option Bytes := alookup (normalize p) l.files

def InMem.toLoader (l : InMem) : Loader := { exists_ := l.exists_, open_ := l.open_ }

inductive Op where
  | set (p c : Bytes)
  | delete (p : Bytes)

def InMem.apply (l : InMem) : Op → InMem
  | .set p c => l.set p c
  | .delete p => l.delete p

def InMem.run (ops : List Op) : InMem := ops.foldl InMem.apply {}

/-- `Multi.Exists`: some loader has it -/
def multiExists (ls : List Loader) (p : Bytes) : Bool := ls.any (fun l => l.exists_ p)

/-- `Multi.Open`: the first loader whose Open succeeds -/
def multiOpen (ls : List Loader) (p : Bytes) : Option Bytes := ls.findSome? (fun l => l.open_ p)

def multi (ls : List Loader) : Loader := { exists_ := multiExists ls, open_ := multiOpen ls }

/-- a directory-rooted loader over an abstract tree: `files` maps the canonical path of every
    regular file below the root to its bytes; directories and missing entries are not in it -/
def fsLoader (files : List (Bytes × Bytes)) : Loader :=
  { exists_ := fun p => (alookup p files).isSome, open_ := fun p => alookup p files }

end JetVerif.Loaders
