import JetVerif.Props.C09
open JetVerif.Props.C09
#print axioms discarded_body_writes_nothing
#print axioms exec_body_is_discarded
#print axioms include_restores
#print axioms exec_restores
#print axioms return_value_merge
#print axioms return_stmt_value
#print axioms empty_list_returns_nil
