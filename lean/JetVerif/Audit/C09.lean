import JetVerif.Props.C09
import JetVerif.Props.Restore
open JetVerif.Props.C09
#print axioms discarded_body_writes_nothing
#print axioms exec_body_is_discarded
#print axioms include_restores
#print axioms exec_restores
#print axioms return_value_merge
#print axioms return_stmt_value
#print axioms empty_list_returns_nil
#print axioms JetVerif.Props.Restore.jet_restore_idioms_as_modelled
#print axioms JetVerif.Props.Restore.jet_writer_restored_by_defer
#print axioms JetVerif.Props.Restore.jet_handlers_restore_everything
#print axioms JetVerif.Props.Restore.jet_include_scope_and_context_deferred
#print axioms JetVerif.Props.Restore.jet_content_closure_restores_by_defer
