import JetVerif.Props.C20
open JetVerif.Props.C20
#print axioms walk_all
#print axioms walk_complete
#print axioms walk_never_crashes
#print axioms visitor_shape_understood
#print axioms jet_visitor_covers
#print axioms jet_walk_complete
#print axioms jet_walk_never_panics
