import JetVerif.Props.C14
open JetVerif.Props.C14
#print axioms slot_call_eq_plain_call
#print axioms piped_call_eq_plain_call
#print axioms num_piped_eq_plain
#print axioms num_slot_eq_plain
#print axioms get_piped_zero
#print axioms get_piped_succ
#print axioms get_slot_eq_plain
#print axioms pipeline_is_fold_of_stages
#print axioms evalPipeline_eq
#print axioms safewriter_must_be_last
#print axioms safewriter_stage
#print axioms builtins_expose_documented_functions
