import JetVerif.Props.C15
open JetVerif.Props.C15
#print axioms clean_abs_is_canonical
#print axioms canonical_is_fixed_point
#print axioms resolve_is_canonical
#print axioms canonical_name_resolves_to_itself
#print axioms resolve_idempotent
#print axioms parse_name_is_canonical
#print axioms normalize_is_canonical
#print axioms canonical_has_no_dotdot
