import JetVerif.Props.C05
open JetVerif.Props.C05
#print axioms truthy_bool
#print axioms truthy_int
#print axioms truthy_uint
#print axioms truthy_str
#print axioms falsy_nil
#print axioms falsy_nil_pointer
#print axioms falsy_nil_interface
#print axioms falsy_nil_map
#print axioms falsy_nil_slice
#print axioms truthy_nonnil_pointer
#print axioms element_unwrapped
#print axioms if_truthy_runs_then
#print axioms if_falsy_runs_else
#print axioms if_falsy_no_else_runs_nothing
#print axioms slice_ranger_in_order
#print axioms ints_ranger_first
#print axioms ints_ranger_last
#print axioms range_empty_runs_else
#print axioms range_empty_no_else
#print axioms range_end_after_elements_skips_else
#print axioms range_body_context
