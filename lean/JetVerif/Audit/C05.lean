import JetVerif.Props.C05
import JetVerif.Props.C05P
import JetVerif.Props.C05E
import JetVerif.Props.C05R
open JetVerif.Props.C05
#print axioms truthy_bool
#print axioms truthy_int
#print axioms truthy_uint
#print axioms truthy_str
#print axioms falsy_nil
#print axioms falsy_nil_pointer
#print axioms falsy_nil_interface
#print axioms falsy_nil_map
#print axioms falsy_nil_slice
#print axioms truthy_nonnil_pointer
#print axioms element_unwrapped
#print axioms if_truthy_runs_then
#print axioms if_falsy_runs_else
#print axioms if_falsy_no_else_runs_nothing
#print axioms slice_ranger_in_order
#print axioms ints_ranger_first
#print axioms ints_ranger_last
#print axioms range_empty_runs_else
#print axioms range_empty_no_else
#print axioms range_end_after_elements_skips_else
#print axioms range_body_context
#print axioms JetVerif.Props.C05P.statement_reads_one_derivation
#print axioms JetVerif.Props.C05P.statement_after_peek
#print axioms JetVerif.Props.C05P.body_reads_its_statements
#print axioms JetVerif.Props.C05P.body_stops_at_else
#print axioms JetVerif.Props.C05P.template_body_reads_its_statements
#print axioms JetVerif.Props.C05P.if_chain_is_parsed_as_written
#print axioms JetVerif.Props.C05P.range_is_parsed_as_written
#print axioms JetVerif.Props.C05E.if_chain_runs_the_first_truthy_branch
#print axioms JetVerif.Props.C05E.if_chain_list_runs_the_first_truthy_branch
#print axioms JetVerif.Props.C05E.later_conditions_are_not_evaluated
#print axioms JetVerif.Props.C05E.if_chain_all_falsy_runs_else
#print axioms JetVerif.Props.C05E.if_chain_all_falsy_no_else_writes_nothing
#print axioms JetVerif.Props.C05E.if_chain_condition_failure_is_the_failure
#print axioms JetVerif.Props.C05E.if_chain_condition_crash_is_the_crash
#print axioms JetVerif.Props.C05E.if_chain_restores_scope
#print axioms JetVerif.Props.C05E.parsed_if_chain_renders_the_first_truthy_text
#print axioms JetVerif.Props.C05E.parsed_if_chain_all_falsy_renders_else_text
#print axioms JetVerif.Props.C05E.parsed_if_chain_unbound_identifier_fails
#print axioms JetVerif.Props.C05R.range_runs_its_body_once_per_element_in_order
#print axioms JetVerif.Props.C05R.range_over_empty_runs_else
#print axioms JetVerif.Props.C05R.range_over_empty_without_else_writes_nothing
#print axioms JetVerif.Props.C05R.else_is_ignored_when_there_are_elements
#print axioms JetVerif.Props.C05R.range_two_variables_binds_index_and_value
#print axioms JetVerif.Props.C05R.range_one_variable_binds_index_and_dot
#print axioms JetVerif.Props.C05R.range_stops_when_the_body_returns
#print axioms JetVerif.Props.C05R.range_puts_dot_back
#print axioms JetVerif.Props.C05R.parsed_range_renders_body_n_times
#print axioms JetVerif.Props.C05R.parsed_range_two_variables_renders_body_n_times
