import JetVerif.Props.C05
import JetVerif.Props.C05P
open JetVerif.Props.C05
#print axioms truthy_bool
#print axioms truthy_int
#print axioms truthy_uint
#print axioms truthy_str
#print axioms falsy_nil
#print axioms falsy_nil_pointer
#print axioms falsy_nil_interface
#print axioms falsy_nil_map
#print axioms falsy_nil_slice
#print axioms truthy_nonnil_pointer
#print axioms element_unwrapped
#print axioms if_truthy_runs_then
#print axioms if_falsy_runs_else
#print axioms if_falsy_no_else_runs_nothing
#print axioms slice_ranger_in_order
#print axioms ints_ranger_first
#print axioms ints_ranger_last
#print axioms range_empty_runs_else
#print axioms range_empty_no_else
#print axioms range_end_after_elements_skips_else
#print axioms range_body_context
#print axioms JetVerif.Props.C05P.statement_reads_one_derivation
#print axioms JetVerif.Props.C05P.statement_after_peek
#print axioms JetVerif.Props.C05P.body_reads_its_statements
#print axioms JetVerif.Props.C05P.body_stops_at_else
#print axioms JetVerif.Props.C05P.template_body_reads_its_statements
#print axioms JetVerif.Props.C05P.if_chain_is_parsed_as_written
#print axioms JetVerif.Props.C05P.range_is_parsed_as_written
