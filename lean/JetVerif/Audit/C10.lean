import JetVerif.Props.C10
open JetVerif.Props.C10
#print axioms poolInv_runHist
#print axioms no_residue
#print axioms uncovered_leaks
#print axioms jet_fields_covered
#print axioms jet_reset_shape
#print axioms jet_no_residue
#print axioms execute_starts_clean
#print axioms pools_are_accounted_for
