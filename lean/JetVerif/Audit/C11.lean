import JetVerif.Props.C11
open JetVerif.Props.C11
#print axioms inv_step
#print axioms disciplined_is_race_free
#print axioms jet_lock_discipline
#print axioms execution_does_not_write_the_ast
#print axioms runtime_state_is_private
