import JetVerif.Props.C01
open JetVerif.Props.C01
#print axioms htmlEscape_append
#print axioms htmlEscape_flatten
#print axioms htmlEscape_no_raw_special
#print axioms htmlEscape_plain
#print axioms printed_value_is_escaped_once
#print axioms printed_value_raw_when_no_escaper
#print axioms safewriter_bypasses_set_escaper
#print axioms literal_text_is_raw
#print axioms chunk4096_flatten
