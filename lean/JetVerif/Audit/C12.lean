import JetVerif.Props.C12
import JetVerif.Props.C12S
import JetVerif.Props.C12L
import JetVerif.Props.C12T
import JetVerif.Props.C12W
open JetVerif.Props.C12
#print axioms failure_keeps_rendered_prefix
#print axioms success_extends_output
#print axioms failing_statement_ends_list
#print axioms errAt_carries_location
#print axioms locateP_sets_location
#print axioms locateP_keeps_location
#print axioms unknown_identifier_is_located_error
#print axioms int_division_by_zero_is_located_error
#print axioms JetVerif.Props.C12S.scope_bookkeeping_never_panics
#print axioms JetVerif.Props.C12S.runtime_is_well_formed_after_failure
#print axioms JetVerif.Props.C12S.initRT_swf
#print axioms JetVerif.Props.C12S.execute_never_panics_in_scope_bookkeeping
#print axioms JetVerif.Props.C12S.deferred_releaseScope_sees_pushed_scope
#print axioms JetVerif.Props.C12S.withNewScopeD_keeps_callers_chain
#print axioms JetVerif.Props.C12S.setValue_never_crashes
#print axioms JetVerif.Props.C12S.releaseScope_on_empty_chain_panics
#print axioms JetVerif.Props.C12S.letVar_on_nil_map_panics
#print axioms JetVerif.Props.C12L.parsed_tree_lines_lie_in_the_source
#print axioms JetVerif.Props.C12L.parsed_tree_lines_lie_in_the_source_any_items
#print axioms JetVerif.Props.C12L.parsed_expression_lines_lie_in_the_source
#print axioms JetVerif.Props.C12L.parseSource_tree_lines_lie_in_the_source
#print axioms JetVerif.Props.C12T.execute_only_repanics_callee_panics
#print axioms JetVerif.Props.C12T.only_callee_panics
#print axioms JetVerif.Props.C12T.initRT_rwf
#print axioms JetVerif.Props.C12T.empty_pipeline_panics
#print axioms JetVerif.Props.C12T.let_of_field_panics
#print axioms JetVerif.Props.C12T.yield_without_params_panics
#print axioms JetVerif.Props.C12W.parsed_tree_is_shaped
#print axioms JetVerif.Props.C12W.parsed_template_is_shaped
#print axioms JetVerif.Props.C12W.parsed_template_is_well_formed
#print axioms JetVerif.Props.C12W.parsed_blocks_are_well_formed
#print axioms JetVerif.Props.C12W.parsed_store_is_well_formed
#print axioms JetVerif.Props.C12W.parsed_templates_only_repanic_callee_panics
