import JetVerif.Props.C12
open JetVerif.Props.C12
#print axioms failure_keeps_rendered_prefix
#print axioms success_extends_output
#print axioms failing_statement_ends_list
#print axioms errAt_carries_location
#print axioms locateP_sets_location
#print axioms locateP_keeps_location
#print axioms unknown_identifier_is_located_error
#print axioms int_division_by_zero_is_located_error
