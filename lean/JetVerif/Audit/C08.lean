import JetVerif.Props.C08
open JetVerif.Props.C08
#print axioms alookup_addAll
#print axioms precedence
#print axioms lookupLast_eq_alookup
#print axioms nodup_processed
#print axioms nodup_tableOf
#print axioms tableOf_precedence
#print axioms execute_uses_root_body_and_leaf_table
#print axioms rootOf_step
#print axioms top_level_lookup
