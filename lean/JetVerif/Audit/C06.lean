import JetVerif.Props.C06
open JetVerif.Props.C06
#print axioms buildCache_sound
#print axioms direct_field_wins
#print axioms put_length
#print axioms map_absent_key_is_nil
#print axioms map_present_key
#print axioms map_field_eq_index
#print axioms struct_field_eq_index
#print axioms struct_missing_field_is_error
#print axioms method_wins_over_field
#print axioms method_through_pointer
#print axioms pointer_method_needs_addressable
#print axioms indexArg_in_range
#print axioms slice_index
#print axioms nil_pointer_is_error
