import JetVerif.Props.C16
open JetVerif.Props.C16
#print axioms frame_all
#print axioms second_lookup_is_identical_and_silent
#print axioms dev_mode_never_uses_cache
#print axioms parse_never_caches
#print axioms parseOp_never_caches
#print axioms extension_order
#print axioms all_extensions_probed_on_miss
#print axioms unremembered_name_follows_extension_order
