import JetVerif.Props.C02
import JetVerif.Props.C02P
import JetVerif.Props.C02L
import JetVerif.Props.C02H
open JetVerif.Props.C02
open JetVerif.Props.C02P
open JetVerif.Props.C02L
#print axioms load_bounded
#print axioms getTemplate_terminates
#print axioms self_reference_is_error
#print axioms lexer_total
#print axioms JetVerif.Lex.lexRun_chain
#print axioms parser_never_crashes
#print axioms parseItems_never_crashes
#print axioms syntax_error_names_a_source_line
#print axioms buffer_discipline
#print axioms expression_never_crashes
#print axioms lexer_never_crashes
#print axioms lexer_items_are_well_formed
#print axioms lexer_output_satisfies_parser_assumptions
#print axioms parseSource_error_names_a_source_line
#print axioms every_state_function_is_safe
#print axioms parseSource_never_crashes
#print axioms lexer_terminates
#print axioms every_step_lowers_the_potential
#print axioms parser_terminates
#print axioms parseSource_terminates
#print axioms parseSource_total
open JetVerif.Props.C02H
#print axioms successful_parse_receives_every_item
#print axioms JetVerif.Lex.lexRun_eof_is_last_event
#print axioms JetVerif.Lex.lexRun_items_eof_last
#print axioms drain_lets_the_goroutine_finish
#print axioms no_drain_no_receive_leaves_it_blocked
#print axioms jet_error_path_drains
#print axioms error_path_empties_the_channel
#print axioms jet_handover_is_disciplined
#print axioms set_parse_leaves_no_goroutine
