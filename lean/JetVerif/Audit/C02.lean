import JetVerif.Props.C02
open JetVerif.Props.C02
#print axioms load_bounded
#print axioms getTemplate_terminates
#print axioms self_reference_is_error
#print axioms lexer_total
#print axioms JetVerif.Lex.lexRun_chain
