import JetVerif.Props.C04
import JetVerif.Props.C04P
open JetVerif.Props.C04
open JetVerif.Props.C04P
#print axioms sign_after_operand_is_operator
#print axioms signArm_rule
#print axioms int_arithmetic
#print axioms float_promotion
#print axioms literal_with_float_flag_is_float
#print axioms string_concatenation
#print axioms relational_on_numbers
#print axioms and_short_circuits
#print axioms or_short_circuits
#print axioms logic_yields_bool
#print axioms ternary_is_lazy
#print axioms int_equality_is_integral
#print axioms int_float_equality
#print axioms precedence_and_associativity
#print axioms precedence_after_backup
#print axioms expression_reads_one_derivation
#print axioms mul_range_is_mul_div_mod
#print axioms rel_range_is_relational
