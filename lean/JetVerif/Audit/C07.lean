import JetVerif.Props.C07
import JetVerif.Props.Restore
open JetVerif.Props.C07
#print axioms scope_and_context_restored
#print axioms expression_restores
#print axioms initRT_wf
#print axioms resolve_order
#print axioms lookup_innermost_first
#print axioms assign_undeclared_fails
#print axioms assign_innermost
#print axioms JetVerif.Props.Restore.jet_restore_idioms_as_modelled
#print axioms JetVerif.Props.Restore.jet_writer_restored_by_defer
#print axioms JetVerif.Props.Restore.jet_handlers_restore_everything
#print axioms JetVerif.Props.Restore.jet_include_scope_and_context_deferred
#print axioms JetVerif.Props.Restore.jet_content_closure_restores_by_defer
