import JetVerif.Props.C07
open JetVerif.Props.C07
#print axioms scope_and_context_restored
#print axioms expression_restores
#print axioms initRT_wf
#print axioms resolve_order
#print axioms lookup_innermost_first
#print axioms assign_undeclared_fails
#print axioms assign_innermost
