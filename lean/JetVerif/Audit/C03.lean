import JetVerif.Props.C03
import JetVerif.Props.C03D
open JetVerif.Props.C03
open JetVerif.Props.C03D
#print axioms JetVerif.Lex.lexRun_chain
#print axioms events_tile_the_source
#print axioms token_values_are_source_slices
#print axioms isSpaceByte_iff
#print axioms leftTrimLength_spec
#print axioms rightTrimLength_spec
#print axioms dropped_ranges_are_whitespace_markers_or_comments
