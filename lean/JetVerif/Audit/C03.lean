import JetVerif.Props.C03
open JetVerif.Props.C03
#print axioms JetVerif.Lex.lexRun_chain
#print axioms events_tile_the_source
#print axioms token_values_are_source_slices
#print axioms isSpaceByte_iff
#print axioms leftTrimLength_spec
#print axioms rightTrimLength_spec
