import JetVerif.Props.C03
import JetVerif.Props.C03D
import JetVerif.Props.C03E
open JetVerif.Props.C03
open JetVerif.Props.C03D
#print axioms JetVerif.Lex.lexRun_chain
#print axioms events_tile_the_source
#print axioms token_values_are_source_slices
#print axioms isSpaceByte_iff
#print axioms leftTrimLength_spec
#print axioms rightTrimLength_spec
#print axioms dropped_ranges_are_whitespace_markers_or_comments
#print axioms JetVerif.Props.C03E.text_items_become_text_nodes
#print axioms JetVerif.Props.C03E.text_nodes_carry_the_items_bytes
#print axioms JetVerif.Props.C03E.text_statements_write_their_bytes
#print axioms JetVerif.Props.C03E.action_free_template_renders_its_text
#print axioms JetVerif.Props.C03E.text_or_eof_items_have_the_shape
#print axioms JetVerif.Props.C03E.keptSource_eq_token_values
#print axioms JetVerif.Props.C03E.action_free_output_is_the_source_minus_dropped_ranges
