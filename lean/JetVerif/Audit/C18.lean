import JetVerif.Props.C18
open JetVerif.Props.C18
#print axioms let_is_colon_equals
#print axioms set_is_equals
#print axioms setOrLet_spec
#print axioms setOrLet_ignores_globals
#print axioms resolve_is_identifier_lookup
#print axioms context_is_dot
#print axioms letGlobal_targets_outermost
#print axioms yieldBlock_is_yield
#print axioms yieldBlock_restores
#print axioms isSet_piped_zero
#print axioms isSet_piped_succ
#print axioms isSet_slot
