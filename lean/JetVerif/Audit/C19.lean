import JetVerif.Props.C19
open JetVerif.Props.C19
#print axioms inmem_lawful
#print axioms inmem_set_then_open
#print axioms inmem_set_other
#print axioms inmem_delete
#print axioms inmem_delete_other
#print axioms inmem_spelling_independent
#print axioms inmem_keys_canonical
#print axioms multi_first_wins
#print axioms multi_lawful
#print axioms multi_exists_iff
#print axioms fs_lawful
#print axioms fs_exists_iff_file
