import JetVerif.Props.C13
import JetVerif.Props.Restore
open JetVerif.Props.C13
#print axioms failed_body_writes_nothing
#print axioms failed_body_state_restored
#print axioms try_restores_everything
#print axioms success_copies_buffer
#print axioms no_catch_swallows
#print axioms JetVerif.Props.Restore.jet_restore_idioms_as_modelled
#print axioms JetVerif.Props.Restore.jet_writer_restored_by_defer
#print axioms JetVerif.Props.Restore.jet_handlers_restore_everything
#print axioms JetVerif.Props.Restore.jet_include_scope_and_context_deferred
#print axioms JetVerif.Props.Restore.jet_content_closure_restores_by_defer
