import JetVerif.Props.C13
open JetVerif.Props.C13
#print axioms failed_body_writes_nothing
#print axioms failed_body_state_restored
#print axioms try_restores_everything
#print axioms success_copies_buffer
#print axioms no_catch_swallows
