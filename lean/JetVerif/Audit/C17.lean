import JetVerif.Props.C17
open JetVerif.Props.C17
#print axioms isSet_never_fails
#print axioms isSetE_never_fails
#print axioms argIsSet_never_fails
#print axioms isset_builtin_never_fails
#print axioms zero_values_are_set
#print axioms nil_values_are_not_set
#print axioms piped_isset_judges_value
#print axioms isSetFieldPath_true_iff
#print axioms pathResolves_prefix
#print axioms isset_field_exact
