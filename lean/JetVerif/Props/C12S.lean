/-
  C12 (scope part) — the scope bookkeeping of the interpreter never panics: "an error never unwinds
  past the scope it was raised in".

  `Template.Execute` re-panics runtime panics (`crash` in the model).  The scope primitives
  (`newScope`, `releaseScope`, `letVar`, `setBlocks`, `setValue`, `letGlobal`) panic on an empty
  chain (nil `*scope`), on a scope that was never allocated, and on a nil variable map.  None of
  these outcomes is reachable from the runtime `Execute` starts from: frames are only appended or
  updated in place, and on EVERY outcome of every piece of the interpreter the scope chain still
  ends in the chain that piece started from (Lemmas/EvalScope.lean, `Scoped`, proved for every
  function of the evaluator and every fuel).
-/
import JetVerif.Lemmas.EvalScope

namespace JetVerif.Props.C12S
open JetVerif JetVerif.Eval

/-- **The scope primitives never panic**, and however the list ends the scope chain still ends in
    the chain it started from.  For every fuel, environment, statement list and well-formed
    runtime.  (`WF`, the output invariant of Lemmas/EvalInv.lean, is not needed.) -/
theorem scope_bookkeeping_never_panics (fuel : Nat) (env : Env) (l : List Stmt) (rt : RT) (h : SWF rt)
    (_hw : WF rt) :
    match (recAt fuel).execList env l rt with
    | .ok _ rt' => rt'.scope = rt.scope ∧ SWF rt'
    | .err _ rt' => ∃ xs, rt'.scope = xs ++ rt.scope
    | .crash msg rt' => ¬ ScopeMsg msg ∧ ∃ xs, rt'.scope = xs ++ rt.scope
    | _ => True := by
  have hp := ((recScoped_recAt fuel).execList env l).post rt h
  cases hr : (recAt fuel).execList env l rt with
  | ok v rt' => rw [hr] at hp; exact ⟨hp.2, hp.1.swf⟩
  | err e rt' => rw [hr] at hp; exact hp.suffix
  | crash m rt' => rw [hr] at hp; exact ⟨hp.1, hp.2.suffix⟩
  | fuel => trivial
  | unsupported w => trivial

/-- the runtime is well-formed again after a failure too: a caller that recovers (`try`, `isset`,
    the content closure's deferred function) continues from a sound runtime -/
theorem runtime_is_well_formed_after_failure (fuel : Nat) (env : Env) (l : List Stmt) (rt rt' : RT) (e : Err)
    (h : SWF rt) (hr : (recAt fuel).execList env l rt = .err e rt') :
    SWF rt' ∧ rt.frames.length ≤ rt'.frames.length := by
  have hp := ((recScoped_recAt fuel).execList env l).post rt h
  rw [hr] at hp
  exact ⟨hp.swf, hp.len⟩

/-- the runtime `Template.Execute` starts from is well-formed -/
theorem initRT_swf (t : Tmpl) (vars : List (Bytes × Val)) (data : Val) : SWF (initRT t vars data) := by
  refine ⟨by simp [initRT], ?_, ?_, ?_⟩
  · intro id hid; simp [initRT] at hid ⊢; omega
  · intro f hf; simp [initRT] at hf; rw [hf]; rfl
  · intro c hc; simp [initRT] at hc

/-- **Execute never re-panics because of its scope bookkeeping.** -/
theorem execute_never_panics_in_scope_bookkeeping (fuel : Nat) (env : Env) (t : Tmpl)
    (vars : List (Bytes × Val)) (data : Val) (msg : String) (out : List Chunk) :
    execute fuel env t vars data = .crash msg out → ¬ ScopeMsg msg := by
  unfold execute
  cases rootOf env 64 t with
  | none => intro h; cases h
  | some root =>
    have hp := ((recScoped_recAt fuel).execList env root.root).post _ (initRT_swf t vars data)
    dsimp only
    cases hr : (recAt fuel).execList env root.root (initRT t vars data) with
    | ok v rt' => intro h; cases h
    | err e rt' => intro h; cases h
    | crash m rt' =>
      rw [hr] at hp
      intro h
      cases h
      exact hp.1
    | fuel => intro h; cases h
    | unsupported w => intro h; cases h

/-- **`defer st.releaseScope()` never runs on an empty chain.**  From a well-formed runtime
    `st.newScope()` succeeds, and whatever the body does (finish, panic with an error, panic with a
    runtime error) the chain the deferred function sees is the pushed scope on top of the
    caller's chain, or deeper: `popScope`'s identity-on-`[]` case is never exercised, and what is
    left after the pop still ends in the caller's chain. -/
theorem deferred_releaseScope_sees_pushed_scope {α} (body : M α) (hb : Scoped body) (rt : RT) (h : SWF rt) :
    ∃ rt1, newScope rt = .ok () rt1 ∧ rt1.scope = rt.frames.length :: rt.scope ∧
      withNewScopeD body rt = deferred popScope body rt1 ∧
      match body rt1 with
      | .ok _ rt2 | .err _ rt2 | .crash _ rt2 =>
        ∃ xs, rt2.scope = xs ++ rt.frames.length :: rt.scope
      | _ => True := by
  obtain ⟨rt1, hn, h1, hs1, _⟩ := newScope_ok h
  refine ⟨rt1, hn, hs1, ?_, ?_⟩
  · unfold withNewScopeD; rw [bind_ok hn]
  · have hp := hb.post rt1 h1
    cases hr : body rt1 with
    | ok a rt2 => rw [hr] at hp; exact ⟨[], by rw [hp.2, hs1]; rfl⟩
    | err e rt2 => rw [hr] at hp; obtain ⟨xs, hx⟩ := hp.suffix; exact ⟨xs, by rw [hx, hs1]⟩
    | crash s rt2 => rw [hr] at hp; obtain ⟨xs, hx⟩ := hp.2.suffix; exact ⟨xs, by rw [hx, hs1]⟩
    | fuel => trivial
    | unsupported w => trivial

/-- every outcome of `st.newScope(); defer st.releaseScope(); body` has a non-empty chain that ends
    in the caller's -/
theorem withNewScopeD_keeps_callers_chain {α} (body : M α) (hb : Scoped body) (rt : RT) (h : SWF rt) :
    match withNewScopeD body rt with
    | .ok _ rt' => rt'.scope = rt.scope
    | .err _ rt' | .crash _ rt' => rt'.scope ≠ [] ∧ ∃ xs, rt'.scope = xs ++ rt.scope
    | _ => True := by
  have hp := (scoped_withNewScopeD hb).post rt h
  cases hr : withNewScopeD body rt with
  | ok a rt' => rw [hr] at hp; exact hp.2
  | err e rt' => rw [hr] at hp; exact ⟨hp.swf.nonempty, hp.suffix⟩
  | crash s rt' => rw [hr] at hp; exact ⟨hp.2.swf.nonempty, hp.2.suffix⟩
  | fuel => trivial
  | unsupported w => trivial

/-- `setValue`'s two crash outcomes are unreachable from ANY runtime, well-formed or not: what
    `lookupChain` finds is an allocated frame with a non-nil map -/
theorem setValue_never_crashes (n : Bytes) (v : Val) (rt rt' : RT) (msg : String) :
    setValue n v rt ≠ .crash msg rt' := by
  unfold setValue
  cases hl : lookupChain rt n rt.scope with
  | none => intro h; cases h
  | some p =>
    obtain ⟨id, w⟩ := p
    obtain ⟨f, vs, hf, hvs⟩ := lookupChain_some rt n rt.scope id w hl
    simp only
    rw [hf]; simp only; rw [hvs]
    intro h; cases h

/-! ### the hypothesis matters, and the predicates are not empty -/

/-- without `SWF` the primitives do crash with a `ScopeMsg`: `releaseScope` on an empty chain -/
theorem releaseScope_on_empty_chain_panics :
    ∃ msg, releaseScope ({} : RT) = .crash msg {} ∧ ScopeMsg msg :=
  ⟨"nil pointer dereference (releaseScope on nil scope)", rfl, by decide⟩

/-- ... and `letVar` on a frame whose variable map is nil -/
theorem letVar_on_nil_map_panics (n : Bytes) (v : Val) :
    ∃ msg rt', letVar n v { frames := [{ vars := none, blocks := [] }], scope := [0] } = .crash msg rt' ∧
      ScopeMsg msg :=
  ⟨"assignment to entry in nil map", _, rfl, by decide⟩

/-- non-vacuity: a concrete well-formed runtime (two frames, a chain of two scopes, a content
    closure capturing the outer scope), and `ScopeMsg` holds of a concrete string and fails of
    another -/
example : SWF { frames := [{ vars := some [], blocks := [] }, { vars := some [], blocks := [] }],
                scope := [1, 0], content := some (.mk [] [0] none) } := by
  refine ⟨by simp, ?_, ?_, ?_⟩
  · intro id hid; simp at hid ⊢; omega
  · intro f hf; simp at hf; rw [hf]; rfl
  · intro c hc
    simp at hc
    subst hc
    exact (ClosureOK.mk_iff _ _ _ _).mpr ⟨by simp, by simp, by simp⟩

example : ScopeMsg "dangling scope" := by decide
example : ¬ ScopeMsg "index out of range" := by decide

/-- the hypothesis of `scope_bookkeeping_never_panics` holds of what `Execute` starts from, whatever the
    template, variables and data -/
example (t : Tmpl) : SWF (initRT t [] .invalid) := initRT_swf t [] .invalid

end JetVerif.Props.C12S
