/-
  C02, the lexer part: the scanner of lex.go (modelled state function by state function in
  Model/Lex.lean, compared with the real lexer item by item on every run) never panics, whatever the
  source and whatever the delimiter configuration.

  In the model every slice and index of lex.go that can panic is an explicit `crash` outcome
  (`l.input[l.pos:]`, `l.input[l.start:l.pos]` in emit, `l.input[l.pos-1:]` in lexSpace, `word[0]`,
  the first byte of a delimiter), and so is a loop that would not end within the fuel the model gives
  it (input length + 2).  A panic there is a panic in the lexer goroutine - unrecoverable for the
  caller of Parse / GetTemplate.

  The proof is the cursor invariant `0 ≤ start ≤ pos ≤ len(input)` carried through all twelve state
  functions, extended by "every field item recorded so far is a dot followed by a byte", with the fact each state relies on when it is entered ("the left delimiter starts here",
  "one space has been read", "the rune at the cursor is alphanumeric", ...) established by the state
  function that selects it.  Writing that invariant down for lexRightDelim is what turned up D56.

  Termination: the invariant carries a floor under `start`, so each state function's lemma also says
  how far it moved `start` (`delta`), and the potential `4·(len - start) + rank(state)` drops at every
  step (`lexer_terminates`).  The entry facts needed for that are the ones the Go code relies on
  silently: lexSpace is entered only where `atRightDelim` has just said no (otherwise its backup would
  emit an empty space item for ever), lexNumber only on a sign, dot or digit (otherwise scanNumber
  would consume nothing), the quote states only after the opening quote.
-/
import JetVerif.Lemmas.LexNoCrash
import JetVerif.Lemmas.ParseTermProd
import JetVerif.Props.C02P
import JetVerif.Props.C02H
import JetVerif.Lemmas.LexEof

namespace JetVerif.Props.C02L
open JetVerif JetVerif.Lex JetVerif.Utf8

/-- **The lexer never panics**, for every source and every configuration of action and comment
    delimiters: no slice or index out of range, no loop that outruns the input. -/
theorem lexer_never_crashes (l r lc rc input : Bytes) (m : String) (e : List Event) :
    lexRun (mkDelims l r lc rc) input ≠ .crash m e := by
  unfold lexRun
  exact (runLoop_ok _ StateId.text _ (initial_B _ (mkDelims_wf l r lc rc) input) trivial).1 m e

/-- every item the lexer hands to the parser - error items included - is positioned inside the
    source, and every field item is a dot followed by at least one byte -/
theorem lexer_items_are_well_formed (l r lc rc input : Bytes) :
    ∀ ev ∈ (lexRun (mkDelims l r lc rc) input).evs, EvOk input.length ev ∧ FieldEv ev := by
  unfold lexRun
  intro ev hev
  have := (runLoop_ok _ StateId.text _ (initial_B _ (mkDelims_wf l r lc rc) input) trivial).2 ev hev
  exact ⟨this.1, this.2.1⟩

/-- one step of the state machine from any state satisfying the invariant and the entry fact of the
    state function: no crash, invariant and next entry fact re-established -/
theorem every_state_function_is_safe (inp : Bytes) (d : Delims) (lo : Int) (st : StateId) (s : St)
    (h : B inp d lo s) (he : Entry st s) : Ok (step st s) (Steps inp d st s) := step_ok st s h he

/-- every step of the state machine lowers the potential `4·(bytes not yet emitted or ignored) +
    rank(state)`: a state function either moves `start` forward, or hands over - consuming nothing -
    to a state of lower rank (`text` to a delimiter or comment state, `insideAction` to a scanning
    state or the right delimiter, `space` to the right delimiter) -/
theorem every_step_lowers_the_potential (inp : Bytes) (d : Delims) (lo : Int) (st st' : StateId) (s s' : St)
    (h : B inp d lo s) (he : Entry st s) (hs : step st s = .ok (some st') s') :
    potential st' s' < potential st s := by
  have := step_ok st s h he
  rw [hs] at this
  exact potential_step st st' s s' h this

/-- **The lexer always ends**, and ends normally: for every source and every delimiter
    configuration the state machine reaches its final state (`eof` or an error item emitted) within
    `4·len + 16` state transitions - there is no input on which the lexer goroutine spins, and the
    fuel the model runs on never decides an outcome. -/
theorem lexer_terminates (l r lc rc input : Bytes) :
    ∃ evs, lexRun (mkDelims l r lc rc) input = .done evs := by
  have hb := initial_B (mkDelims l r lc rc) (mkDelims_wf l r lc rc) input
  have hc := (runLoop_ok (4 * input.length + 16) StateId.text _ hb trivial).1
  have hf := runLoop_terminates (4 * input.length + 16) StateId.text _ hb trivial (by
    simp only [potential, rank]
    omega)
  unfold lexRun
  cases hr : runLoop (4 * input.length + 16) StateId.text { input := input, d := mkDelims l r lc rc } with
  | done evs => exact ⟨evs, rfl⟩
  | crash m e => exact absurd hr (hc m e)
  | outOfFuel e => exact absurd hr (hf e)

/-- what the lexer produces is what the parser theorems assume (`WfItems`) -/
theorem lexer_output_satisfies_parser_assumptions (l r lc rc input : Bytes) (evs : List Event)
    (hl : lexRun (mkDelims l r lc rc) input = .done evs) : C02P.WfItems input (Parse.itemsOf evs) := by
  refine ⟨?_, lexRun_items_eof_last (mkDelims l r lc rc) input evs hl⟩
  intro it hit
  have hpos := lexer_items_are_well_formed l r lc rc input
  rw [hl] at hpos
  simp only [Outcome.evs] at hpos
  simp only [Parse.itemsOf, tokensOf, List.mem_map, List.mem_filterMap] at hit
  obtain ⟨⟨t, a, v⟩, ⟨ev, hev, hfm⟩, rfl⟩ := hit
  have := hpos ev hev
  cases ev with
  | emit t' a' b' v' =>
    simp at hfm; obtain ⟨rfl, rfl, rfl⟩ := hfm
    simp only [EvOk, FieldEv] at this
    exact ⟨by simp; omega, by simp; omega, this.2⟩
  | ignore k a' b' => simp at hfm
  | err a' msg =>
    simp at hfm; obtain ⟨rfl, rfl, rfl⟩ := hfm
    simp only [EvOk] at this
    exact ⟨by simp; omega, by simp; omega, by intro hc; simp at hc⟩

/-- **Lexer and parser together**: `Set.parse` on any source under any delimiter configuration, with
    any literal table and any loader, never crashes. -/
theorem parseSource_never_crashes (cfg : Parse.Cfg) (l r lc rc name input : Bytes) (w : String) :
    Parse.parseSource cfg (mkDelims l r lc rc) name input ≠ .crash w := by
  intro hc
  unfold Parse.parseSource at hc
  cases hl : lexRun (mkDelims l r lc rc) input with
  | done evs =>
    rw [hl] at hc
    exact C02P.parseItems_never_crashes cfg name input (Parse.itemsOf evs)
      (lexer_output_satisfies_parser_assumptions l r lc rc input evs hl) w hc
  | crash m e => exact lexer_never_crashes l r lc rc input m e hl
  | outOfFuel e => rw [hl] at hc; simp at hc

/-- a syntax error of `Set.parse` names a line of the source, for any source and configuration -/
theorem parseSource_error_names_a_source_line (cfg : Parse.Cfg) (l r lc rc name input : Bytes)
    (line : Nat) (msg : Parse.Msg)
    (he : Parse.parseSource cfg (mkDelims l r lc rc) name input = .err line msg) :
    1 ≤ line ∧ line ≤ 1 + Parse.countNl input := by
  unfold Parse.parseSource at he
  cases hl : lexRun (mkDelims l r lc rc) input with
  | done evs =>
    rw [hl] at he
    simp only at he
    unfold Parse.parseItems at he
    have hw := lexer_output_satisfies_parser_assumptions l r lc rc input evs hl
    cases hp : Parse.parseTemplate cfg (Parse.fuelFor (Parse.itemsOf evs))
        { input := input, name := name, toks := Parse.itemsOf evs } with
    | ok r s => rw [hp] at he; cases r; simp at he
    | err l2 m2 =>
      rw [hp] at he
      simp at he
      obtain ⟨rfl, rfl⟩ := he
      exact C02P.syntax_error_names_a_source_line cfg name input _ _ hw _ _ hp
    | crash w' => rw [hp] at he; simp at he
    | fuel => rw [hp] at he; simp at he
    | unsupported w' => rw [hp] at he; simp at he
  | crash m e => rw [hl] at he; simp at he
  | outOfFuel e => rw [hl] at he; simp at he

/-- **`Set.parse` leaves no goroutine behind** (the model's part of it): for every source, delimiter
    configuration, literal table and loader - if the parser returns a tree, the lexer goroutine has nothing
    left to send (it sent `itemEOF` last, the parser received it, the goroutine closed the channel and
    returned); if the parser fails, what `Template.recover` does on the error path - as regenerated from the
    source - lets the goroutine send whatever it had left and finish. -/
theorem set_parse_leaves_no_goroutine (cfg : Parse.Cfg) (l r lc rc name input : Bytes) (evs : List Event)
    (hl : lexRun (mkDelims l r lc rc) input = .done evs) :
    match Parse.parseTemplate cfg (Parse.fuelFor (Parse.itemsOf evs))
        { input := input, name := name, toks := Parse.itemsOf evs } with
    | .ok _ s' => Handover.finished s'.toks = true
    | .err _ _ => ∀ left : List Parse.Item, Handover.finished (Handover.run Handover.errorPathActs left) = true
    | _ => True := by
  have hw := lexer_output_satisfies_parser_assumptions l r lc rc input evs hl
  cases hp : Parse.parseTemplate cfg (Parse.fuelFor (Parse.itemsOf evs))
      { input := input, name := name, toks := Parse.itemsOf evs } with
  | ok r s =>
    have := C02P.successful_parse_receives_every_item cfg name input _ _ hw r s hp
    simp [Handover.finished, this]
  | err l2 m2 => exact fun left => C02H.error_path_empties_the_channel left
  | crash w => trivial
  | fuel => trivial
  | unsupported w => trivial

/-! ### the parser always ends -/

/-- **The parser never runs out of the fuel `Set.parse`'s model gives it** (40 units per item plus
    160): for every item sequence - well-formed or not, ending in `eof`, in an error item or in nothing
    at all - every literal table and every loader.  The measure is the number of items not yet consumed
    (error items handed out by the closed channel weigh nothing); every production either consumes or
    calls a production of lower rank, and every loop consumes in every round
    (Lemmas/ParseTerm.lean, Lemmas/ParseTermProd.lean). -/
theorem parser_terminates (cfg : Parse.Cfg) (name input : Bytes) (toks : List Parse.Item) :
    Parse.parseItems cfg name input toks ≠ .fuel := by
  intro hc
  unfold Parse.parseItems at hc
  have h := Parse.parseTemplate_T cfg (Parse.fuelFor toks) toks.length (by unfold Parse.fuelFor; omega)
    { input := input, name := name, toks := toks } (Parse.initial_mu name input toks)
  cases hp : Parse.parseTemplate cfg (Parse.fuelFor toks) { input := input, name := name, toks := toks } with
  | ok r s => rw [hp] at hc; cases r; simp at hc
  | err l m => rw [hp] at hc; simp at hc
  | crash w => rw [hp] at hc; simp at hc
  | fuel => rw [hp] at h; exact h
  | unsupported w => rw [hp] at hc; simp at hc

/-- lexer and parser together never run out of fuel: the model's fuel decides no outcome -/
theorem parseSource_terminates (cfg : Parse.Cfg) (l r lc rc name input : Bytes) :
    Parse.parseSource cfg (mkDelims l r lc rc) name input ≠ .fuel := by
  intro hc
  unfold Parse.parseSource at hc
  obtain ⟨evs, hl⟩ := lexer_terminates l r lc rc input
  rw [hl] at hc
  exact parser_terminates cfg name input _ hc

/-- **Parsing is total**: for every source, every delimiter configuration, every loader and every
    literal table the model of `Set.parse` yields a template or a located error (or, where the
    literal table handed to the model does not cover a literal of the source, says so) - it neither
    crashes nor fails to end. -/
theorem parseSource_total (cfg : Parse.Cfg) (l r lc rc name input : Bytes) :
    (∃ t, Parse.parseSource cfg (mkDelims l r lc rc) name input = .ok t) ∨
    (∃ line msg, Parse.parseSource cfg (mkDelims l r lc rc) name input = .err line msg ∧
      1 ≤ line ∧ line ≤ 1 + Parse.countNl input) ∨
    (∃ w, Parse.parseSource cfg (mkDelims l r lc rc) name input = .unsupported w) := by
  cases h : Parse.parseSource cfg (mkDelims l r lc rc) name input with
  | ok t => exact Or.inl ⟨t, rfl⟩
  | err line msg =>
    exact Or.inr (Or.inl ⟨line, msg, rfl, parseSource_error_names_a_source_line cfg l r lc rc name input line msg h⟩)
  | crash w => exact absurd h (parseSource_never_crashes cfg l r lc rc name input w)
  | fuel => exact absurd h (parseSource_terminates cfg l r lc rc name input)
  | unsupported w => exact Or.inr (Or.inr ⟨w, rfl⟩)

end JetVerif.Props.C02L
