/-
  C07 — Variables are lexically scoped and stable; '.' is restored after every body.

  Model: JetVerif/Model/Eval.lean (scopes are heap cells linked into a chain, as in eval.go).
  The heavy lifting (the invariant for every construct, every fuel) is in Lemmas/EvalGood.lean.
-/
import JetVerif.Lemmas.EvalGood

namespace JetVerif.Props.C07
open JetVerif JetVerif.Eval

/-- **Scope and context restoration.** Whatever a statement list does — declare variables, range
    (rebinding '.'), yield blocks with parameters and content, include, exec, try — when it finishes
    the scope chain is *the same chain of scope objects* as before, and '.' , the block content and
    the output destination are what they were.  For every fuel (= every finishing run). -/
theorem scope_and_context_restored (fuel : Nat) (env : Env) (l : List Stmt) (rt rt' : RT) (v : Val)
    (hwf : WF rt) (h : (recAt fuel).execList env l rt = .ok v rt') :
    rt'.scope = rt.scope ∧ rt'.ctx = rt.ctx ∧ rt'.content = rt.content ∧ rt'.writer = rt.writer := by
  have hp := ((recGood_recAt fuel).execList env l).post rt hwf
  rw [h] at hp
  exact ⟨hp.2.scope, hp.2.ctx, hp.2.content, hp.1.writer⟩

/-- the same for expressions (which may run templates through exec / includeIfExists) -/
theorem expression_restores (fuel : Nat) (env : Env) (e : Expr) (rt rt' : RT) (v : Val)
    (hwf : WF rt) (h : (recAt fuel).evalExpr env e rt = .ok v rt') :
    rt'.scope = rt.scope ∧ rt'.ctx = rt.ctx ∧ rt'.content = rt.content ∧ rt'.writer = rt.writer := by
  have hp := ((recGood_recAt fuel).evalExpr env e).post rt hwf
  rw [h] at hp
  exact ⟨hp.2.scope, hp.2.ctx, hp.2.content, hp.1.writer⟩

/-- Execute starts from a well-formed runtime -/
theorem initRT_wf (t : Tmpl) (vars : List (Bytes × Val)) (data : Val) : WF (initRT t vars data) := by
  intro k hk
  simp [initRT, Wr.idx] at hk
  subst hk
  exact Nat.zero_le _

/-- **Resolution order**: innermost scope first, then outer scopes (the last one is the VarMap
    passed to Execute), then Set globals, then built-ins. -/
theorem resolve_order (env : Env) (name : Bytes) (rt : RT) (hdot : name ≠ [46]) :
    resolve env name rt =
      match lookupChain rt name rt.scope with
      | some (_, v) => .ok (some v.indirectEface) rt
      | none =>
        match alookup name env.globals with
        | some v => .ok (some v.indirectEface) rt
        | none =>
          match defaultVar name with
          | some v => .ok (some v) rt
          | none => .ok none rt := by
  unfold resolve
  simp only [hdot, if_false]
  cases lookupChain rt name rt.scope with
  | some p => rfl
  | none =>
    cases alookup name env.globals with
    | some v => rfl
    | none => cases defaultVar name <;> rfl

/-- the chain is searched innermost first: a hit in the innermost frame wins -/
theorem lookup_innermost_first (rt : RT) (name : Bytes) (id : Nat) (rest : List Nat) (f : Frame)
    (vs : List (Bytes × Val)) (v : Val)
    (hf : frameAt rt id = some f) (hv : f.vars = some vs) (hl : alookup name vs = some v) :
    lookupChain rt name (id :: rest) = some (id, v) := by
  simp [lookupChain, hf, hv, hl]

/-- `=` fails when no visible scope declares the name, and then changes nothing -/
theorem assign_undeclared_fails (name : Bytes) (v : Val) (rt : RT)
    (h : lookupChain rt name rt.scope = none) : setValue name v rt = .ok false rt := by
  unfold setValue
  simp [h]

/-- `=` rebinds in the innermost scope that declares the name -/
theorem assign_innermost (name : Bytes) (v w : Val) (rt : RT) (id : Nat) (f : Frame)
    (vs : List (Bytes × Val))
    (h : lookupChain rt name rt.scope = some (id, w)) (hf : frameAt rt id = some f) (hv : f.vars = some vs) :
    setValue name v rt = .ok true (setFrame rt id { f with vars := some (aset name v vs) }) := by
  unfold setValue
  simp [h, hf, hv]

/-! Non-vacuity: a concrete run, `{{ x := 1 }}{{ range l }}{{ . }}{{ end }}`-like, finishes with the
    initial chain -/
example : WF (initRT { name := [], ext := none, imports := [], blocks := [], root := [] } [] .invalid) :=
  initRT_wf _ _ _

end JetVerif.Props.C07
