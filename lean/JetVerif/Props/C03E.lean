/-
  C03, end to end for templates without actions — "Text outside actions and comments appears in
  the output byte for byte and in source order ... A comment contributes nothing."

  Props/C03.lean proves the lexer's part (the events tile the source, token values are verbatim
  source slices).  Here the property is carried through the parser model and the evaluator model
  for templates that consist of text and comments only, i.e. whose item list is a list of text
  items followed by the end-of-file item:

    lexer items  --parseTemplate-->  one text node per text item  --erasure-->  text statements
                 --execute-->        one `.lit` chunk per text item, same bytes, same order.

  The erasure of text nodes (`eraseTexts`: `PStmt.text l b ↦ Stmt.text ⟨path, l⟩ b`) restates the
  text case of `Driver/ExecSrc.lean`'s `stmtA`, which is a `partial def` and therefore opaque.
  Lemmas: JetVerif/Lemmas/TextOnly.lean.
-/
import JetVerif.Lemmas.TextOnly
import JetVerif.Lemmas.LexEof
import JetVerif.Props.C03

namespace JetVerif.Props.C03E
open JetVerif JetVerif.Lex JetVerif.TextOnly

/-! ### 1. the parser -/

/-- **The parser turns text items into text nodes, one for one.**  For an item list that is text
    items `ts` (position, value) followed by end of file, all positioned inside the source:
    `parseTemplate` succeeds with any fuel ≥ 1 and returns exactly one `PStmt.text` per text item, in
    order, with the item's bytes and the line of the item's position (`lineAt input p` is
    `1 + count of "\n" in input[:p]`).  The whitespace-only leading text items, which the
    `extends`/`import` prologue loop skips, are not lost: they are put back in front. -/
theorem text_items_become_text_nodes (cfg : Parse.Cfg) (fuel : Nat) (input name : Bytes)
    (ts : List (Int × Bytes)) (e : Int) (ev : Bytes)
    (hpos : ∀ x ∈ ts, 0 ≤ x.1 ∧ x.1 ≤ input.length) (he : 0 ≤ e ∧ e ≤ input.length) :
    Parse.parseTemplate cfg (fuel + 1)
        { input := input, name := name,
          toks := ts.map (fun x => ⟨Tok.text, x.1, x.2⟩) ++ [⟨Tok.eof, e, ev⟩] } =
      .ok (lineAt input (firstPos ts e), ts.map fun x => Parse.PStmt.text (lineAt input x.1) x.2)
        (endSt input name e ev) :=
  parseTemplate_texts cfg fuel input name ts e ev hpos he

/-- the same as a statement about the bytes only -/
theorem text_nodes_carry_the_items_bytes (cfg : Parse.Cfg) (fuel : Nat) (input name : Bytes)
    (ts : List (Int × Bytes)) (e : Int) (ev : Bytes)
    (hpos : ∀ x ∈ ts, 0 ≤ x.1 ∧ x.1 ≤ input.length) (he : 0 ≤ e ∧ e ≤ input.length) :
    ∃ rootLine nodes s',
      Parse.parseTemplate cfg (fuel + 1)
        { input := input, name := name,
          toks := ts.map (fun x => ⟨Tok.text, x.1, x.2⟩) ++ [⟨Tok.eof, e, ev⟩] } = .ok (rootLine, nodes) s' ∧
      nodes.map (fun n => match n with | .text _ b => some b | _ => none) = ts.map (fun x => some x.2) ∧
      s'.ext = none ∧ s'.imports = [] ∧ s'.passed = [] := by
  refine ⟨_, _, _, text_items_become_text_nodes cfg fuel input name ts e ev hpos he, ?_, rfl, rfl, rfl⟩
  simp [List.map_map, Function.comp_def]

/-! ### 2. the evaluator -/

/-- **A list of text statements writes its bytes and does nothing else.**  For every fuel ≥ 1:
    `executeList` succeeds, returns no value, and appends one chunk per statement — tagged `.lit`,
    i.e. not passed through any escaper — to the current destination `k` (sinks are most recent
    first, hence the `reverse`).  Every other sink, the scope chain, the context and the block content
    are unchanged. -/
theorem text_statements_write_their_bytes (n : Nat) (env : Eval.Env) (stmts : List Stmt) (rt : Eval.RT)
    (k : Nat) (htext : ∀ s ∈ stmts, isTextStmt s = true) (hk : rt.writer.idx = some k) :
    ∃ rt', (Eval.recAt (n + 1)).execList env stmts rt = .ok .invalid rt' ∧
      rt'.sink k = (stmts.reverse.map fun s => ⟨.lit, .lit (stmtBytes s)⟩) ++ rt.sink k ∧
      (∀ j, j ≠ k → rt'.sink j = rt.sink j) ∧
      rt'.scope = rt.scope ∧ rt'.ctx = rt.ctx ∧ rt'.content = rt.content := by
  obtain ⟨rt', h1, h2, h3, h4, h5, h6, _⟩ := execList_texts_sink n env stmts rt k htext hk
  exact ⟨rt', h1, h2, h3, h4, h5, h6⟩

/-! ### 3. lexer, parser and evaluator together -/

/-- a text token of a finished lexer run lies inside the source and its value is the source slice
    that starts at its position (Props/C03 `token_values_are_source_slices`) -/
theorem text_token_in_source (d : Delims) (input : Bytes) (evs : List Event) (p : Int) (v : Bytes)
    (hlex : lexRun d input = .done evs) (hm : (Tok.text, p, v) ∈ tokensOf evs) :
    0 ≤ p ∧ p ≤ input.length ∧ ∃ q, p ≤ q ∧ q ≤ input.length ∧ v = (input.drop p.toNat).take (q - p).toNat := by
  simp only [tokensOf, List.mem_filterMap] at hm
  obtain ⟨ev, hev, hv⟩ := hm
  cases ev with
  | emit t a b w =>
    simp only [Option.some.injEq, Prod.mk.injEq] at hv
    obtain ⟨rfl, rfl, rfl⟩ := hv
    have h := C03.token_values_are_source_slices d input _ a b w (by rw [hlex]; exact hev)
    exact ⟨h.1, by omega, b, h.2.1, h.2.2.1, h.2.2.2⟩
  | ignore k a b => simp at hv
  | err a m => simp at hv

theorem eof_token_in_source (d : Delims) (input : Bytes) (evs : List Event) (e : Int) (v : Bytes)
    (hlex : lexRun d input = .done evs) (hm : (Tok.eof, e, v) ∈ tokensOf evs) :
    0 ≤ e ∧ e ≤ input.length := by
  simp only [tokensOf, List.mem_filterMap] at hm
  obtain ⟨ev, hev, hv⟩ := hm
  cases ev with
  | emit t a b w =>
    simp only [Option.some.injEq, Prod.mk.injEq] at hv
    obtain ⟨rfl, rfl, rfl⟩ := hv
    have h := C03.token_values_are_source_slices d input _ a b w (by rw [hlex]; exact hev)
    exact ⟨h.1, by omega⟩
  | ignore k a b => simp at hv
  | err a m => simp at hv

/-- **A template that consists of text and comments only renders exactly its text items, verbatim,
    in order, untagged by any escaper.**  If the lexer finishes and hands the parser text tokens
    `ts` (position, value) followed by the end-of-file token, then, for every literal table and loader
    (`cfg`), every template name and path:

    * `Set.parse` succeeds; the template has no `extends`, no imports, no blocks;
    * its root is one text node per text token; the erasure maps it to text statements `stmts`;
    * executing that template — any fuel ≥ 1, any loader contents and escaper (`env`), any variables,
      any data — succeeds, logs nothing, and its output is exactly one `.lit` chunk per text token,
      in source order, carrying the token's bytes: as one byte string, the concatenation of the text
      tokens' values;
    * and each of these values is the slice of the source at the token's position (so the output is
      the source minus the ranges the lexer dropped; with no action in the source these are the
      comments). -/
theorem action_free_template_renders_its_text (cfg : Parse.Cfg) (d : Delims) (name path input : Bytes)
    (evs : List Event) (ts : List (Int × Bytes)) (e : Int) (ev : Bytes)
    (hlex : lexRun d input = .done evs)
    (hshape : tokensOf evs = ts.map (fun x => (Tok.text, x.1, x.2)) ++ [(Tok.eof, e, ev)]) :
    ∃ t stmts,
      Parse.parseSource cfg d name input = .ok t ∧
      t.ext = none ∧ t.imports = [] ∧ t.passed = [] ∧
      t.root = ts.map (fun x => Parse.PStmt.text (lineAt input x.1) x.2) ∧
      eraseTexts path t.root = some stmts ∧
      (∀ (fuel : Nat) (env : Eval.Env) (vars : List (Bytes × Val)) (data : Val),
        Eval.execute (fuel + 1) env
            { name := name, ext := t.ext, imports := t.imports, blocks := [], root := stmts } vars data =
          .ok (ts.map fun x => ⟨.lit, .lit x.2⟩) [] ∧
        outBytes (ts.map fun x => ⟨.lit, .lit x.2⟩) = (ts.map fun x => x.2).flatten) ∧
      ∀ x ∈ ts, ∃ q, 0 ≤ x.1 ∧ x.1 ≤ q ∧ q ≤ input.length ∧
        x.2 = (input.drop x.1.toNat).take (q - x.1).toNat := by
  have hpos : ∀ x ∈ ts, InRange input x.1 := by
    intro x hx
    have := text_token_in_source d input evs x.1 x.2 hlex (by rw [hshape]; exact List.mem_append_left _ (List.mem_map.mpr ⟨x, hx, rfl⟩))
    exact ⟨this.1, this.2.1⟩
  have he : InRange input e := eof_token_in_source d input evs e ev hlex (by rw [hshape]; simp)
  have hitems : Parse.itemsOf evs = itemsT ts e ev := by
    simp [Parse.itemsOf, hshape, itemsT, List.map_map, Function.comp_def, textItem, eofItem]
  refine ⟨{ name := name, ext := none, imports := [], passed := [], rootLine := lineAt input (firstPos ts e),
             root := ts.map (textNode input) }, _, ?_, rfl, rfl, rfl, rfl, eraseTexts_textNodes path input ts, ?_, ?_⟩
  · simp only [Parse.parseSource, hlex, hitems]
    exact parseItems_texts cfg input name ts e ev hpos he
  · intro fuel env vars data
    constructor
    · rw [execute_texts fuel env name [] _ vars data
        (by intro s hs; obtain ⟨x, _, rfl⟩ := List.mem_map.mp hs; rfl)]
      simp [List.map_map, Function.comp_def, stmtBytes, litChunk]
    · have := outBytes_litChunks (ts.map fun x => x.2)
      simpa [List.map_map, Function.comp_def, litChunk] using this
  · intro x hx
    obtain ⟨h0, _, q, h1, h2, h3⟩ :=
      text_token_in_source d input evs x.1 x.2 hlex (by rw [hshape]; exact List.mem_append_left _ (List.mem_map.mpr ⟨x, hx, rfl⟩))
    exact ⟨q, h0, h1, h2, h3⟩

/-- the hypothesis on the tokens, stated by types: if every item the lexer hands over is of type
    text or end-of-file and the last one is end-of-file, the items are text items followed by
    end-of-file (the lexer sends nothing after end-of-file: Lemmas/LexEof) -/
theorem text_or_eof_items_have_the_shape (d : Delims) (input : Bytes) (evs : List Event)
    (l : List Parse.Item) (last : Parse.Item)
    (hlex : lexRun d input = .done evs) (hsplit : Parse.itemsOf evs = l ++ [last])
    (hlast : last.typ = Tok.eof) (htypes : ∀ t ∈ l, t.typ = Tok.text ∨ t.typ = Tok.eof) :
    ∃ ts : List (Int × Bytes),
      tokensOf evs = ts.map (fun x => (Tok.text, x.1, x.2)) ++ [(Tok.eof, last.pos, last.val)] := by
  have hl := lexRun_items_eof_last d input evs hlex
  rw [hsplit] at hl
  obtain ⟨ts, hts⟩ := shape_of_types l last hl hlast htypes
  refine ⟨ts, ?_⟩
  rw [← hsplit] at hts
  have hinj : (tokensOf evs).map (fun (t, a, v) => ({ typ := t, pos := a, val := v } : Parse.Item)) =
      (ts.map (fun x => (Tok.text, x.1, x.2)) ++ [(Tok.eof, last.pos, last.val)]).map
        (fun (t, a, v) => ({ typ := t, pos := a, val := v } : Parse.Item)) := by
    rw [show (tokensOf evs).map _ = Parse.itemsOf evs from rfl, hts]
    simp [itemsT, List.map_map, Function.comp_def, textItem, eofItem]
  exact (List.map_inj_right (fun a b h => by
    obtain ⟨t, p, v⟩ := a; obtain ⟨t', p', v'⟩ := b
    simp only [Parse.Item.mk.injEq] at h
    obtain ⟨rfl, rfl, rfl⟩ := h; rfl)).mp hinj

/-! ### 4. connection with the tiling theorem of Props/C03 -/

/-- the source with the dropped ranges cut out: the source slices `input[a:b]` of the ranges the
    lexer emitted (as opposed to ignored), in order -/
def keptSource (input : Bytes) : List Event → Bytes
  | [] => []
  | .emit _ a b _ :: rest => (input.drop a.toNat).take (b - a).toNat ++ keptSource input rest
  | _ :: rest => keptSource input rest

theorem keptSource_eq_token_values (input : Bytes) : ∀ (evs : List Event) (frm : Int),
    C03.Tiles input frm evs → (∀ t ∈ tokensOf evs, t.1 ≠ Tok.error) →
    keptSource input evs = ((tokensOf evs).map fun t => t.2.2).flatten := by
  intro evs
  induction evs with
  | nil => intro _ _ _; rfl
  | cons ev rest ih =>
    intro frm ht hne
    cases ev with
    | emit t a b v =>
      obtain ⟨_, hs, hrest⟩ := ht
      have hv : v = (input.drop a.toNat).take (b - a).toNat := by
        unfold slice at hs
        split at hs
        · cases hs; rfl
        · cases hs
      have := ih b hrest (fun t ht => hne t (by simp [tokensOf] at ht ⊢; exact .inr ht))
      simp [keptSource, tokensOf, ← hv] at this ⊢
      rw [this]
    | ignore k a b =>
      have := ih b ht.2 (fun t ht => hne t (by simpa [tokensOf] using ht))
      simpa [keptSource, tokensOf] using this
    | err a m => exact absurd rfl (hne (Tok.error, a, m.toUTF8.toList) (by simp [tokensOf]))

/-- **The output of an action-free template is the source with the dropped ranges cut out.**  The
    lexer's emit and ignore events tile the source (Props/C03 `events_tile_the_source`, here for any
    delimiter record); what the template renders — the concatenation of its text tokens' values,
    by `action_free_template_renders_its_text` — followed by the value of the end-of-file token
    (the slice of its own range) is exactly the concatenation of the source slices of the emitted
    ranges: no byte of an ignored range (a comment) is in it, no byte of an emitted range is missing,
    nothing is reordered. -/
theorem action_free_output_is_the_source_minus_dropped_ranges (d : Delims) (input : Bytes)
    (evs : List Event) (ts : List (Int × Bytes)) (e : Int) (ev : Bytes)
    (hlex : lexRun d input = .done evs)
    (hshape : tokensOf evs = ts.map (fun x => (Tok.text, x.1, x.2)) ++ [(Tok.eof, e, ev)]) :
    C03.Tiles input 0 evs ∧
    outBytes (ts.map fun x => ⟨.lit, .lit x.2⟩) ++ ev = keptSource input evs := by
  have htiles : C03.Tiles input 0 evs := by
    have h := lexRun_chain d input
    rw [C03.chain_iff_tiles, List.reverse_reverse, hlex] at h
    exact h
  refine ⟨htiles, ?_⟩
  rw [keptSource_eq_token_values input evs 0 htiles (by
    intro t ht
    rw [hshape] at ht
    simp only [List.mem_append, List.mem_map, List.mem_singleton] at ht
    rcases ht with ⟨x, _, rfl⟩ | rfl <;> simp)]
  have := outBytes_litChunks (ts.map fun x => x.2)
  simp only [List.map_map, Function.comp_def, litChunk] at this
  simp [hshape, this, List.map_map, Function.comp_def]

/-! ### the hypotheses are satisfiable -/

/-- `a{*c*}b` with the default delimiters: two text tokens around a dropped comment -/
example : lexRun defaultDelims [97, 123, 42, 99, 42, 125, 98] =
    .done [.emit Tok.text 0 1 [97], .ignore .comment 1 6, .emit Tok.text 6 7 [98], .emit Tok.eof 7 7 []] := by
  rfl

example : tokensOf [.emit Tok.text 0 1 [97], .ignore .comment 1 6, .emit Tok.text 6 7 [98], .emit Tok.eof 7 7 []] =
    [((0 : Int), [(97 : UInt8)]), (6, [98])].map (fun x => (Tok.text, x.1, x.2)) ++ [(Tok.eof, 7, [])] := by
  decide

/-- so the theorem applies to `a{*c*}b`: executing it yields the chunks `a`, `b` -/
example (cfg : Parse.Cfg) (name path : Bytes) :=
  action_free_template_renders_its_text cfg defaultDelims name path [97, 123, 42, 99, 42, 125, 98] _
    [((0 : Int), [(97 : UInt8)]), (6, [98])] 7 [] rfl (by decide)

end JetVerif.Props.C03E
