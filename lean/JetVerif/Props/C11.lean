/-
  C11 — a Set and its templates are safe for concurrent use and give serial results.

  What a theorem can carry here is the *discipline*, not the scheduler:
  (1) a small abstract machine of threads, one reader/writer lock and one guarded location, in which
      a thread may only begin an access while holding the lock in a sufficient mode; for every
      interleaving no state with two overlapping conflicting accesses is reachable;
  (2) the premise of (1) for jet's three mutex-guarded maps (Set.globals, the struct field-index
      cache, InMemLoader.files), decided by the kernel over the access-site table factgen
      regenerates from the source on every run;
  (3) the parsed template is never assigned to by execution-phase code (regenerated table is empty);
  (4) per-execution state is private: the reset discipline of the pooled Runtime (C10).
  The rest — the Go memory model, sync.Map, sync.Pool, the race detector's view of the real
  interleavings — is observed by the race-detector stress stream, not proved.
-/
import JetVerif.Generated.Facts
import JetVerif.Props.C10

namespace JetVerif.Props.C11

/-! ### (1) lock discipline ⇒ no overlapping conflicting accesses, for every interleaving -/

inductive Mode where
  | R | W
  deriving DecidableEq

structure Th where
  held : Option Mode := none      -- the guard, as held by this thread
  acc : Option Bool := none       -- inside an access to the guarded location (`some true` = write)

abbrev State := Nat → Th

def upd (s : State) (i : Nat) (t : Th) : State := fun k => if k = i then t else s k

/-- one step of one thread, under the semantics of a reader/writer lock; `beginAcc` is where the
    discipline enters: a write needs the lock in W mode, a read needs it in either mode -/
inductive Step : State → State → Prop where
  | acquireR (s : State) (i : Nat) : (s i).held = none → (∀ j, (s j).held ≠ some Mode.W) →
      Step s (upd s i { s i with held := some Mode.R })
  | acquireW (s : State) (i : Nat) : (s i).held = none → (∀ j, (s j).held = none) →
      Step s (upd s i { s i with held := some Mode.W })
  | release (s : State) (i : Nat) : (s i).acc = none → Step s (upd s i { s i with held := none })
  | beginAcc (s : State) (i : Nat) (w : Bool) : (s i).acc = none →
      (w = true → (s i).held = some Mode.W) → (w = false → (s i).held ≠ none) →
      Step s (upd s i { s i with acc := some w })
  | endAcc (s : State) (i : Nat) : Step s (upd s i { s i with acc := none })

inductive Reachable : State → Prop where
  | init : Reachable (fun _ => {})
  | step {s s'} : Reachable s → Step s s' → Reachable s'

/-- two different threads are inside an access at once and one of them writes -/
def Race (s : State) : Prop :=
  ∃ i j wi wj, i ≠ j ∧ (s i).acc = some wi ∧ (s j).acc = some wj ∧ (wi = true ∨ wj = true)

structure Inv (s : State) : Prop where
  wr : ∀ i, (s i).acc = some true → (s i).held = some Mode.W
  rd : ∀ i w, (s i).acc = some w → (s i).held ≠ none
  excl : ∀ i j, i ≠ j → (s i).held = some Mode.W → (s j).held = none

theorem inv_init : Inv (fun _ => {}) := by
  refine ⟨?_, ?_, ?_⟩
  · intro i h; cases h
  · intro i w h; cases h
  · intro i j _ h; cases h

theorem inv_step {s s' : State} (hi : Inv s) (hs : Step s s') : Inv s' := by
  cases hs with
  | acquireR i hn hw =>
    refine ⟨?_, ?_, ?_⟩
    · intro k hk
      by_cases e : k = i
      · subst e; simp [upd] at hk ⊢; have := hi.rd k true hk; exact absurd hn this
      · simp [upd, e] at hk ⊢; exact hi.wr k hk
    · intro k w hk
      by_cases e : k = i
      · subst e; simp [upd]
      · simp [upd, e] at hk ⊢; exact hi.rd k w hk
    · intro a b hab ha
      by_cases ea : a = i
      · subst ea; simp [upd] at ha
      · simp [upd, ea] at ha
        by_cases eb : b = i
        · subst eb; exact absurd ha (hw a)
        · simp [upd, eb]; exact hi.excl a b hab ha
  | acquireW i hn hall =>
    refine ⟨?_, ?_, ?_⟩
    · intro k hk
      by_cases e : k = i
      · subst e; simp [upd]
      · simp [upd, e] at hk ⊢; exact hi.wr k hk
    · intro k w hk
      by_cases e : k = i
      · subst e; simp [upd]
      · simp [upd, e] at hk ⊢; exact hi.rd k w hk
    · intro a b hab ha
      by_cases eb : b = i
      · subst eb
        have ea : a ≠ b := hab
        simp [upd, ea] at ha
        rw [hall a] at ha; cases ha
      · simp [upd, eb]; exact hall b
  | release i hacc =>
    refine ⟨?_, ?_, ?_⟩
    · intro k hk
      by_cases e : k = i
      · subst e; simp [upd] at hk; rw [hacc] at hk; cases hk
      · simp [upd, e] at hk ⊢; exact hi.wr k hk
    · intro k w hk
      by_cases e : k = i
      · subst e; simp [upd] at hk; rw [hacc] at hk; cases hk
      · simp [upd, e] at hk ⊢; exact hi.rd k w hk
    · intro a b hab ha
      by_cases ea : a = i
      · subst ea; simp [upd] at ha
      · simp [upd, ea] at ha
        by_cases eb : b = i
        · subst eb; simp [upd]
        · simp [upd, eb]; exact hi.excl a b hab ha
  | beginAcc i w hacc hw hr =>
    refine ⟨?_, ?_, ?_⟩
    · intro k hk
      by_cases e : k = i
      · subst e; simp [upd] at hk ⊢; exact hw hk
      · simp [upd, e] at hk ⊢; exact hi.wr k hk
    · intro k w' hk
      by_cases e : k = i
      · subst e
        simp [upd] at hk ⊢
        cases w with
        | true => rw [hw rfl]; simp
        | false => exact hr rfl
      · simp [upd, e] at hk ⊢; exact hi.rd k w' hk
    · intro a b hab ha
      have ha' : (s a).held = some Mode.W := by
        by_cases ea : a = i
        · subst ea; simpa [upd] using ha
        · simpa [upd, ea] using ha
      have := hi.excl a b hab ha'
      by_cases eb : b = i
      · subst eb; simpa [upd] using this
      · simpa [upd, eb] using this
  | endAcc i =>
    refine ⟨?_, ?_, ?_⟩
    · intro k hk
      by_cases e : k = i
      · subst e; simp [upd] at hk
      · simp [upd, e] at hk ⊢; exact hi.wr k hk
    · intro k w hk
      by_cases e : k = i
      · subst e; simp [upd] at hk
      · simp [upd, e] at hk ⊢; exact hi.rd k w hk
    · intro a b hab ha
      have ha' : (s a).held = some Mode.W := by
        by_cases ea : a = i
        · subst ea; simpa [upd] using ha
        · simpa [upd, ea] using ha
      have := hi.excl a b hab ha'
      by_cases eb : b = i
      · subst eb; simpa [upd] using this
      · simpa [upd, eb] using this

theorem inv_no_race {s : State} (hi : Inv s) : ¬ Race s := by
  intro ⟨i, j, wi, wj, hij, hai, haj, hw⟩
  cases hw with
  | inl h =>
    subst h
    have := hi.excl i j hij (hi.wr i hai)
    exact hi.rd j wj haj this
  | inr h =>
    subst h
    have := hi.excl j i (fun e => hij e.symm) (hi.wr j haj)
    exact hi.rd i wi hai this

/-- **No interleaving reaches a race**: whatever the number of threads and whatever the schedule,
    if every write access is begun holding the lock in W mode and every read access holding it in
    some mode, two conflicting accesses never overlap. -/
theorem disciplined_is_race_free {s : State} (h : Reachable s) : ¬ Race s := by
  have : Inv s := by
    induction h with
    | init => exact inv_init
    | step _ hs ih => exact inv_step ih hs
  exact inv_no_race this

/-! ### (2) jet's guarded maps are accessed with that discipline -/

/-- eval.go / set.go / loader.go / dump.go as they are now: every write site of the three
    mutex-guarded maps holds the guard in W mode, every read site holds it in R or W mode, and each
    map has at least one write site under the lock (so the table is not vacuous) -/
theorem jet_lock_discipline :
    Facts.lockShapeOk = true ∧
    (∀ s ∈ Facts.lockSites, (s.2.2.1 = "write" → s.2.2.2 = "W") ∧
                             (s.2.2.1 = "read" → (s.2.2.2 = "R" ∨ s.2.2.2 = "W"))) ∧
    (∀ m ∈ ["Set.globals", "cachedStructsFieldIndex", "InMemLoader.files"],
        ∃ s ∈ Facts.lockSites, s.1 = m ∧ s.2.2.1 = "write" ∧ s.2.2.2 = "W") := by decide

/-! ### (3) execution never assigns to the parsed template -/

/-- no assignment in eval.go, exec.go, default.go, func.go, dump.go or ranger.go targets a field of
    `Template` or of a node struct -/
theorem execution_does_not_write_the_ast : Facts.execPhaseAstWrites = [] := by decide

/-! ### (4) per-execution state is private to the execution -/

/-- all state an execution can observe is assigned by that execution or reset before the Runtime
    went back to the pool (C10) — so two executions, concurrent or not, share no mutable
    interpreter state through the pool -/
theorem runtime_state_is_private (before : List (String → Bool)) :
    ∀ f ∈ Facts.runtimeFieldsUsed,
      C10.execInit C10.jet before.length (C10.runHist C10.jet 0 before C10.fresh) f = none ∨
      C10.execInit C10.jet before.length (C10.runHist C10.jet 0 before C10.fresh) f = some before.length :=
  C10.jet_no_residue before

end JetVerif.Props.C11
