/-
  C05, the evaluator's part for `range` over slices — "range renders its body once per element - in order
  for slices … - binding the index/key, the value and '.' as documented for the zero-, one- and two-variable
  forms, and renders the else branch instead exactly when there are no elements."

  Props/C05.lean proves facts about the slice RANGER (`slice_ranger_in_order`) and about `rangeLoop` on an
  empty ranger; Props/C05P.lean proves that the parser maps the spelling of a range statement to the promised
  tree.  Here:

  A. (evaluator, AST level)  For a `Stmt.rangeS` of the shape the parser builds, an ARBITRARY body, and a range
     expression whose value ranges as a slice of `x₀ … x_{n-1}` (a typed slice, a `[]interface{}`, a pointer
     to / an interface around one: `getRanger v = .ok (.sliceR es 0 ifc)`), executing the statement is an
     explicitly defined fold over the element list (`RangeChain.iterate`):

       iterate step i []        = nothing (the invalid value)
       iterate step i (x :: xs) = do ret ← step i x; if ret.IsValid() then ret else iterate step (i+1) xs

     where `step i x` is ONE rendering of the body:
       zero variables   `withCtxND (dotOf ifc x) (r.execList env body)`: `.` = the element, unwrapped by
                        `indirectEface` (an element of a `[]interface{}` reaches `.` as its dynamic value; a nil
                        one stays a nil interface); `.` is put back afterwards;
       `k := e`         `letVar k i` then the same: with ONE variable it receives the INDEX and `.` the element
                        (that is what eval.go does: the value slot exists only when there are two variables);
       `k, v := e`      `letVar k i; letVar v x'; r.execList env body` with `x'` the ranger's value (for a
                        `[]interface{}` the Interface-kinded value; identifier lookups unwrap it); `.` untouched.
     The runtime (sinks, log, frames) is threaded from one iteration to the next; a failing body is the
     statement's failure (nothing after it runs).  With no element the statement is the else list, or nothing.

     What the model does, precisely - deviations from the informal reading are marked (!):
     * fuel: every iteration runs the body with the SAME `r`; a range executed by `execStmt (recAt K)` runs
       its body by `(recAt K).execList` and evaluates its expression by `(recAt K).evalExpr`, whatever `n` is.
       There is no fuel per iteration.  The loop has its own counter starting at 100000 and a slice of `n`
       elements needs `n + 1` calls of `Range()`: the theorems require `n < 100000`; beyond, the model answers
       `unsupported "range too long"` (`range_too_long_is_outside_the_model`).
     * `ret.IsValid()`: a body that returns a valid value (a `{{return}}` in it) ends the loop and that value
       is the statement's value (`range_stops_when_the_body_returns`).
     * (!) the declaring forms open ONE scope around the whole loop (`st.newScope()` before the loop,
       `st.releaseScope()` after it, not deferred), not a fresh scope per iteration: `k` and `v` are
       re-assigned in that scope each time round.  The range expression is evaluated BEFORE the scope opens.
     * (!) the model puts `.` back after every iteration (Go: once after the loop; nothing can observe the
       difference, see the comment in `rangeLoop`), so "`.` afterwards" holds iteration by iteration:
       `range_puts_dot_back`.

  B. (composition)  For an identifier range expression and text-only body and else list: the parser model maps
     the spelling `{{range x}}` texts `{{else}}` texts' `{{end}}` to a tree (C05P), the tree erases to
     `rangeStmt0` (`RangeChain.eraseR`: `IfChain.eraseS` does not cover `.branch false …` nodes, so the range
     case of `Driver/ExecSrc.lean`'s `stmtA` - a `partial def` - is restated there), and `Template.Execute` on
     it writes the body's text exactly `n` times when `x` stands for a slice of `n ≥ 1` elements, the else
     text once when `n = 0`, and nothing else.  The parser step is `textOrAction` on the statement's spelling
     (statement level, as in C05P / C05E), not a whole `parseSource` run.

  Lemmas: JetVerif/Lemmas/RangeChain.lean.
-/
import JetVerif.Lemmas.RangeChain
import JetVerif.Props.C05E

namespace JetVerif.Props.C05R
open JetVerif JetVerif.Eval JetVerif.IfChain JetVerif.RangeChain JetVerif.TextOnly

/-! ### A. the evaluator on slices of any length -/

/-- **A range statement is `execRange`, whose value it hands on**; it does not touch the let-scope flag of
    the list it stands in. -/
theorem range_statement_is_execRange (r : Rec) (env : Env) (ins : Bool) (loc : Loc) (set : Option SetN)
    (e : Option Expr) (body : List Stmt) (els : Option (List Stmt)) (rt : RT) :
    execStmt r env ins (.rangeS loc set e body els) rt = stmtRes ins (execRange r env loc set e body els rt) :=
  execStmt_range r env ins loc set e body els rt

/-- **`{{range e}}body{{else}}els{{end}}` over `n ≥ 1` elements renders `body` once per element, in order,
    with `.` = the element.**  If `e` evaluates (leaving runtime `rt1`) to a value that ranges as the slice
    `x :: xs` (fewer than 100000 elements), the statement is the fold `iterate` over `x :: xs` from `rt1`: the
    i-th step runs `body` (by the same `r.execList` that runs the list the statement stands in) with `.` bound
    to the unwrapped i-th element and puts `.` back; the runtime is threaded through; a step that returns a
    valid value or fails ends the loop.  `els` does not occur on the right. -/
theorem range_runs_its_body_once_per_element_in_order (r : Rec) (env : Env) (ins : Bool) (loc : Loc) (e : Expr)
    (body : List Stmt) (els : Option (List Stmt)) (rt rt1 : RT) (v x : Val) (xs : List Val) (ifc : Bool)
    (he : r.evalExpr env e rt = .ok v rt1) (hv : getRanger v = .ok (.sliceR (x :: xs) 0 ifc))
    (hlen : (x :: xs).length < 100000) :
    execStmt r env ins (.rangeS loc none (some e) body els) rt =
      stmtRes ins (iterate (fun _ y => withCtxND (dotOf ifc y) (r.execList env body)) 0 (x :: xs) rt1) := by
  rw [execStmt_range, execRange_none r env loc e body els rt rt1 v (x :: xs) ifc he hv hlen]
  simp only [loopRes, iterStep_none]
  rfl

/-- the same, with the fuel spelled out and the value a slice: executed at fuel `K`, expression and every
    rendering of the body run at fuel `K` -/
theorem range_over_slice_at_fuel (K : Nat) (env : Env) (ins : Bool) (loc : Loc) (e : Expr)
    (body : List Stmt) (els : Option (List Stmt)) (rt rt1 : RT) (x : Val) (xs : List Val) (ifc nl : Bool)
    (he : (recAt K).evalExpr env e rt = .ok (.slice (x :: xs) ifc nl) rt1) (hlen : (x :: xs).length < 100000) :
    execStmt (recAt K) env ins (.rangeS loc none (some e) body els) rt =
      stmtRes ins (iterate (fun _ y => withCtxND (dotOf ifc y) ((recAt K).execList env body)) 0 (x :: xs) rt1) :=
  range_runs_its_body_once_per_element_in_order (recAt K) env ins loc e body els rt rt1 _ x xs ifc he
    (getRanger_slice _ ifc nl) hlen

/-- what `.` is for an element: the element itself for a typed slice (interface values apart), the
    dynamic value for a non-nil element of a `[]interface{}`, a nil interface for a nil element -/
theorem dot_of_typed_element (x : Val) (h : ∀ y, x ≠ .iface y) : dotOf false x = x := by
  cases x <;> simp_all [dotOf, elemVal, Val.indirectEface]
theorem dot_of_interface_element (x : Val) (h : x ≠ .invalid) : dotOf true x = x :=
  C05.element_unwrapped x h
theorem dot_of_nil_interface_element : dotOf true .invalid = .iface .invalid := rfl

/-- **No elements, with `{{else}}`: the else list runs, the body does not** (`body` does not occur on the
    right); it runs at the statement's fuel, from the runtime the expression left, in no scope of its own. -/
theorem range_over_empty_runs_else (r : Rec) (env : Env) (ins : Bool) (loc : Loc) (e : Expr)
    (body l : List Stmt) (rt rt1 : RT) (v : Val) (ifc : Bool)
    (he : r.evalExpr env e rt = .ok v rt1) (hv : getRanger v = .ok (.sliceR [] 0 ifc)) :
    execStmt r env ins (.rangeS loc none (some e) body (some l)) rt = stmtRes ins (r.execList env l rt1) := by
  rw [execStmt_range, execRange_none r env loc e body _ rt rt1 v [] ifc he hv (by decide)]
  rfl

/-- **No elements, no `{{else}}`: nothing happens** — no value, and the runtime (output included) is the
    one the expression left. -/
theorem range_over_empty_without_else_writes_nothing (r : Rec) (env : Env) (ins : Bool) (loc : Loc) (e : Expr)
    (body : List Stmt) (rt rt1 : RT) (v : Val) (ifc : Bool)
    (he : r.evalExpr env e rt = .ok v rt1) (hv : getRanger v = .ok (.sliceR [] 0 ifc)) :
    execStmt r env ins (.rangeS loc none (some e) body none) rt = .ok (.invalid, .invalid, ins) rt1 := by
  rw [execStmt_range, execRange_none r env loc e body _ rt rt1 v [] ifc he hv (by decide)]
  rfl

/-- **With at least one element the else list plays no role**: same statement with another else list, or
    none, behaves identically. -/
theorem else_is_ignored_when_there_are_elements (r : Rec) (env : Env) (ins : Bool) (loc : Loc) (e : Expr)
    (body : List Stmt) (els els' : Option (List Stmt)) (rt rt1 : RT) (v x : Val) (xs : List Val) (ifc : Bool)
    (he : r.evalExpr env e rt = .ok v rt1) (hv : getRanger v = .ok (.sliceR (x :: xs) 0 ifc))
    (hlen : (x :: xs).length < 100000) :
    execStmt r env ins (.rangeS loc none (some e) body els) rt =
      execStmt r env ins (.rangeS loc none (some e) body els') rt := by
  rw [range_runs_its_body_once_per_element_in_order r env ins loc e body els rt rt1 v x xs ifc he hv hlen,
    range_runs_its_body_once_per_element_in_order r env ins loc e body els' rt rt1 v x xs ifc he hv hlen]

/-- **The fold, one element at a time.**  A rendering that finishes without a value hands its runtime to the
    next element (index + 1); one that returns a valid value ends the loop with that value; one that fails
    is the failure of the loop. -/
theorem range_goes_on_after_a_rendering (step : Nat → Val → M Val) (i : Nat) (x : Val) (xs : List Val) (rt rt1 : RT)
    (h : step i x rt = .ok .invalid rt1) : iterate step i (x :: xs) rt = iterate step (i + 1) xs rt1 :=
  iterate_cons_ok step i x xs rt rt1 h

theorem range_stops_when_the_body_returns (step : Nat → Val → M Val) (i : Nat) (x : Val) (xs : List Val) (rt rt1 : RT)
    (v : Val) (h : step i x rt = .ok v rt1) (hv : v.isValid = true) : iterate step i (x :: xs) rt = .ok v rt1 :=
  iterate_cons_ret step i x xs rt rt1 v h hv

theorem range_fails_when_the_body_fails (step : Nat → Val → M Val) (i : Nat) (x : Val) (xs : List Val) (rt rt1 : RT)
    (e : Err) (h : step i x rt = .err e rt1) : iterate step i (x :: xs) rt = .err e rt1 :=
  iterate_cons_err step i x xs rt rt1 e h

theorem range_ends_after_the_last_element (step : Nat → Val → M Val) (i : Nat) (rt : RT) :
    iterate step i [] rt = .ok .invalid rt := rfl

/-- **`.` is put back**: when the zero-variable loop finishes, `.` is what it was when the loop started
    (whatever the bodies did). -/
theorem range_puts_dot_back (r : Rec) (env : Env) (body : List Stmt) (ifc : Bool) (xs : List Val) (i : Nat)
    (a : Val) (rt rt' : RT)
    (h : iterate (fun _ y => withCtxND (dotOf ifc y) (r.execList env body)) i xs rt = .ok a rt') :
    rt'.ctx = rt.ctx :=
  iterate_step0_ctx r env body ifc xs i a rt rt' h

/-- **`{{range k, v := e}}body{{end}}` over `n ≥ 1` elements.**  The statement's `Set` is what the parser
    builds: `:=`, two identifiers on the left, the ranged expression first on the right.  `e` is evaluated
    first (in the enclosing scope); then ONE scope is opened, the fold runs in it, and the scope is released
    (`withNewScopeND`).  The i-th step declares / re-assigns `k` = the index `i` (an `int`) and `v` = the
    i-th value in that scope, then runs `body`; `.` is not touched. -/
theorem range_two_variables_binds_index_and_value (r : Rec) (env : Env) (ins : Bool) (loc : Loc) (st : SetN)
    (oe : Option Expr) (lk lv : Loc) (k vn : Bytes) (e : Expr) (more : List Expr)
    (body : List Stmt) (els : Option (List Stmt)) (rt rt1 : RT) (v x : Val) (xs : List Val) (ifc : Bool)
    (hlet : st.isLet = true) (hl : st.left = [.ident lk k, .ident lv vn]) (hr : st.right = e :: more)
    (he : r.evalExpr env e rt = .ok v rt1) (hv : getRanger v = .ok (.sliceR (x :: xs) 0 ifc))
    (hlen : (x :: xs).length < 100000) :
    execStmt r env ins (.rangeS loc (some st) oe body els) rt =
      stmtRes ins (withNewScopeND (iterate (fun i y => do
          letVar k (.int i)
          letVar vn (elemVal ifc y)
          r.execList env body) 0 (x :: xs)) rt1) := by
  rw [execStmt_range, execRange_set r env loc st oe e more body els rt rt1 v (x :: xs) ifc hr he hv hlen]
  simp only [hlet, if_true, loopRes, iterStep_two r env st lk lv k vn body ifc hlet hl]
  rfl

/-- **`{{range k := e}}body{{end}}`: with ONE variable, it receives the index and `.` the element.** -/
theorem range_one_variable_binds_index_and_dot (r : Rec) (env : Env) (ins : Bool) (loc : Loc) (st : SetN)
    (oe : Option Expr) (lk : Loc) (k : Bytes) (e : Expr) (more : List Expr)
    (body : List Stmt) (els : Option (List Stmt)) (rt rt1 : RT) (v x : Val) (xs : List Val) (ifc : Bool)
    (hlet : st.isLet = true) (hl : st.left = [.ident lk k]) (hr : st.right = e :: more)
    (he : r.evalExpr env e rt = .ok v rt1) (hv : getRanger v = .ok (.sliceR (x :: xs) 0 ifc))
    (hlen : (x :: xs).length < 100000) :
    execStmt r env ins (.rangeS loc (some st) oe body els) rt =
      stmtRes ins (withNewScopeND (iterate (fun i y => do
          letVar k (.int i)
          withCtxND (dotOf ifc y) (r.execList env body)) 0 (x :: xs)) rt1) := by
  rw [execStmt_range, execRange_set r env loc st oe e more body els rt rt1 v (x :: xs) ifc hr he hv hlen]
  simp only [hlet, if_true, loopRes, iterStep_one r env st lk k body ifc hlet hl]
  rfl

/-- **Declaring forms over no elements: the else list (or nothing), inside the loop's scope**, which is
    opened and released around it. -/
theorem range_with_variables_over_empty_runs_else (r : Rec) (env : Env) (ins : Bool) (loc : Loc) (st : SetN)
    (oe : Option Expr) (e : Expr) (more : List Expr) (body : List Stmt) (els : Option (List Stmt)) (rt rt1 : RT)
    (v : Val) (ifc : Bool) (hlet : st.isLet = true) (hr : st.right = e :: more)
    (he : r.evalExpr env e rt = .ok v rt1) (hv : getRanger v = .ok (.sliceR [] 0 ifc)) :
    execStmt r env ins (.rangeS loc (some st) oe body els) rt =
      stmtRes ins (withNewScopeND (match els with
        | some l => r.execList env l
        | none => pure .invalid) rt1) := by
  rw [execStmt_range, execRange_set r env loc st oe e more body els rt rt1 v [] ifc hr he hv (by decide)]
  simp only [hlet, if_true, loopRes]
  rfl

/-- **A failing range expression is the statement's failure, and no body runs.** -/
theorem range_expression_failure_is_the_failure (r : Rec) (env : Env) (ins : Bool) (loc : Loc) (e : Expr)
    (body : List Stmt) (els : Option (List Stmt)) (rt rt1 : RT) (err : Err)
    (he : r.evalExpr env e rt = .err err rt1) :
    execStmt r env ins (.rangeS loc none (some e) body els) rt = .err err rt1 := by
  rw [execStmt_range]
  have : execRange r env loc none (some e) body els rt = .err err rt1 := by
    show (r.evalExpr env e >>= fun v => rangeCore r env loc none v body els) rt = _
    exact bind_err he
  rw [this]; rfl

/-- **More elements than the loop counter: outside the model.**  `rangeLoop` counts down from 100000; when
    the counter is used up the model does not claim anything about Go (`unsupported`). -/
theorem range_too_long_is_outside_the_model (r : Rec) (env : Env) (set : Option SetN) (ks vs : Option Nat)
    (body : List Stmt) (els : Option (List Stmt)) (st : RangerSt) (first : Bool) (rt : RT) :
    rangeLoop r env set ks vs body els 0 st first rt = .unsupported "range too long" := rfl

/-! ### B. parser, erasure and evaluator together: identifier expression, text body -/

open JetVerif.StmtGrammar JetVerif.Props.C05P JetVerif.Props.C05E

/-- **The tree of `{{range x}}texts[{{else}}texts']{{end}}` erases to the `rangeS` statement** without `Set`,
    with the identifier as expression, the texts as body and else list, every node on line 1. -/
theorem range_tree_erases_to_rangeS (path x : Bytes) (bs : List Bytes) (fin : Option (List Bytes)) :
    eraseR path (.branch false 1 (setV .none (ExprGrammar.tree7 (atom7 x))) (exprV .none (ExprGrammar.tree7 (atom7 x))) 1
      (treeL (textsL bs)) ((fin.map textsL).map fun l => (1, treeL l))) = some (rangeStmt0 path x bs fin) :=
  eraseR_range0 path x bs fin

/-- … and the tree of `{{range k, v := x}}texts[{{else}}texts']{{end}}` to the statement with the `Set`
    `k, v := x` the evaluator theorem `range_two_variables_binds_index_and_value` is about. -/
theorem range_tree_two_variables_erases_to_rangeS (path k v x : Bytes) (bs : List Bytes) (fin : Option (List Bytes)) :
    eraseR path (.branch false 1 (setV (.two k v) (ExprGrammar.tree7 (atom7 x))) (exprV (.two k v) (ExprGrammar.tree7 (atom7 x))) 1
      (treeL (textsL bs)) ((fin.map textsL).map fun l => (1, treeL l))) = some (rangeStmt2 path k v x bs fin) :=
  eraseR_range2 path k v x bs fin

/-- **`{{range x}}body text{{else}}else text{{end}}`, source spelling to output.**  For every literal table
    `cfg`, parser state about to read the spelling, and whatever items `rest` follow:

    * the parser model returns a tree and stops right behind the `{{end}}` (C05P);
    * the tree erases to a statement `s`, the zero-variable `rangeS`;
    * for all variables, globals and data such that `x` stands for a slice (typed or `[]interface{}`) of
      `n < 100000` elements (`identVal`: the variable of that name, else the global, else the built-in; `.`
      is the data) and every fuel ≥ 2, `Template.Execute` succeeds, logs nothing, and its output is
      - for `n ≥ 1`: the body's text items, one literal chunk each, in order, repeated exactly `n` times,
      - for `n = 0`: the else text items once (nothing without `{{else}}`),
      and nothing else. -/
theorem parsed_range_renders_body_n_times (cfg : Parse.Cfg) (path name x : Bytes) (bs : List Bytes)
    (fin : Option (List Bytes)) (n : Nat) (b : Parse.PSt) (it0 : Parse.Item) (rest : List Parse.Item)
    (hn : n ≥ 10 * sizeS (rangeOf .none (atom7 x) (textsL bs) (fin.map textsL))) :
    ∃ tree s,
      Parse.textOrAction cfg n (Parse.mkS b (rangeToks .none (atom7 x) (textsL bs) (fin.map textsL) ++ rest) it0 0) =
        .ok tree (Parse.mkS b rest rd 0) ∧
      eraseR path tree = some s ∧
      s = rangeStmt0 path x bs fin ∧
      (∀ (env : Env) (blocks : List (Bytes × BlockN)) (vars : List (Bytes × Val)) (data : Val)
        (e : Val) (es : List Val) (ifc nl : Bool) (m : Nat),
        identVal env vars data x = some (.slice (e :: es) ifc nl) → (e :: es).length < 100000 →
        execute (m + 2) env (tmplOf name blocks s) vars data =
          .ok (List.replicate (e :: es).length (bs.map litChunk)).flatten []) ∧
      (∀ (env : Env) (blocks : List (Bytes × BlockN)) (vars : List (Bytes × Val)) (data : Val) (ifc nl : Bool) (m : Nat),
        identVal env vars data x = some (.slice [] ifc nl) →
        execute (m + 2) env (tmplOf name blocks s) vars data = .ok ((fin.getD []).map litChunk) []) := by
  refine ⟨_, _, range_is_parsed_as_written cfg .none (atom7 x) (textsL bs) (fin.map textsL) n b it0 rest hn,
    eraseR_range0 path x bs fin, rfl, ?_, ?_⟩
  · intro env blocks vars data e es ifc nl m hx hlen
    exact execute_tmplOf (m + 1) env name blocks _ vars data _
      (run_rangeStmt0_init m env path x bs fin _ vars data _ (e :: es) ifc hx (getRanger_slice _ ifc nl) hlen)
  · intro env blocks vars data ifc nl m hx
    exact execute_tmplOf (m + 1) env name blocks _ vars data _
      (run_rangeStmt0_init m env path x bs fin _ vars data _ [] ifc hx (getRanger_slice _ ifc nl) (by decide))

/-- `Execute` on a one-statement template, read off the final runtime: the output is sink 0 (most recent
    first), the log is the runtime's -/
theorem execute_tmplOf_sink (fuel : Nat) (env : Env) (name : Bytes) (blocks : List (Bytes × BlockN)) (s : Stmt)
    (vars : List (Bytes × Val)) (data : Val) (chunks : List Chunk) (v : Val) (rt' : RT)
    (h : (recAt (fuel + 1)).execList env [s] (initRT (tmplOf name blocks s) vars data) = .ok v rt')
    (hs : rt'.sink 0 = chunks.reverse) (hl : rt'.log = []) :
    execute (fuel + 1) env (tmplOf name blocks s) vars data = .ok chunks [] := by
  have hr : rootOf env 64 (tmplOf name blocks s) = some (tmplOf name blocks s) := rfl
  simp only [execute, hr]
  have hroot : (tmplOf name blocks s).root = [s] := rfl
  rw [hroot, h]
  simp [hs, hl]

/-- **`{{range k, v := x}}body text{{else}}else text{{end}}`, source spelling to output**: as
    `parsed_range_renders_body_n_times`, for the two-variable declaring form.  The loop scope is opened on
    `Execute`'s scope, `k` and `v` are re-assigned in it `n` times, the scope is released; the output is the
    body's text `n` times (`n ≥ 1`), or the else text once (`n = 0`). -/
theorem parsed_range_two_variables_renders_body_n_times (cfg : Parse.Cfg) (path name k v x : Bytes) (bs : List Bytes)
    (fin : Option (List Bytes)) (n : Nat) (b : Parse.PSt) (it0 : Parse.Item) (rest : List Parse.Item)
    (hn : n ≥ 10 * sizeS (rangeOf (.two k v) (atom7 x) (textsL bs) (fin.map textsL))) :
    ∃ tree s,
      Parse.textOrAction cfg n (Parse.mkS b (rangeToks (.two k v) (atom7 x) (textsL bs) (fin.map textsL) ++ rest) it0 0) =
        .ok tree (Parse.mkS b rest rd 0) ∧
      eraseR path tree = some s ∧
      s = rangeStmt2 path k v x bs fin ∧
      (∀ (env : Env) (blocks : List (Bytes × BlockN)) (vars : List (Bytes × Val)) (data : Val)
        (e : Val) (es : List Val) (ifc nl : Bool) (m : Nat),
        identVal env vars data x = some (.slice (e :: es) ifc nl) → (e :: es).length < 100000 →
        execute (m + 2) env (tmplOf name blocks s) vars data =
          .ok (List.replicate (e :: es).length (bs.map litChunk)).flatten []) ∧
      (∀ (env : Env) (blocks : List (Bytes × BlockN)) (vars : List (Bytes × Val)) (data : Val) (ifc nl : Bool) (m : Nat),
        identVal env vars data x = some (.slice [] ifc nl) →
        execute (m + 2) env (tmplOf name blocks s) vars data = .ok ((fin.getD []).map litChunk) []) := by
  refine ⟨_, _, range_is_parsed_as_written cfg (.two k v) (atom7 x) (textsL bs) (fin.map textsL) n b it0 rest hn,
    eraseR_range2 path k v x bs fin, rfl, ?_, ?_⟩
  · intro env blocks vars data e es ifc nl m hx hlen
    obtain ⟨rt', h1, h2, h3⟩ := run_rangeStmt2_init m env path k v x bs fin (tmplOf name blocks (rangeStmt2 path k v x bs fin))
      vars data _ (e :: es) ifc hx (getRanger_slice _ ifc nl) hlen
    exact execute_tmplOf_sink (m + 1) env name blocks _ vars data _ _ rt' h1 h2 h3
  · intro env blocks vars data ifc nl m hx
    obtain ⟨rt', h1, h2, h3⟩ := run_rangeStmt2_init m env path k v x bs fin (tmplOf name blocks (rangeStmt2 path k v x bs fin))
      vars data _ [] ifc hx (getRanger_slice _ ifc nl) (by decide)
    exact execute_tmplOf_sink (m + 1) env name blocks _ vars data _ _ rt' h1 h2 h3

/-- **… an identifier that is bound nowhere: `Execute` fails with the located error "identifier not
    available" (line 1 of `path`) and has written nothing** (neither the body nor the else text). -/
theorem parsed_range_unbound_identifier_fails (env : Env) (path name x : Bytes) (blocks : List (Bytes × BlockN))
    (vars : List (Bytes × Val)) (data : Val) (bs : List Bytes) (fin : Option (List Bytes)) (m : Nat)
    (hx : identVal env vars data x = none) :
    execute (m + 2) env (tmplOf name blocks (rangeStmt0 path x bs fin)) vars data =
      .err (notAvailable ⟨path, 1⟩) [] [] := by
  refine execute_tmplOf_err (m + 1) env name blocks _ vars data _ ?_
  rw [rangeStmt0, execList_single_range]
  have he : (recAt (m + 1)).evalExpr env (.ident ⟨path, 1⟩ x) (initRT (tmplOf name blocks (rangeStmt0 path x bs fin)) vars data) =
      .err (notAvailable ⟨path, 1⟩) (initRT (tmplOf name blocks (rangeStmt0 path x bs fin)) vars data) := by
    rw [evalExpr_ident_init, hx]
  show ((recAt (m + 1)).evalExpr env (.ident ⟨path, 1⟩ x) >>= fun v => rangeCore (recAt (m + 1)) env _ none v _ _) _ = _
  exact bind_err he

/-! ### worked instances (and non-vacuity: the hypotheses are met) -/

section examples

/-- `{{range e}}body{{end}}` over the three-element typed slice `[10, 20, 30]`, ARBITRARY body, unrolled:
    `body` with `.` = 10, then - unless it returned a value - with `.` = 20, then with `.` = 30. -/
example (r : Rec) (env : Env) (ins : Bool) (loc : Loc) (e : Expr) (body : List Stmt) (els : Option (List Stmt))
    (rt rt1 : RT) (he : r.evalExpr env e rt = .ok (.slice [.int 10, .int 20, .int 30] false false) rt1) :
    execStmt r env ins (.rangeS loc none (some e) body els) rt =
      stmtRes ins ((do
        let r1 ← withCtxND (.int 10) (r.execList env body)
        if r1.isValid then pure r1 else do
        let r2 ← withCtxND (.int 20) (r.execList env body)
        if r2.isValid then pure r2 else do
        let r3 ← withCtxND (.int 30) (r.execList env body)
        if r3.isValid then pure r3 else pure .invalid) rt1) :=
  range_runs_its_body_once_per_element_in_order r env ins loc e body els rt rt1 _ _ _ false he
    (getRanger_slice _ _ _) (by decide)

/-- the same over a `[]interface{}` holding `"a"`, nil, `true`: `.` is the dynamic value, a nil interface
    for the nil element -/
example (r : Rec) (env : Env) (ins : Bool) (loc : Loc) (e : Expr) (body : List Stmt) (els : Option (List Stmt))
    (rt rt1 : RT) (he : r.evalExpr env e rt = .ok (.slice [.str [97], .invalid, .bool true] true false) rt1) :
    execStmt r env ins (.rangeS loc none (some e) body els) rt =
      stmtRes ins ((do
        let r1 ← withCtxND (.str [97]) (r.execList env body)
        if r1.isValid then pure r1 else do
        let r2 ← withCtxND (.iface .invalid) (r.execList env body)
        if r2.isValid then pure r2 else do
        let r3 ← withCtxND (.bool true) (r.execList env body)
        if r3.isValid then pure r3 else pure .invalid) rt1) :=
  range_runs_its_body_once_per_element_in_order r env ins loc e body els rt rt1 _ _ _ true he
    (getRanger_slice _ _ _) (by decide)

/-- `{{range i, v := e}}body{{end}}` over `[10, 20]`: one scope; `i, v` = `0, 10` then `1, 20` -/
example (r : Rec) (env : Env) (ins : Bool) (loc : Loc) (e : Expr) (body : List Stmt) (els : Option (List Stmt))
    (rt rt1 : RT) (he : r.evalExpr env e rt = .ok (.slice [.int 10, .int 20] false false) rt1) :
    execStmt r env ins (.rangeS loc
        (some { loc := loc, isLet := true, lookup := false, left := [.ident loc [105], .ident loc [118]], right := [e] })
        none body els) rt =
      stmtRes ins (withNewScopeND (do
        letVar [105] (.int 0)
        letVar [118] (.int 10)
        let r1 ← r.execList env body
        if r1.isValid then pure r1 else do
        letVar [105] (.int 1)
        letVar [118] (.int 20)
        let r2 ← r.execList env body
        if r2.isValid then pure r2 else pure .invalid) rt1) := by
  rw [range_two_variables_binds_index_and_value r env ins loc _ none loc loc [105] [118] e [] body els rt rt1 _ _ _ false
    rfl rfl rfl he (getRanger_slice _ _ _) (by decide)]
  congr 1
  simp only [iterate, elemVal, RangeChain.bind_assoc]
  rfl

/-- the empty slice: the else list; without one, nothing (non-vacuity of the empty case: the expression is
    an identifier bound to an empty slice, evaluated at any fuel ≥ 1) -/
example (n : Nat) (env : Env) (ins : Bool) (loc le : Loc) (body l : List Stmt) (rt : RT)
    (hx : lookupVal env rt [120] = some (.slice [] false false)) :
    execStmt (recAt (n + 1)) env ins (.rangeS loc none (some (.ident le [120])) body (some l)) rt =
      stmtRes ins ((recAt (n + 1)).execList env l rt) :=
  range_over_empty_runs_else _ env ins loc _ body l rt rt _ false (by rw [evalExpr_ident, hx]) (getRanger_slice _ _ _)

example (n : Nat) (env : Env) (ins : Bool) (loc le : Loc) (body : List Stmt) (rt : RT)
    (hx : lookupVal env rt [120] = some (.slice [] true true)) :
    execStmt (recAt (n + 1)) env ins (.rangeS loc none (some (.ident le [120])) body none) rt =
      .ok (.invalid, .invalid, ins) rt :=
  range_over_empty_without_else_writes_nothing _ env ins loc _ body rt rt _ true (by rw [evalExpr_ident, hx])
    (getRanger_slice _ _ _)

/-- `{{range x}}ab{{else}}z{{end}}` (bytes: x=120 a=97 b=98 z=122; the body is the two text items `a`, `b`)
    with `x` = the three-element slice `[1, 2, 3]`: source spelling to output `ab ab ab`, six literal chunks -/
example (cfg : Parse.Cfg) (path name : Bytes) (b : Parse.PSt) (it0 : Parse.Item) :
    ∃ tree s,
      Parse.textOrAction cfg 1000 (Parse.mkS b (rangeToks .none (atom7 [120]) (textsL [[97], [98]]) ((some [[122]]).map textsL) ++ []) it0 0) =
        .ok tree (Parse.mkS b [] rd 0) ∧
      eraseR path tree = some s ∧
      ∀ (env : Env) (blocks : List (Bytes × BlockN)) (data : Val) (m : Nat),
        execute (m + 2) env (tmplOf name blocks s) [([120], .slice [.int 1, .int 2, .int 3] false false)] data =
          .ok [litChunk [97], litChunk [98], litChunk [97], litChunk [98], litChunk [97], litChunk [98]] [] := by
  obtain ⟨tree, s, h1, h2, _, h4, _⟩ := parsed_range_renders_body_n_times cfg path name [120] [[97], [98]] (some [[122]])
    1000 b it0 [] (by decide)
  refine ⟨tree, s, h1, h2, ?_⟩
  intro env blocks data m
  exact h4 env blocks _ data (.int 1) [.int 2, .int 3] false false m
    (by simp [identVal, alookup, Val.indirectEface]) (by decide)

/-- the same template with `x` = an empty `[]interface{}`: the else text `z`, once -/
example (path name : Bytes) (env : Env) (blocks : List (Bytes × BlockN)) (data : Val) (m : Nat) :
    execute (m + 2) env (tmplOf name blocks (rangeStmt0 path [120] [[97], [98]] (some [[122]])))
      [([120], .slice [] true false)] data = .ok [litChunk [122]] [] :=
  execute_tmplOf (m + 1) env name blocks _ _ data _
    (run_rangeStmt0_init m env path [120] [[97], [98]] (some [[122]]) _ _ data (.slice [] true false) [] true
      (by simp [identVal, alookup, Val.indirectEface]) (getRanger_slice _ _ _) (by decide))

/-- … and without `{{else}}`: nothing at all is written -/
example (path name : Bytes) (env : Env) (blocks : List (Bytes × BlockN)) (data : Val) (m : Nat) :
    execute (m + 2) env (tmplOf name blocks (rangeStmt0 path [120] [[97], [98]] none))
      [([120], .slice [] true false)] data = .ok [] [] :=
  execute_tmplOf (m + 1) env name blocks _ _ data _
    (run_rangeStmt0_init m env path [120] [[97], [98]] none _ _ data (.slice [] true false) [] true
      (by simp [identVal, alookup, Val.indirectEface]) (getRanger_slice _ _ _) (by decide))

/-- `{{range i, v := x}}ab{{end}}` (i=105, v=118) with `x` = `[]interface{}{"p", nil}`: `ab` twice -/
example (path name : Bytes) (env : Env) (blocks : List (Bytes × BlockN)) (data : Val) (m : Nat) :
    execute (m + 2) env (tmplOf name blocks (rangeStmt2 path [105] [118] [120] [[97], [98]] none))
      [([120], .slice [.str [112], .invalid] true false)] data =
      .ok [litChunk [97], litChunk [98], litChunk [97], litChunk [98]] [] := by
  obtain ⟨rt', h1, h2, h3⟩ := run_rangeStmt2_init m env path [105] [118] [120] [[97], [98]] none
    (tmplOf name blocks (rangeStmt2 path [105] [118] [120] [[97], [98]] none))
    [([120], .slice [.str [112], .invalid] true false)] data (.slice [.str [112], .invalid] true false) _ true
    (by simp [identVal, alookup, Val.indirectEface]) (getRanger_slice _ _ _) (by decide)
  exact execute_tmplOf_sink (m + 1) env name blocks _ _ data _ _ rt' h1 h2 h3

end examples

end JetVerif.Props.C05R
