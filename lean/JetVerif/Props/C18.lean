/-
  C18 — the Go-side Runtime and Arguments API mirrors template semantics.
  Model: `letVar`, `setValue`, `letGlobal`, `resolve`, `yieldBlockApi`, `applyApiFunc` (the harness's
  jet.Func wrappers around Runtime.Let/Set/SetOrLet/LetGlobal/Resolve/Context/YieldBlock) and
  `Args.get` / `Args.num` / `Args.isSet` in JetVerif/Model/Eval.lean.
-/
import JetVerif.Props.C14

namespace JetVerif.Props.C18
open JetVerif JetVerif.Eval JetVerif.Props.C14

variable (r : Rec) (env : Env)

/-- a call `f(nameExpr, valueExpr)` whose arguments are value expressions -/
def call2 (ne ve : Expr) : Args := ⟨[ne, ve], false, none⟩

theorem get0 {ne ve : Expr} {n : Bytes} (hn : ValueExpr r env ne (.str n)) :
    (call2 ne ve).get r env 0 = pure (.str n) := by
  simp [call2, Args.get, Args.exprAt, hn.1, hn.eval_eq]

theorem get1 {ne ve : Expr} {v : Val} (hv : ValueExpr r env ve v) :
    (call2 ne ve).get r env 1 = pure v := by
  simp [call2, Args.get, Args.exprAt, hv.1, hv.eval_eq]

theorem pure_bind_M {α β} (a : α) (f : α → M β) : ((pure a : M α) >>= f) = f a := rfl

theorem setValue_cases (n : Bytes) (v : Val) (rt : RT) :
    (lookupChain rt n rt.scope = none ∧ setValue n v rt = .ok false rt) ∨
    ((∃ p, lookupChain rt n rt.scope = some p) ∧ ∃ rt', setValue n v rt = .ok true rt') ∨
    ((∃ p, lookupChain rt n rt.scope = some p) ∧ ∃ s, setValue n v rt = .crash s rt) := by
  unfold setValue
  split
  · left; exact ⟨‹_›, rfl⟩
  · split
    · right; right; exact ⟨⟨_, ‹_›⟩, _, rfl⟩
    · split
      · right; right; exact ⟨⟨_, ‹_›⟩, _, rfl⟩
      · right; left; exact ⟨⟨_, ‹_›⟩, _, rfl⟩

/-- **Let is `:=`.**  `Runtime.Let(name, v)` called from a function has exactly the effect of the
    assignment `name := v` executed at the call site: the variable is written into the innermost
    open scope (`letVar`), shadowing outer ones. -/
theorem let_is_colon_equals (ne ve : Expr) (n : Bytes) (v : Val) (loc : Loc)
    (hn : ValueExpr r env ne (.str n)) (hv : ValueExpr r env ve v) :
    applyApiFunc r env "apiLet" (call2 ne ve) =
      (assignOne r env true (.ident loc n) (viaInterface v) >>= fun _ => pure Val.invalid) := by
  have h2 : (call2 ne ve).num = 2 := rfl
  unfold applyApiFunc
  simp only [h2, get0 r env hn, get1 r env hv, pure_bind_M]
  simp [apiName, liftP, assignOne, isUnderscore, leftName]
  rfl

/-- **Set is `=`.**  `Runtime.Set(name, v)` rebinds the nearest enclosing declaration of `name`
    exactly as the assignment `name = v` does, and fails — leaving every scope untouched — exactly
    when that assignment fails, i.e. when no scope of the chain declares `name`. -/
theorem set_is_equals (ne ve : Expr) (n : Bytes) (v : Val) (loc : Loc) (rt : RT)
    (hn : ValueExpr r env ne (.str n)) (hv : ValueExpr r env ve v) :
    (∃ rt', setValue n (viaInterface v) rt = .ok true rt' ∧
        applyApiFunc r env "apiSet" (call2 ne ve) rt = .ok .invalid rt' ∧
        executeSet r env (.ident loc n) (viaInterface v) rt = .ok () rt') ∨
    (lookupChain rt n rt.scope = none ∧
        (∃ e, applyApiFunc r env "apiSet" (call2 ne ve) rt = .err e rt) ∧
        (∃ e, executeSet r env (.ident loc n) (viaInterface v) rt = .err e rt)) ∨
    (∃ s, setValue n (viaInterface v) rt = .crash s rt) := by
  have h2 : (call2 ne ve).num = 2 := rfl
  have hA : applyApiFunc r env "apiSet" (call2 ne ve) =
      (setValue n (viaInterface v) >>= fun ok =>
        if ok then pure Val.invalid else errPlain "could not assign: variable is uninitialised") := by
    unfold applyApiFunc
    simp only [h2, get0 r env hn, get1 r env hv, pure_bind_M]
    simp [apiName, liftP]
    rfl
  have hE : executeSet r env (.ident loc n) (viaInterface v) =
      (setValue n (viaInterface v) >>= fun ok =>
        if ok then pure () else errAt loc "could not assign because variable is uninitialised") := rfl
  rw [hA, hE]
  rcases setValue_cases n (viaInterface v) rt with ⟨hl, h⟩ | ⟨_, rt', h⟩ | ⟨_, s, h⟩
  · right; left
    refine ⟨hl, ?_, ?_⟩
    · rw [bind_ok h]; exact ⟨_, rfl⟩
    · rw [bind_ok h]; exact ⟨_, rfl⟩
  · left
    refine ⟨rt', h, ?_, ?_⟩
    · rw [bind_ok h]; rfl
    · rw [bind_ok h]; rfl
  · right; right; exact ⟨s, h⟩

/-- **SetOrLet picks between them by the scope chain only**: if some open scope declares `name` it
    acts as Set, otherwise as Let — regardless of globals and default variables of that name, which
    Set cannot rebind. -/
theorem setOrLet_spec (ne ve : Expr) (n : Bytes) (v : Val) (rt : RT)
    (hn : ValueExpr r env ne (.str n)) (hv : ValueExpr r env ve v) :
    applyApiFunc r env "apiSetOrLet" (call2 ne ve) rt =
      (match lookupChain rt n rt.scope with
       | some _ => (setValue n (viaInterface v) >>= fun _ => pure Val.invalid) rt
       | none => (letVar n (viaInterface v) >>= fun _ => pure Val.invalid) rt) := by
  have h2 : (call2 ne ve).num = 2 := rfl
  have hA : applyApiFunc r env "apiSetOrLet" (call2 ne ve) =
      (setValue n (viaInterface v) >>= fun ok =>
        if ok then pure Val.invalid else (letVar n (viaInterface v) >>= fun _ => pure Val.invalid)) := by
    unfold applyApiFunc
    simp only [h2, get0 r env hn, get1 r env hv, pure_bind_M]
    simp [apiName, liftP]
    rfl
  rw [hA]
  rcases setValue_cases n (viaInterface v) rt with ⟨hl, h⟩ | ⟨⟨p, hl⟩, rt', h⟩ | ⟨⟨p, hl⟩, s, h⟩
  · rw [hl, bind_ok h]; rfl
  · rw [hl, bind_ok h]; simp only; rw [bind_ok h]; rfl
  · rw [hl, bind_crash h]; simp only; rw [bind_crash h]

/-- the globals and defaults of the environment play no role in SetOrLet -/
theorem setOrLet_ignores_globals (env' : Env) (ne ve : Expr) (n : Bytes) (v : Val) (rt : RT)
    (hn : ValueExpr r env ne (.str n)) (hv : ValueExpr r env ve v)
    (hn' : ValueExpr r env' ne (.str n)) (hv' : ValueExpr r env' ve v) :
    applyApiFunc r env "apiSetOrLet" (call2 ne ve) rt = applyApiFunc r env' "apiSetOrLet" (call2 ne ve) rt := by
  rw [setOrLet_spec r env ne ve n v rt hn hv, setOrLet_spec r env' ne ve n v rt hn' hv']

/-- **Resolve is identifier lookup**: what `Runtime.Resolve(name)` returns is what evaluating the
    identifier `name` yields whenever that succeeds (and an invalid value when the identifier is
    unknown, where the template expression is an error). -/
theorem resolve_is_identifier_lookup (ne : Expr) (n : Bytes) (rt : RT)
    (hn : ValueExpr r env ne (.str n)) :
    applyApiFunc r env "apiResolve" ⟨[ne], false, none⟩ rt =
      (match resolve env n rt with
       | .ok (some v) rt' => .ok v rt'
       | .ok none rt' => .ok .invalid rt'
       | .err e rt' => .err e rt'
       | .crash s rt' => .crash s rt'
       | .fuel => .fuel
       | .unsupported w => .unsupported w) := by
  have h1 : (Args.mk [ne] false none).num = 1 := rfl
  have hg : (Args.mk [ne] false none).get r env 0 = pure (.str n) := by
    simp [Args.get, Args.exprAt, hn.1, hn.eval_eq]
  have hA : applyApiFunc r env "apiResolve" ⟨[ne], false, none⟩ =
      (resolve env n >>= fun o => match o with
        | some v => pure v
        | none => pure Val.invalid) := by
    unfold applyApiFunc
    simp only [h1, hg, pure_bind_M]
    simp [apiName, liftP]
    rfl
  rw [hA, bind_def]
  cases resolve env n rt with
  | ok o rt' => cases o <;> rfl
  | _ => rfl

/-- **Context is `.`** -/
theorem context_is_dot (rt : RT) :
    applyApiFunc r env "apiContext" ⟨[], false, none⟩ rt = .ok rt.ctx rt ∧
    resolve env [46] rt = .ok (some rt.ctx) rt := by
  constructor
  · unfold applyApiFunc; simp [Args.num]; rfl
  · simp [resolve]

/-- **LetGlobal binds in the outermost template scope**: when every scope of the chain has a
    variable map (as every scope created during an execution does), the scope written is the last
    one of the chain — the one `Execute` started with — whatever the depth of the call site. -/
theorem letGlobal_targets_outermost (rt : RT) :
    ∀ (chain : List Nat) (hne : chain ≠ []),
      (∀ id ∈ chain, ∃ f, frameAt rt id = some f ∧ f.vars.isSome = true) →
      letGlobalTarget rt chain = some (chain.getLast hne) := by
  intro chain
  induction chain with
  | nil => intro h; exact absurd rfl h
  | cons id rest ih =>
    intro hne hall
    cases rest with
    | nil => rfl
    | cons p rest' =>
      obtain ⟨f, hf, hv⟩ := hall p (by simp)
      have := ih (by simp) (fun x hx => hall x (by simp [hx]))
      simp only [letGlobalTarget, hf, hv, if_true]
      rw [this]
      simp [List.getLast_cons]

/-- **YieldBlock(name, ctx) is `{{yield name() ctx}}`** for a block without parameters: the block's
    body is executed exactly once, with `ctx` as '.', and '.' is put back afterwards.  Stated for
    every well-formed runtime and every body, via the restore invariant of the evaluator. -/
theorem yieldBlock_is_yield (fuel : Nat) (name : Bytes) (blk : BlockN) (ce : Expr) (c : Val) (loc : Loc)
    (rt : RT) (hwf : WF rt) (hb : getBlockChain rt name rt.scope = some blk) (hp : blk.params = [])
    (hc : ValueExpr (recAt fuel) env ce c) (hcv : c.isValid = true) :
    execYield (recAt fuel) env loc name (some []) (some ce) none false rt =
      yieldBlockApi (recAt fuel) env name c rt := by
  have hrun := ((recGood_recAt fuel).execList env blk.body).post { rt with ctx := c } (by exact hwf)
  unfold execYield yieldBlockApi
  simp only [Bool.false_eq_true, if_false, getBlock, bind_def, hb, hcv, if_true]
  unfold executeYieldBlock
  simp only [hp, List.length_nil, Nat.lt_irrefl, decide_false, Bool.or_self, Bool.false_eq_true, if_false]
  unfold yieldBody
  simp only [getRT, bind_def, hc.2 rt, withContentND, withCtxND]
  cases hr : (recAt fuel).execList env blk.body { rt with ctx := c } with
  | ok a rt' =>
    rw [hr] at hrun
    have hcont : rt'.content = rt.content := hrun.2.content
    simp [hr, pure, ← hcont]
  | err e rt' => simp [hr]
  | crash s rt' => simp [hr]
  | fuel => simp [hr]
  | unsupported w => simp [hr]

/-- after a successful `YieldBlock` with a context the call site's '.', scope chain and block
    content are what they were -/
theorem yieldBlock_restores (fuel : Nat) (name : Bytes) (c : Val) (rt rt' : RT) (hwf : WF rt)
    (h : yieldBlockApi (recAt fuel) env name c rt = .ok () rt') :
    rt'.ctx = rt.ctx ∧ rt'.scope = rt.scope ∧ rt'.content = rt.content := by
  have hp := (good_yieldBlockApi (recGood_recAt fuel) env name c).post rt hwf
  rw [h] at hp
  exact ⟨hp.2.ctx, hp.2.scope, hp.2.content⟩

/-! ### Arguments -/

/-- **Arguments.Get / NumOfArguments / IsSet present piped and slot-placed values where a reflected
    function receives them**: the theorems of C14 (`get_piped_zero`, `get_piped_succ`,
    `get_slot_eq_plain`, `num_piped_eq_plain`, `num_slot_eq_plain`) state this for Get and
    NumOfArguments; here the same for IsSet. -/
theorem isSet_piped_zero (es : List Expr) (p : Val) :
    Args.isSet r env ⟨es, false, some p⟩ 0 = pure (Val.notNil p) := by
  simp [Args.isSet]

theorem isSet_piped_succ (es : List Expr) (xe : Expr) (p : Val) (hes : NoSlot es) (i : Nat) :
    Args.isSet r env ⟨es, false, some p⟩ (i + 1) = Args.isSet r env ⟨xe :: es, false, none⟩ (i + 1) := by
  simp only [Args.isSet, Bool.not_false, if_true, Nat.add_sub_cancel, Args.isSetAt, List.getElem?_cons_succ]
  have : (i + 1 == 0) = false := by simp
  simp only [this, Bool.false_eq_true, if_false]
  cases h : es[i]? with
  | none => rfl
  | some e =>
    have he : isUnderscore e = false := hes e (List.mem_of_getElem? h)
    simp [he]

/-- the slot marker is judged by the piped value -/
theorem isSet_slot (es : List Expr) (p : Val) (i : Nat) (e : Expr) (he : es[i]? = some e)
    (hu : isUnderscore e = true) :
    Args.isSet r env ⟨es, true, some p⟩ i = pure (Val.notNil p) := by
  simp [Args.isSet, Args.isSetAt, he, hu]

end JetVerif.Props.C18
