/-
  C02, "leave no goroutine running afterwards": the hand-over between the lexer goroutine and the parser.

  * On success the parser has received every item (Props/C02P `successful_parse_receives_every_item`,
    end to end in Props/C02L `set_parse_leaves_no_goroutine`), so the goroutine has closed the channel and
    returned.
  * On the error path `Template.recover` drains the channel, whatever is left in it and whatever else it
    calls before or after (`error_path_empties_the_channel`), so the goroutine - whose every send is a plain
    blocking send on that one channel (`jet_handover_is_disciplined`) - runs to completion.
  Both facts about the code are regenerated from /repo on every run (factgen F13).
-/
import JetVerif.Model.Handover

namespace JetVerif.Props.C02H
open JetVerif JetVerif.Handover

/-- nothing un-empties the channel -/
theorem run_nil {α : Type} (acts : List Act) : run acts ([] : List α) = [] := by
  induction acts with
  | nil => rfl
  | cons a as ih => cases a <;> simpa [run, act] using ih

/-- **A drain anywhere in a sequence of actions lets the goroutine finish**, whatever it still had to send
    and whatever else happens before or after -/
theorem drain_lets_the_goroutine_finish {α : Type} (acts : List Act) (h : Act.drain ∈ acts) (l : List α) :
    finished (run acts l) = true := by
  induction acts generalizing l with
  | nil => cases h
  | cons a as ih =>
    have hstep : run (a :: as) l = run as (act a l) := rfl
    rw [hstep]
    cases List.mem_cons.mp h with
    | inl he => subst he; simp [act, run_nil, finished]
    | inr hm => exact ih hm _

/-- without a drain (and without reading to the end) the goroutine stays blocked: the converse, so the
    theorem above is not vacuous -/
theorem no_drain_no_receive_leaves_it_blocked {α : Type} (acts : List Act) (h : ∀ a ∈ acts, a = Act.other)
    (x : α) (l : List α) : finished (run acts (x :: l)) = false := by
  induction acts with
  | nil => rfl
  | cons a as ih =>
    have ha := h a (by simp)
    subst ha
    exact ih (fun b hb => h b (by simp [hb]))

/-- the error path of the code as it is now contains the drain (decided over the regenerated facts) -/
theorem jet_error_path_drains : Act.drain ∈ errorPathActs := by decide

/-- **On the error path the channel is emptied**: whatever the lexer goroutine still had to send when the
    parser gave up, it can send it, close the channel and return -/
theorem error_path_empties_the_channel {α : Type} (left : List α) : finished (run errorPathActs left) = true :=
  drain_lets_the_goroutine_finish _ jet_error_path_drains left

/-- one goroutine, one unbuffered channel, plain blocking sends by `emit` / `errorf` only, closed by the
    goroutine after its loop, received from by `nextItem` and `drain` only (decided over the regenerated facts) -/
theorem jet_handover_is_disciplined : disciplined = true := by decide

example : finished (run [Act.other, Act.drain, Act.other] [1, 2, 3]) = true := by decide
example : finished (run [Act.other, Act.other] [1, 2, 3]) = false := by decide

end JetVerif.Props.C02H
