/-
  C03 — literal text is copied verbatim; only trim markers and comments remove bytes.
  Model: JetVerif/Model/Lex.lean (the lexer with its ghost event log); global invariant in
  JetVerif/Lemmas/LexInv.lean; text nodes are written raw by the evaluator (Props/C01
  `literal_text_is_raw`).
-/
import JetVerif.Lemmas.LexInv

namespace JetVerif.Props.C03
open JetVerif JetVerif.Lex JetVerif.Utf8

/-- offset reached after the events `l` (oldest first), starting from `frm` -/
def fwdEnd : Int → List Event → Int
  | frm, [] => frm
  | _, .emit _ _ b _ :: rest => fwdEnd b rest
  | _, .ignore _ _ b :: rest => fwdEnd b rest
  | frm, .err _ _ :: rest => fwdEnd frm rest

/-- the event log read oldest-first: starting at offset `frm`, every emit / ignore event begins
    where the previous one ended, and an emitted token's value is the source slice it covers -/
def Tiles (input : Bytes) : Int → List Event → Prop
  | _, [] => True
  | frm, .emit _ a b v :: rest => a = frm ∧ slice input a b = some v ∧ Tiles input b rest
  | frm, .ignore _ a b :: rest => a = frm ∧ Tiles input b rest
  | frm, .err _ _ :: rest => Tiles input frm rest

theorem fwdEnd_append (l1 l2 : List Event) : ∀ frm, fwdEnd frm (l1 ++ l2) = fwdEnd (fwdEnd frm l1) l2 := by
  induction l1 with
  | nil => intro frm; rfl
  | cons e rest ih => intro frm; cases e <;> simp [fwdEnd, ih]

theorem tiles_append (input : Bytes) (l1 l2 : List Event) :
    ∀ frm, Tiles input frm (l1 ++ l2) ↔ Tiles input frm l1 ∧ Tiles input (fwdEnd frm l1) l2 := by
  induction l1 with
  | nil => intro frm; simp [Tiles, fwdEnd]
  | cons e rest ih =>
    intro frm
    cases e <;> simp [Tiles, fwdEnd, ih, and_assoc]

theorem evEnd_eq_fwdEnd (l : List Event) : evEnd l = fwdEnd 0 l.reverse := by
  induction l with
  | nil => rfl
  | cons e rest ih =>
    simp only [List.reverse_cons, fwdEnd_append]
    cases e <;> simp [evEnd, fwdEnd, ih]

theorem chain_iff_tiles (input : Bytes) (l : List Event) : Chain input l ↔ Tiles input 0 l.reverse := by
  induction l with
  | nil => simp [Chain, Tiles]
  | cons e rest ih =>
    simp only [List.reverse_cons, tiles_append, ← evEnd_eq_fwdEnd]
    cases e with
    | emit t a b v =>
      simp only [Chain, Tiles, ih, fwdEnd, and_true]
      constructor
      · intro ⟨h1, h2, h3⟩; exact ⟨h3, h1, h2⟩
      · intro ⟨h3, h1, h2⟩; exact ⟨h1, h2, h3⟩
    | ignore k a b =>
      simp only [Chain, Tiles, ih, fwdEnd, and_true]
      constructor
      · intro ⟨h1, h3⟩; exact ⟨h3, h1⟩
      · intro ⟨h3, h1⟩; exact ⟨h1, h3⟩
    | err a m => simp only [Chain, Tiles, ih, fwdEnd, and_true]

/-- **Nothing is added, reordered or changed.**  For every source and every configuration of
    action and comment delimiters, however the scan ends (end of input, error item, crash): read in
    order, the lexer's emit and ignore events partition a prefix of the source into adjacent ranges
    starting at offset 0, and the value of every token handed to the parser is exactly the source
    bytes of its range.  Whatever source byte is not inside a token value lies in a range dropped
    by one of the five `l.ignore()` sites (trim-left run, `- ` marker, comment, ` -` marker,
    trim-right run). -/
theorem events_tile_the_source (l r lc rc input : Bytes) :
    Tiles input 0 (lexRun (mkDelims l r lc rc) input).events := by
  have h := lexRun_chain (mkDelims l r lc rc) input
  rw [chain_iff_tiles, List.reverse_reverse] at h
  exact h

/-- a token value never contains bytes that are not in the source at its position -/
theorem token_values_are_source_slices (d : Delims) (input : Bytes) (t : Tok) (a b : Int) (v : Bytes)
    (h : Event.emit t a b v ∈ (lexRun d input).events) :
    0 ≤ a ∧ a ≤ b ∧ b ≤ input.length ∧ v = (input.drop a.toNat).take (b - a).toNat := by
  have hc := lexRun_chain d input
  have hm : Event.emit t a b v ∈ (lexRun d input).events.reverse := by simpa using h
  generalize (lexRun d input).events.reverse = L at hc hm
  induction L with
  | nil => cases hm
  | cons e rest ih =>
    cases hm with
    | head =>
      have hs := hc.2.1
      unfold slice at hs
      split at hs
      · rename_i hb; cases hs; exact ⟨hb.1, hb.2.1, hb.2.2, rfl⟩
      · cases hs
    | tail _ hr =>
      cases e with
      | emit _ _ _ _ => exact ih hc.2.2 hr
      | ignore _ _ _ => exact ih hc.2 hr
      | err _ _ => exact ih hc hr

/-! ### the trim runs are exactly the whitespace runs -/

theorem isSpaceByte_iff (c : UInt8) : isSpaceByte c = true ↔ (c = 32 ∨ c = 9 ∨ c = 13 ∨ c = 10) := by
  simp [isSpaceByte, or_assoc]

theorem take_takeWhile {α} (p : α → Bool) (s : List α) : s.take (s.takeWhile p).length = s.takeWhile p := by
  induction s with
  | nil => rfl
  | cons a t ih => by_cases h : p a = true <;> simp [List.takeWhile, h, ih]

theorem drop_takeWhile {α} (p : α → Bool) (s : List α) : s.drop (s.takeWhile p).length = s.dropWhile p := by
  induction s with
  | nil => rfl
  | cons a t ih => by_cases h : p a = true <;> simp [List.takeWhile, List.dropWhile, h, ih]

theorem length_takeWhile_le' {α} (p : α → Bool) (s : List α) : (s.takeWhile p).length ≤ s.length := by
  induction s with
  | nil => simp
  | cons a t ih => by_cases h : p a = true <;> simp [List.takeWhile, h]; omega

theorem mem_takeWhile {α} (p : α → Bool) (s : List α) (c : α) (h : c ∈ s.takeWhile p) : p c = true := by
  induction s with
  | nil => simp at h
  | cons a t ih =>
    by_cases hp : p a = true
    · simp [List.takeWhile, hp] at h
      cases h with
      | inl e => subst e; exact hp
      | inr m => exact ih m
    · simp [List.takeWhile, hp] at h

theorem head_dropWhile {α} (p : α → Bool) (s : List α) (c : α) (h : (s.dropWhile p).head? = some c) : p c = false := by
  induction s with
  | nil => simp at h
  | cons a t ih =>
    by_cases hp : p a = true
    · simp [List.dropWhile, hp] at h; exact ih h
    · simp [List.dropWhile, hp] at h; subst h; simpa using hp

/-- **A right trim marker removes exactly the run of spaces, tabs, CRs and LFs after it**: the
    text after the delimiter splits into a whitespace-only run of length `leftTrimLength` and a
    remainder that is empty or starts with a non-whitespace byte. -/
theorem leftTrimLength_spec (s : Bytes) :
    let n := leftTrimLength s
    (∀ c ∈ s.take n, isSpaceByte c = true) ∧
    (∀ c, (s.drop n).head? = some c → isSpaceByte c = false) ∧ n ≤ s.length := by
  intro n
  have hn : n = (s.takeWhile isSpaceByte).length := rfl
  refine ⟨?_, ?_, ?_⟩
  · intro c hc
    rw [hn, take_takeWhile] at hc
    exact mem_takeWhile _ _ _ hc
  · intro c hc
    rw [hn, drop_takeWhile] at hc
    exact head_dropWhile _ _ _ hc
  · rw [hn]; exact length_takeWhile_le' _ _

/-- **A left trim marker removes exactly the run of spaces, tabs, CRs and LFs before it**: the
    pending text splits into a remainder that is empty or ends with a non-whitespace byte and a
    whitespace-only run of length `rightTrimLength`. -/
theorem rightTrimLength_spec (s : Bytes) :
    let n := rightTrimLength s
    (∀ c ∈ s.reverse.take n, isSpaceByte c = true) ∧
    (∀ c, (s.reverse.drop n).head? = some c → isSpaceByte c = false) ∧ n ≤ s.length := by
  intro n
  have h := leftTrimLength_spec s.reverse
  simp only [leftTrimLength, List.length_reverse] at h
  exact h

end JetVerif.Props.C03
