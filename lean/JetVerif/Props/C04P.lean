/-
  C04, the grouping part: the recursive-descent expression parser of parse.go (modelled production
  by production in Model/Parse.lean and compared with the real parser tree by tree on every run,
  stream `parsetree`) maps every derivation of the documented, stratified expression grammar
  (Model/ExprGrammar.lean) to the promised tree:

    unary sign binds tightest, then * / %, then + -, then < <= > >=, then == !=, then the logical
    connectives (with `!` taking a whole comparison as operand), then ?: ; chains of one level fold
    to the left, ?: nests to the right, parentheses override and leave no node of their own.

  For all derivations, all spellings of the operators, all fuels above a bound linear in the size,
  all parser states whose next item is the first item of the spelling.  Items sit at position 0,
  so every node is on line 1 and the statement is about grouping only (lines are compared by the
  correspondence).
-/
import JetVerif.Lemmas.ParseLadder

namespace JetVerif.Props.C04P
open JetVerif JetVerif.Parse JetVerif.ExprGrammar

/-- **Precedence and associativity.**  `u` is any item that cannot continue an expression
    (`stop7`: not an operator, `?`, a field, `(`, `[` or space), e.g. the closing delimiter. -/
theorem precedence_and_associativity (cfg : Cfg) (c : E7) (n : Nat) (ctx : String) (b : PSt) (x u : Item)
    (rest : List Item) (hn : n ≥ 10 * sz7 c) (hu : stop7 u) :
    parseExpression cfg n ctx (mkS b (toks7 c ++ u :: rest) x 0) = .ok (tree7 c, u) (mkS b rest u 0) :=
  ladder7 cfg c n ctx _ b u rest hn hu (starts_fresh b x ((good7 c).append _))

/-- the same when the first item of the spelling has been pushed back (`t.backup()` before
    `t.expression(…)`, as `action`, `parseArguments`, `parseControl` … do) -/
theorem precedence_after_backup (cfg : Cfg) (c : E7) (n : Nat) (ctx : String) (b : PSt) (t u : Item)
    (ts rest : List Item) (hn : n ≥ 10 * sz7 c) (hu : stop7 u) (hl : toks7 c ++ u :: rest = t :: ts) :
    parseExpression cfg n ctx (mkS b ts t 1) = .ok (tree7 c, u) (mkS b rest u 0) := by
  obtain ⟨t', ts', h, _, hs⟩ := (good7 c).append (u :: rest)
  have : t = t' := by rw [h] at hl; simp at hl; exact hl.1.symm
  subst this
  exact ladder7 cfg c n ctx _ b u rest hn hu (by rw [hl]; exact starts_pushed b t ts hs)

/-- `t.expression(context, …)`: the expression is read and its terminator is pushed back -/
theorem expression_reads_one_derivation (cfg : Cfg) (c : E7) (n : Nat) (ctx as : String) (b : PSt) (x u : Item)
    (rest : List Item) (hn : n ≥ 10 * sz7 c + 1) (hu : stop7 u) :
    expression cfg n ctx as (mkS b (toks7 c ++ u :: rest) x 0) = .ok (tree7 c) (mkS b rest u 1) := by
  obtain ⟨m, rfl⟩ : ∃ m, n = m + 1 := ⟨n - 1, by omega⟩
  rw [expression]
  simp [bind_apply, precedence_and_associativity cfg c m ctx b x u rest (by omega) hu]

/-- tie A: the range tests on the regenerated item-type order select exactly `* / %` and `> >= < <=` -/
theorem mul_range_is_mul_div_mod (t : Tok) :
    (Tok.mul.code ≤ t.code ∧ t.code ≤ Tok.mod.code) ↔ (t = Tok.mul ∨ t = Tok.div ∨ t = Tok.mod) := isMulT_iff t
theorem rel_range_is_relational (t : Tok) :
    (Tok.great.code ≤ t.code ∧ t.code ≤ Tok.lessEquals.code) ↔
      (t = Tok.great ∨ t = Tok.greatEquals ∨ t = Tok.less ∨ t = Tok.lessEquals) := isRelT_iff t

/-! ### readable instances (and non-vacuity: the hypotheses are met by concrete derivations) -/

section examples
def a0 (s : String) : E0 := .atom (str s)
def a1 (s : String) : E1 := .base (a0 s)
def a2 (s : String) : E2 := .one (a1 s)
def a3 (s : String) : E3 := .one (a2 s)
def up4 (e : E3) : E4 := .one e
def up5 (e : E3) : E5 := .one (up4 e)
def up6 (e : E3) : E6 := .one (.plain (up5 e))
def up7 (e : E3) : E7 := .one (up6 e)
def idt (s : String) : PExpr := .ident 1 (str s)
def rd : Item := it Tok.rightDelim (str "}}")

theorem stop7_rightDelim : stop7 rd := by
  simp [rd, stop7, stop6, stop5, stop4, stop3, stop2, noPostfix, it, isMulT_iff, isRelT_iff]

/-- `a + b * c` is `a + (b * c)` -/
def e_add_mul : E7 := up7 (.more (a3 "a") .add (str "+") (.more (a2 "b") .mul (str "*") (a1 "c")))
example : tree7 e_add_mul =
    .binary .add 1 Tok.add (some (idt "a")) (.binary .mul 1 Tok.mul (some (idt "b")) (idt "c")) := rfl
example : (toks7 e_add_mul).map (·.typ) = [Tok.identifier, Tok.add, Tok.identifier, Tok.mul, Tok.identifier] := rfl

/-- `a - b - c` is `(a - b) - c` -/
def e_sub_sub : E7 := up7 (.more (.more (a3 "a") .minus (str "-") (a2 "b")) .minus (str "-") (a2 "c"))
example : tree7 e_sub_sub =
    .binary .add 1 Tok.minus (some (.binary .add 1 Tok.minus (some (idt "a")) (idt "b"))) (idt "c") := rfl

/-- `-a * b` is `(-a) * b` -/
def e_neg_mul : E7 := up7 (.one (.more (.one (.sign .minus (str "-") (a0 "a"))) .mul (str "*") (a1 "b")))
example : tree7 e_neg_mul =
    .binary .mul 1 Tok.mul (some (.binary .add 1 Tok.minus none (idt "a"))) (idt "b") := rfl

/-- `a ? b : c ? d : e` is `a ? b : (c ? d : e)` -/
def e_tern : E7 := .tern (up6 (a3 "a")) (up7 (a3 "b")) (.tern (up6 (a3 "c")) (up7 (a3 "d")) (up7 (a3 "e")))
example : tree7 e_tern = .ternary 1 (idt "a") (idt "b") (.ternary 1 (idt "c") (idt "d") (idt "e")) := rfl

/-- `(a + b) * c` : parentheses override and leave no node -/
def e_paren : E7 := up7 (.one (.more (.one (.base (.paren (up7 (.more (a3 "a") .add (str "+") (a2 "b")))))) .mul (str "*") (a1 "c")))
example : tree7 e_paren =
    .binary .mul 1 Tok.mul (some (.binary .add 1 Tok.add (some (idt "a")) (idt "b"))) (idt "c") := rfl

/-- the theorem applied: the parser model on `a + b * c }}` -/
example (cfg : Cfg) (b : PSt) (x : Item) :
    parseExpression cfg 200 "command" (mkS b (toks7 e_add_mul ++ [rd]) x 0) =
      .ok (.binary .add 1 Tok.add (some (idt "a")) (.binary .mul 1 Tok.mul (some (idt "b")) (idt "c")), rd) (mkS b [] rd 0) :=
  precedence_and_associativity cfg e_add_mul 200 "command" b x rd [] (by decide) stop7_rightDelim
end examples

end JetVerif.Props.C04P
