/-
  C05 — if renders exactly one branch; range runs once per element, else iff empty.
-/
import JetVerif.Lemmas.EvalGood

namespace JetVerif.Props.C05
open JetVerif JetVerif.Eval

/-- **Truthiness**: exactly `false`, zero numbers, the empty string and nil are falsy (nil = an
    invalid value, a nil pointer / map / slice / interface). -/
theorem truthy_bool (b : Bool) : Val.isTrue (.bool b) = some b := by
  cases b <;> simp [Val.isTrue, Val.isValid, Val.isZero, Val.isZeroD]
theorem truthy_int (i : Int) : Val.isTrue (.int i) = some (i != 0) := by
  simp [Val.isTrue, Val.isValid, Val.isZero, Val.isZeroD, bne]
theorem truthy_uint (u : Nat) : Val.isTrue (.uint u) = some (u != 0) := by
  simp [Val.isTrue, Val.isValid, Val.isZero, Val.isZeroD, bne]
theorem truthy_str (s : Bytes) : Val.isTrue (.str s) = some (!s.isEmpty) := by
  simp [Val.isTrue, Val.isValid, Val.isZero, Val.isZeroD]
theorem falsy_nil : Val.isTrue .invalid = some false := by simp [Val.isTrue, Val.isValid]
theorem falsy_nil_pointer (t : String) : Val.isTrue (.ptr t none) = some false := by
  simp [Val.isTrue, Val.isValid, Val.isZero, Val.isZeroD]
theorem falsy_nil_interface : Val.isTrue (.iface .invalid) = some false := by
  simp [Val.isTrue, Val.isValid, Val.isZero, Val.isZeroD]
theorem falsy_nil_map (es : List (Bytes × Val)) (i : Bool) : Val.isTrue (.smap es i true) = some false := by
  simp [Val.isTrue, Val.isValid, Val.isZero, Val.isZeroD]
theorem falsy_nil_slice (es : List Val) (i : Bool) : Val.isTrue (.slice es i true) = some false := by
  simp [Val.isTrue, Val.isValid, Val.isZero, Val.isZeroD]
theorem truthy_nonnil_pointer (t : String) (v : Val) : Val.isTrue (.ptr t (some v)) = some true := by
  simp [Val.isTrue, Val.isValid, Val.isZero, Val.isZeroD]
/-- an element of a `[]interface{}` reaches '.' unwrapped (D10), so it is judged by its own value -/
theorem element_unwrapped (v : Val) (h : v ≠ .invalid) : Val.indirectEface (.iface v) = v := by
  cases v <;> simp_all [Val.indirectEface]

/-- **if renders exactly one branch**: the then-list when the condition is truthy … -/
theorem if_truthy_runs_then (r : Rec) (env : Env) (c : Expr) (t : List Stmt) (e : Option (List Stmt))
    (rt rt1 : RT) (cv : Val) (hc : r.evalExpr env c rt = .ok cv rt1) (ht : Val.isTrue cv = some true) :
    ifBranches r env c t e rt = r.execList env t rt1 := by
  simp [ifBranches, bind_def, hc, ht, liftOpt]
  rfl

/-- … the else-list when it is falsy and there is one … -/
theorem if_falsy_runs_else (r : Rec) (env : Env) (c : Expr) (t l : List Stmt)
    (rt rt1 : RT) (cv : Val) (hc : r.evalExpr env c rt = .ok cv rt1) (ht : Val.isTrue cv = some false) :
    ifBranches r env c t (some l) rt = r.execList env l rt1 := by
  simp [ifBranches, bind_def, hc, ht, liftOpt]
  rfl

/-- … and nothing at all otherwise. -/
theorem if_falsy_no_else_runs_nothing (r : Rec) (env : Env) (c : Expr) (t : List Stmt)
    (rt rt1 : RT) (cv : Val) (hc : r.evalExpr env c rt = .ok cv rt1) (ht : Val.isTrue cv = some false) :
    ifBranches r env c t none rt = .ok .invalid rt1 := by
  simp [ifBranches, bind_def, hc, ht, liftOpt]
  rfl

/-- **A slice ranger yields every element once, in order, with indices 0,1,…** -/
def drain : Nat → RangerSt → List (Val × Val)
  | 0, _ => []
  | f + 1, st =>
    match rangerNext st with
    | ((idx, val, fin), st') => if fin then [] else (idx, val) :: drain f st'

theorem slice_ranger_in_order (es : List Val) : ∀ (i : Nat) (f : Nat), es.length < f →
    drain f (.sliceR es i false) = ((List.range es.length).zip es).map (fun p => (Val.int ((i + p.1 : Nat) : Int), p.2)) := by
  induction es with
  | nil => intro i f hf; cases f with
    | zero => simp at hf
    | succ f => simp [drain, rangerNext]
  | cons x xs ih =>
    intro i f hf
    cases f with
    | zero => simp at hf
    | succ f =>
      simp only [drain, rangerNext]
      simp only [Bool.false_eq_true, if_false]
      rw [ih (i + 1) f (by simp at hf; omega)]
      simp only [List.length_cons, List.range_succ_eq_map, List.zip_cons_cons, List.map_cons]
      congr 1
      rw [List.zip_map_left, List.map_map]
      apply List.map_congr_left
      intro p _
      simp only [Function.comp, Prod.map, id]
      congr 2
      simp only [Nat.succ_eq_add_one]
      omega

/-- `ints(a, b)` yields a, a+1, …, b-1 with indices 0, 1, … -/
theorem ints_ranger_first (a b : Int) (h : a ≠ b) :
    rangerNext (.intsR (-1) (a - 1) b) = ((.int 0, .int a, false), .intsR 0 a b) := by
  have h1 : a - 1 + 1 = a := by omega
  simp [rangerNext, h1, h]

theorem ints_ranger_last (i a b : Int) (h : a + 1 = b) :
    (rangerNext (.intsR i a b)).1 = (.int (i + 1), .int (a + 1), true) := by
  simp [rangerNext, h]

/-- **else iff empty**: a ranger without elements runs the else-list (or nothing) … -/
theorem range_empty_runs_else (r : Rec) (env : Env) (set : Option SetN) (ks vs : Option Nat)
    (body l : List Stmt) (f : Nat) (i : Nat) (ifc : Bool) (rt : RT) :
    rangeLoop r env set ks vs body (some l) (f + 1) (.sliceR [] i ifc) true rt = r.execList env l rt := by
  simp [rangeLoop, rangerNext]

theorem range_empty_no_else (r : Rec) (env : Env) (set : Option SetN) (ks vs : Option Nat)
    (body : List Stmt) (f : Nat) (i : Nat) (ifc : Bool) (rt : RT) :
    rangeLoop r env set ks vs body none (f + 1) (.sliceR [] i ifc) true rt = .ok .invalid rt := by
  simp [rangeLoop, rangerNext]
  rfl

/-- … and once at least one element was seen, the else-list is not run when the ranger ends -/
theorem range_end_after_elements_skips_else (r : Rec) (env : Env) (set : Option SetN) (ks vs : Option Nat)
    (body : List Stmt) (els : Option (List Stmt)) (f : Nat) (i : Nat) (ifc : Bool) (rt : RT) :
    rangeLoop r env set ks vs body els (f + 1) (.sliceR [] i ifc) false rt = .ok .invalid rt := by
  simp [rangeLoop, rangerNext]
  rfl

/-- zero-variable form: '.' is the element for the body, and the previous '.' afterwards -/
theorem range_body_context (v : Val) (body : M Val) (hb : Good body) (rt rt' : RT) (x : Val) (hwf : WF rt)
    (h : withCtxND v body rt = .ok x rt') : rt'.ctx = rt.ctx := by
  have hp := (good_withCtxND v hb).post rt hwf
  rw [h] at hp
  exact hp.2.ctx

end JetVerif.Props.C05
