/-
  Tie A for the save / restore discipline of the evaluator (C07, C09, C13).

  The evaluator model (Model/Eval.lean) transcribes, function by function, WHICH restores of eval.go /
  default.go are ordinary statements after a body (skipped when the body panics: `withNewScopeND`, `withCtxND`,
  the scope / content / context hand-backs of executeYieldBlock and of range) and WHICH are deferred
  (`withNewScopeD`, `withCtxD`, `withWriterD`, `withScopeContentD`, the handlers of executeTry and isSet).  The
  theorems of C07 / C09 / C13 are about that transcription.  This file states what the transcription assumes of
  the source, over the table factgen regenerates from /repo on every run (Facts.restoreSites, F14), so that a
  restore that moves from a `defer` into straight-line code - or the other way round - stops the check even when
  no generated program happens to fail at that point.
-/
import JetVerif.Generated.Facts

namespace JetVerif.Props.Restore
open JetVerif

def eventsOf (fn : String) : List String :=
  match Facts.restoreSites.find? (fun r => r.1 == fn) with
  | some r => r.2
  | none => ["missing"]

/-- `a` occurs before `b` in `l` -/
def before (a b : String) (l : List String) : Bool :=
  match l.dropWhile (· != a) with
  | [] => false
  | _ :: rest => rest.contains b

/-- the table the model was transcribed from -/
def expected : List (String × List String) := [
  ("Runtime.newScope", ["set scope"]),
  ("Runtime.releaseScope", ["set scope"]),
  ("Runtime.YieldBlock", ["set context", "set context"]),
  ("Runtime.recover", ["set scope", "set context", "set content", "set Writer", "recover"]),
  ("Runtime.executeYieldBlock", ["new", "set content", "defer-set scope", "defer-set content", "set scope", "set content",
    "set context", "set context", "set context", "set context", "set content", "release"]),
  ("Runtime.executeList", ["new", "defer-release", "new", "release", "new", "set context", "set context", "release"]),
  ("Runtime.executeTry", ["recover", "defer-set scope", "defer-set context", "defer-set content", "handler-new", "handler-release",
    "set Writer", "defer-set Writer"]),
  ("Runtime.executeInclude", ["new", "defer-release", "defer-set context", "set context"]),
  ("Runtime.isSet", ["recover", "defer-set scope", "defer-set context", "defer-set content"]),
  ("operandError", ["recover"]),
  ("Template.Execute", ["defer-recover-method", "set Writer", "set context"]),
  ("builtin includeIfExists", ["new", "defer-release", "defer-set context", "set context"]),
  ("builtin exec", ["new", "defer-release", "defer-set Writer", "set Writer", "defer-set context", "set context"])]

/-- **The source has the save / restore idioms the model transcribes** (regenerated table = expectation) -/
theorem jet_restore_idioms_as_modelled : Facts.restoreSites = expected := by decide

/-! Rules that carry the properties, stated on their own so that a harmless reshuffle of the table (which
    breaks the equality above) can be told from a change that matters. -/

/-- whoever redirects the output puts it back by a `defer` (C09 exec, C13 try): everything but `Execute`, which
    installs the caller's writer, and `recover`, which clears it for the pool -/
def writerRule : Bool :=
  Facts.restoreSites.all fun r =>
    r.1 == "Template.Execute" || r.1 == "Runtime.recover" || !r.2.contains "set Writer" || r.2.contains "defer-set Writer"

/-- a handler that catches a failure (try, isset) puts scope, context and content back (C07, C13, C17) -/
def handlerRule : Bool :=
  ["Runtime.executeTry", "Runtime.isSet"].all fun fn =>
    let l := eventsOf fn
    l.contains "recover" && l.contains "defer-set scope" && l.contains "defer-set context" && l.contains "defer-set content"

/-- include, exec and includeIfExists open a scope that a `defer` closes, and arm the restore of `.` before they
    change it (C09) -/
def includeRule : Bool :=
  ["Runtime.executeInclude", "builtin exec", "builtin includeIfExists"].all fun fn =>
    let l := eventsOf fn
    before "new" "defer-release" l && before "defer-set context" "set context" l && !l.contains "release"

/-- the content closure of a yield hands scope and content back by a `defer` (D45) -/
def contentRule : Bool :=
  let l := eventsOf "Runtime.executeYieldBlock"
  before "defer-set scope" "set scope" l && before "defer-set content" "set scope" l

theorem jet_writer_restored_by_defer : writerRule = true := by decide
theorem jet_handlers_restore_everything : handlerRule = true := by decide
theorem jet_include_scope_and_context_deferred : includeRule = true := by decide
theorem jet_content_closure_restores_by_defer : contentRule = true := by decide

end JetVerif.Props.Restore
