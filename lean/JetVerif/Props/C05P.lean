/-
  C05, the structure part: the control-structure productions of parse.go (`textOrAction`, `action`,
  `parseControl` behind `if` / `range`, `elseControl`, `itemList`; modelled production by production in
  Model/Parse.lean and compared with the real parser tree by tree on every run, stream `parsetree`)
  map every derivation of the documented statement grammar (Model/StmtGrammar.lean) to the promised tree:

    an if / else if / else chain is the nested branch structure with every body under its own
    condition, in order; `else if` is an else list whose only node is the next `if` of the chain, and
    ONE `{{end}}` closes all of it; `range … else … end` keeps its variables, its expression, its body
    and its else list; bodies nest to any depth.

  For all derivations (statements: text, `{{e}}`, if chains, range with none / one / two variables, any
  nesting), all fuels above a bound linear in the size, all parser states whose next item is the first
  item of the spelling, and whatever follows the statement.  The spelling is the canonical one of
  Model/StmtGrammar.lean; items sit at position 0, so every node is on line 1 and the statement is about
  structure only (lines are C12L's and the correspondence's).  Embedded expressions are the derivations
  of the expression grammar (Props/C04P.lean).
-/
import JetVerif.Lemmas.StmtLadder

namespace JetVerif.Props.C05P
open JetVerif JetVerif.Parse JetVerif.ExprGrammar JetVerif.StmtGrammar

/-- **A statement is read as one derivation**: from any state about to read its spelling, `textOrAction`
    returns the promised tree and stops right behind the statement, whatever follows. -/
theorem statement_reads_one_derivation (cfg : Cfg) (s : S) (n : Nat) (b : PSt) (x : Item) (rest : List Item)
    (hn : n ≥ 10 * sizeS s) :
    textOrAction cfg n (mkS b (toksS s ++ rest) x 0) = .ok (treeS s) (mkS b rest (lastS s) 0) :=
  stmtS cfg s n _ b rest hn (starts_fresh b x ((headS s).append rest).good)

/-- the same when the first item has been looked at and pushed back (`t.peekNonSpace()` in `itemList`,
    `t.peek()` in `parseTemplate`: that is how `textOrAction` is always called) -/
theorem statement_after_peek (cfg : Cfg) (s : S) (n : Nat) (b : PSt) (t : Item) (ts rest : List Item)
    (hn : n ≥ 10 * sizeS s) (hl : toksS s ++ rest = t :: ts) :
    textOrAction cfg n (mkS b ts t 1) = .ok (treeS s) (mkS b rest (lastS s) 0) := by
  obtain ⟨t', ts', h, _, hs⟩ := ((headS s).append rest).good
  have : t = t' := by rw [h] at hl; simp at hl; exact hl.1.symm
  subst this
  exact stmtS cfg s n _ b rest hn (by rw [hl]; exact starts_pushed b t ts hs)

/-- **A body is read statement by statement up to its `{{end}}`**: `itemList` returns the trees of the
    statements, in order, and the end marker, and stops behind the `{{end}}`. -/
theorem body_reads_its_statements (cfg : Cfg) (l : L) (n : Nat) (b : PSt) (x : Item) (rest : List Item)
    (hn : n ≥ 10 * sizeL l + 4) :
    itemList cfg n [.end_] (mkS b (toksL l ++ (endToks ++ rest)) x 0) = .ok (1, treeL l, .endM) (mkS b rest rd 0) := by
  obtain ⟨m, rfl⟩ : ∃ m, n = m + 1 := ⟨n - 1, by omega⟩
  exact itemList_end cfg l (listL cfg l) m [.end_] _ b rest (by omega) (peeks_fresh b x (headL l _).good) (by decide)

/-- … and up to an `{{else}}` when the list is the body of an `if` or a `range` -/
theorem body_stops_at_else (cfg : Cfg) (l : L) (n : Nat) (b : PSt) (x : Item) (rest : List Item)
    (hn : n ≥ 10 * sizeL l + 4) :
    itemList cfg n [.else_, .end_] (mkS b (toksL l ++ ld :: kElse :: rd :: rest) x 0) =
      .ok (1, treeL l, .elseM 1) (mkS b rest rd 0) := by
  obtain ⟨m, rfl⟩ : ∃ m, n = m + 1 := ⟨n - 1, by omega⟩
  exact itemList_else cfg l (listL cfg l) m [.else_, .end_] _ b rest (by omega) (peeks_fresh b x (headL l _).good) (by decide)

/-- **The top-level loop reads the statements up to the end of the template**: `parseTemplate`'s loop
    (`for t.peek().typ != itemEOF`) returns the trees of the statements in order.  (The `extends` / `import`
    prologue in front of it is not part of this statement.) -/
theorem template_body_reads_its_statements (cfg : Cfg) (l : L) (fuel k : Nat) (acc : List PStmt) (b : PSt) (x : Item)
    (hf : fuel ≥ 10 * sizeL l) (hk : k ≥ lenL l + 1) :
    bodyLoop cfg fuel k acc (mkS b (toksL l ++ [eofI]) x 0) = .ok (acc ++ treeL l) (mkS b [] eofI 1) :=
  bodyLoop_reads cfg fuel l k acc b x hf hk

/-! ### if / else if / else chains -/

/-- the continuation of a chain: the `else if` clauses in order, then the optional final `else` -/
def elseChain : List (E7 × L) → Option L → Else
  | [], none => .none
  | [], some l => .els l
  | (c, t) :: more, fin => .elseIf c t (elseChain more fin)

/-- `{{if c}} t {{else if c₁}} t₁ … {{else if cₖ}} tₖ [{{else}} fin] {{end}}` -/
def ifChain (c : E7) (t : L) (more : List (E7 × L)) (fin : Option L) : S := .ifS c t (elseChain more fin)

/-- how the chain is spelled: the clauses one after the other and ONE `{{end}}` -/
def chainToks (c : E7) (t : L) (more : List (E7 × L)) (fin : Option L) : List Item :=
  ld :: kIf :: sp :: (toks7 c ++ rd :: toksL t)
    ++ more.flatMap (fun ct => ld :: kElse :: sp :: kIf :: sp :: (toks7 ct.1 ++ rd :: toksL ct.2))
    ++ (match fin with | none => [] | some l => ld :: kElse :: rd :: toksL l)
    ++ [ld, kEnd, rd]

/-- the promised tree: every body under its own condition; each `else if` is the only node of the else
    list of the `if` before it; the final `else` list belongs to the last condition -/
def chainTree (c : E7) (t : L) : List (E7 × L) → Option L → PStmt
  | [], none => .branch true 1 none (some (tree7 c)) 1 (treeL t) none
  | [], some l => .branch true 1 none (some (tree7 c)) 1 (treeL t) (some (1, treeL l))
  | (c', t') :: more, fin => .branch true 1 none (some (tree7 c)) 1 (treeL t) (some (1, [chainTree c' t' more fin]))

theorem toksElse_elseChain (more : List (E7 × L)) (fin : Option L) :
    toksElse (elseChain more fin) =
      more.flatMap (fun ct => ld :: kElse :: sp :: kIf :: sp :: (toks7 ct.1 ++ rd :: toksL ct.2))
        ++ (match fin with | none => [] | some l => ld :: kElse :: rd :: toksL l) ++ [ld, kEnd, rd] := by
  induction more with
  | nil => cases fin <;> simp [elseChain, toksElse, endToks]
  | cons ct more ih => simp [elseChain, toksElse, ih]

theorem toksS_ifChain (c : E7) (t : L) (more : List (E7 × L)) (fin : Option L) :
    toksS (ifChain c t more fin) = chainToks c t more fin := by
  simp [ifChain, toksS, chainToks, toksElse_elseChain]

theorem treeS_ifChain (c : E7) (t : L) (more : List (E7 × L)) (fin : Option L) :
    treeS (ifChain c t more fin) = chainTree c t more fin := by
  induction more generalizing c t with
  | nil => cases fin <;> simp [ifChain, elseChain, treeS, treeElse, chainTree]
  | cons ct more ih =>
    have := ih ct.1 ct.2
    simp only [ifChain, treeS] at this
    simp [ifChain, elseChain, treeS, treeElse, chainTree, this]

def chainSize (c : E7) (t : L) (more : List (E7 × L)) (fin : Option L) : Nat := sizeS (ifChain c t more fin)

/-- **An if / else-if / else chain is parsed as written**: for every chain of conditions and bodies (and
    an optional final else) the tree is the nested branch structure with every body under its own
    condition, in order, and one `{{end}}` closes all of it. -/
theorem if_chain_is_parsed_as_written (cfg : Cfg) (c : E7) (t : L) (more : List (E7 × L)) (fin : Option L)
    (n : Nat) (b : PSt) (x : Item) (rest : List Item) (hn : n ≥ 10 * chainSize c t more fin) :
    textOrAction cfg n (mkS b (chainToks c t more fin ++ rest) x 0) = .ok (chainTree c t more fin) (mkS b rest rd 0) := by
  rw [← toksS_ifChain, ← treeS_ifChain]
  exact statement_reads_one_derivation cfg (ifChain c t more fin) n b x rest hn

/-! ### range -/

/-- how a range is spelled -/
def rangeToks (v : RangeVars) (e : E7) (body : L) (els : Option L) : List Item :=
  ld :: kRange :: sp :: (toksV v ++ toks7 e ++ rd :: toksL body)
    ++ (match els with | none => [] | some l => ld :: kElse :: rd :: toksL l)
    ++ [ld, kEnd, rd]

def rangeOf (v : RangeVars) (e : E7) (body : L) (els : Option L) : S :=
  .rangeS v e body (match els with | none => .none | some l => .els l)

/-- **range … else … end is parsed as written**: the node keeps the variables (`k, v :=` as a `Set` whose
    right side is the ranged expression; without variables the expression itself), the body, and the else
    list exactly when there is an `{{else}}`; it is not an `if` (no `else if` is looked for). -/
theorem range_is_parsed_as_written (cfg : Cfg) (v : RangeVars) (e : E7) (body : L) (els : Option L)
    (n : Nat) (b : PSt) (x : Item) (rest : List Item) (hn : n ≥ 10 * sizeS (rangeOf v e body els)) :
    textOrAction cfg n (mkS b (rangeToks v e body els ++ rest) x 0) =
      .ok (.branch false 1 (setV v (tree7 e)) (exprV v (tree7 e)) 1 (treeL body) (els.map fun l => (1, treeL l)))
        (mkS b rest rd 0) := by
  have h := statement_reads_one_derivation cfg (rangeOf v e body els) n b x rest hn
  cases els <;> simpa [rangeOf, rangeToks, toksS, toksR, endToks, treeS, treeR, lastS] using h

/-! ### readable instances (and non-vacuity: the hypotheses are met by concrete derivations) -/

section examples
def v7 (s : String) : E7 := atom7 (str s)
def idt (s : String) : PExpr := .ident 1 (str s)
def txt (s : String) : S := .text (str s)
def one (s : S) : L := .cons s .nil

/-- `{{if a}}x{{else if b}}y{{else}}z{{end}}` -/
def ex_chain : S := ifChain (v7 "a") (one (txt "x")) [(v7 "b", one (txt "y"))] (some (one (txt "z")))

example : (toksS ex_chain).map (·.typ) =
    [Tok.leftDelim, Tok.if_, Tok.space, Tok.identifier, Tok.rightDelim, Tok.text,
     Tok.leftDelim, Tok.else_, Tok.space, Tok.if_, Tok.space, Tok.identifier, Tok.rightDelim, Tok.text,
     Tok.leftDelim, Tok.else_, Tok.rightDelim, Tok.text,
     Tok.leftDelim, Tok.end_, Tok.rightDelim] := rfl

/-- `y` is under `b`, `z` is the else of `b` (not of `a`), and the `if b` is the only node of `a`'s else list -/
example : treeS ex_chain =
    .branch true 1 none (some (idt "a")) 1 [.text 1 (str "x")]
      (some (1, [.branch true 1 none (some (idt "b")) 1 [.text 1 (str "y")]
        (some (1, [.text 1 (str "z")]))])) := rfl

/-- the theorem applied: the parser model on the chain followed by more text -/
example (cfg : Cfg) (b : PSt) (x : Item) :
    textOrAction cfg 400 (mkS b (toksS ex_chain ++ [it Tok.text (str "more")]) x 0) =
      .ok (.branch true 1 none (some (idt "a")) 1 [.text 1 (str "x")]
        (some (1, [.branch true 1 none (some (idt "b")) 1 [.text 1 (str "y")]
          (some (1, [.text 1 (str "z")]))]))) (mkS b [it Tok.text (str "more")] rd 0) :=
  statement_reads_one_derivation cfg ex_chain 400 b x _ (by decide)

/-- `{{if a}}{{if b}}x{{end}}{{else}}y{{end}}` : the inner `{{end}}` closes the inner `if`, the else is `a`'s -/
def ex_nested : S := .ifS (v7 "a") (one (.ifS (v7 "b") (one (txt "x")) .none)) (.els (one (txt "y")))
example : treeS ex_nested =
    .branch true 1 none (some (idt "a")) 1 [.branch true 1 none (some (idt "b")) 1 [.text 1 (str "x")] none]
      (some (1, [.text 1 (str "y")])) := rfl
example (cfg : Cfg) (b : PSt) (x : Item) :
    textOrAction cfg 400 (mkS b (toksS ex_nested) x 0) = .ok (treeS ex_nested) (mkS b [] rd 0) := by
  have h := statement_reads_one_derivation cfg ex_nested 400 b x [] (by decide)
  rw [List.append_nil] at h
  exact h

/-- `{{range k,v:=m}}{{v}}{{else}}none{{end}}` -/
def ex_range : S := rangeOf (.two (str "k") (str "v")) (v7 "m") (one (.print (v7 "v"))) (some (one (txt "none")))

example : (toksS ex_range).map (·.typ) =
    [Tok.leftDelim, Tok.range, Tok.space, Tok.identifier, Tok.comma, Tok.identifier, Tok.assign, Tok.identifier,
     Tok.rightDelim, Tok.leftDelim, Tok.identifier, Tok.rightDelim,
     Tok.leftDelim, Tok.else_, Tok.rightDelim, Tok.text, Tok.leftDelim, Tok.end_, Tok.rightDelim] := rfl

example : treeS ex_range =
    .branch false 1
      (some { line := 1, isLet := true, lookup := false, left := [idt "k", idt "v"], right := [idt "m"] }) none
      1 [printTree (idt "v")] (some (1, [.text 1 (str "none")])) := rfl

example (cfg : Cfg) (b : PSt) (x : Item) :
    textOrAction cfg 600 (mkS b (rangeToks (.two (str "k") (str "v")) (v7 "m") (one (.print (v7 "v"))) (some (one (txt "none"))) ++ []) x 0) =
      .ok (.branch false 1
        (some { line := 1, isLet := true, lookup := false, left := [idt "k", idt "v"], right := [idt "m"] }) none
        1 [printTree (idt "v")] (some (1, [.text 1 (str "none")]))) (mkS b [] rd 0) :=
  range_is_parsed_as_written cfg _ _ _ _ 600 b x [] (by decide)

/-- a whole template body: `pre{{if a}}x{{else if b}}y{{else}}z{{end}}post` up to the end of the input -/
example (cfg : Cfg) (b : PSt) (x : Item) :
    bodyLoop cfg 500 10 [] (mkS b (toksL (.cons (txt "pre") (.cons ex_chain (one (txt "post")))) ++ [eofI]) x 0) =
      .ok [.text 1 (str "pre"), treeS ex_chain, .text 1 (str "post")] (mkS b [] eofI 1) :=
  template_body_reads_its_statements cfg _ 500 10 [] b x (by decide) (by decide)

/- The canonical spelling is what the lexer model emits for these sources (item types and values; the real
   positions are not 0): with `lexed src := (itemsOf evs).map (typ, val)` for `Lex.lexRun defaultDelims src`,
   `#eval lexed "{{if a}}x{{else if b}}y{{else}}z{{end}}" == (toksS ex_chain ++ [eofI]).map (typ, val)` and the
   same for `ex_nested` (`{{if a}}{{if b}}x{{end}}{{else}}y{{end}}`) and `ex_range`
   (`{{range k,v:=m}}{{v}}{{else}}none{{end}}`) print `true` (the lexer does not reduce in the kernel, so this
   is a run, not a theorem). -/

/-- a chain with an embedded compound condition: `{{if a+b*c}}x{{end}}` keeps the expression's grouping -/
def ex_cond : S := ifChain C04P.e_add_mul (one (txt "x")) [] none
example : treeS ex_cond =
    .branch true 1 none
      (some (.binary .add 1 Tok.add (some (idt "a")) (.binary .mul 1 Tok.mul (some (idt "b")) (idt "c"))))
      1 [.text 1 (str "x")] none := rfl
end examples

end JetVerif.Props.C05P
