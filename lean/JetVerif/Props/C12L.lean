/-
  C12, the parser part of "a runtime error names the line of the failing node": every `line` the
  parser records in the tree it builds - in statements, expressions, sets, commands, pipelines, default
  values of block parameters, else branches, catch clauses, and in the blocks it registers in
  `passedBlocks` - is a line of the source: between 1 and 1 + the number of newlines.  The interpreter
  reports a failing node's line as it stands in the tree ("Jet Runtime Error (file:line)"), so the line
  it reports exists in the file.

  Proved of the parser model (Model/Parse.lean) for every item sequence, fuel, literal table and loader;
  Lemmas/ParseLines.lean has one lemma per production.
-/
import JetVerif.Lemmas.ParseLines
import JetVerif.Props.C02L

namespace JetVerif.Props.C12L
open JetVerif JetVerif.Lex JetVerif.Parse

/-- **Every node of a successfully parsed template carries a line of its source.** -/
theorem parsed_tree_lines_lie_in_the_source (cfg : Parse.Cfg) (name input : Bytes) (toks : List Parse.Item) (fuel : Nat)
    (h : C02P.WfItems input toks) (rl : Nat) (nodes : List Parse.PStmt) (s' : Parse.PSt)
    (hk : Parse.parseTemplate cfg fuel { input := input, name := name, toks := toks } = .ok (rl, nodes) s') :
    Parse.LineOk input rl ∧ (∀ n ∈ nodes, n.LinesOk input) ∧ (∀ b ∈ s'.passed, b.2.LinesOk input) := by
  have := parseTemplate_safe_lines input cfg fuel _ ⟨initial_inv input name toks h.1 h.2, initial_J input name toks⟩
  rw [hk] at this
  obtain ⟨_, hj, hr⟩ := this
  exact ⟨hr.1, hr.2, hj.2⟩

/-- the same without any assumption on the items: the lines are good whatever the lexer sent -/
theorem parsed_tree_lines_lie_in_the_source_any_items (cfg : Parse.Cfg) (name input : Bytes) (toks : List Parse.Item)
    (fuel : Nat) (rl : Nat) (nodes : List Parse.PStmt) (s' : Parse.PSt)
    (hk : Parse.parseTemplate cfg fuel { input := input, name := name, toks := toks } = .ok (rl, nodes) s') :
    Parse.LineOk input rl ∧ (∀ n ∈ nodes, n.LinesOk input) ∧ (∀ b ∈ s'.passed, b.2.LinesOk input) := by
  obtain ⟨hj, hr⟩ := parseTemplate_lines input cfg fuel _ (initial_J input name toks) _ _ hk
  exact ⟨hr.1, hr.2, hj.2⟩

/-- **The same from source bytes**, for every delimiter configuration: root line, root list and every
    registered block of the template `Set.parse` returns. -/
theorem parseSource_tree_lines_lie_in_the_source (cfg : Parse.Cfg) (l r lc rc name input : Bytes) (t : Parse.PTmpl)
    (h : Parse.parseSource cfg (mkDelims l r lc rc) name input = .ok t) : t.LinesOk input := by
  unfold Parse.parseSource at h
  cases hl : lexRun (mkDelims l r lc rc) input with
  | done evs =>
    rw [hl] at h
    simp only at h
    unfold Parse.parseItems at h
    have hw := C02L.lexer_output_satisfies_parser_assumptions l r lc rc input evs hl
    cases hp : Parse.parseTemplate cfg (Parse.fuelFor (Parse.itemsOf evs))
        { input := input, name := name, toks := Parse.itemsOf evs } with
    | ok r s =>
      obtain ⟨rl, nodes⟩ := r
      rw [hp] at h
      simp at h
      subst h
      exact parsed_tree_lines_lie_in_the_source cfg name input _ _ hw rl nodes s hp
    | err l2 m2 => rw [hp] at h; simp at h
    | crash w' => rw [hp] at h; simp at h
    | fuel => rw [hp] at h; simp at h
    | unsupported w' => rw [hp] at h; simp at h
  | crash m e => rw [hl] at h; simp at h
  | outOfFuel e => rw [hl] at h; simp at h

/-- the expression productions on their own, from any state over the source -/
theorem parsed_expression_lines_lie_in_the_source (cfg : Parse.Cfg) (input : Bytes) (n : Nat) (ctx : String)
    (s : Parse.PSt) (hs : s.input = input) (hp : ∀ b ∈ s.passed, b.2.LinesOk input) (e : Parse.PExpr) (tk : Parse.Item)
    (s' : Parse.PSt) (hk : Parse.parseExpression cfg n ctx s = .ok (e, tk) s') : e.LinesOk input :=
  ((exprLines_all input cfg n).pexpr ctx s ⟨hs, hp⟩ _ _ hk).2.1

/-! ### non-vacuity -/

/-- the source `{{ .a }}⏎{{ .b }}` (two lines) -/
private def src : Bytes := [123, 123, 32, 46, 97, 32, 125, 125, 10, 123, 123, 32, 46, 98, 32, 125, 125]
/-- its items -/
private def srcItems : List Parse.Item :=
  [⟨Tok.leftDelim, 0, [123, 123]⟩, ⟨Tok.space, 2, [32]⟩, ⟨Tok.field, 3, [46, 97]⟩,
   ⟨Tok.space, 5, [32]⟩, ⟨Tok.rightDelim, 6, [125, 125]⟩, ⟨Tok.text, 8, [10]⟩,
   ⟨Tok.leftDelim, 9, [123, 123]⟩, ⟨Tok.space, 11, [32]⟩, ⟨Tok.field, 12, [46, 98]⟩,
   ⟨Tok.space, 14, [32]⟩, ⟨Tok.rightDelim, 15, [125, 125]⟩, ⟨Tok.eof, 17, []⟩]
private def cfg0 : Parse.Cfg := { lit := fun _ _ => .unknown, load := fun _ => none }
private def isOk : Parse.PRes (Nat × List Parse.PStmt) → Bool | .ok _ _ => true | _ => false

/-- the hypotheses of `parsed_tree_lines_lie_in_the_source` are satisfiable: the items are well-formed and the
    parser returns a tree (three nodes: an action on line 1, the newline text, an action on line 2) -/
example : C02P.WfItems src srcItems ∧
    ∃ rl nodes s', Parse.parseTemplate cfg0 30 { input := src, name := [], toks := srcItems } = .ok (rl, nodes) s' ∧
      nodes.length = 3 ∧ Parse.LineOk src rl ∧ ∀ n ∈ nodes, n.LinesOk src := by
  have hw : C02P.WfItems src srcItems := by
    refine ⟨?_, eofLast_of_dropLast (by decide)⟩
    intro t ht
    simp [srcItems] at ht
    rcases ht with rfl | rfl | rfl | rfl | rfl | rfl | rfl | rfl | rfl | rfl | rfl | rfl <;>
      refine ⟨by decide, by decide, ?_⟩ <;> intro h <;> first | exact ⟨_, _, rfl⟩ | cases h
  refine ⟨hw, ?_⟩
  have hok : isOk (Parse.parseTemplate cfg0 30 { input := src, name := [], toks := srcItems }) = true ∧
      (match Parse.parseTemplate cfg0 30 { input := src, name := [], toks := srcItems } with
        | .ok r _ => r.2.length | _ => 0) = 3 := by decide +kernel
  cases hp : Parse.parseTemplate cfg0 30 { input := src, name := [], toks := srcItems } with
  | ok r s =>
    obtain ⟨rl, nodes⟩ := r
    have := parsed_tree_lines_lie_in_the_source cfg0 [] src srcItems 30 hw rl nodes s hp
    rw [hp] at hok
    exact ⟨rl, nodes, s, rfl, hok.2, this.1, this.2.1⟩
  | err l m => rw [hp] at hok; simp [isOk] at hok
  | crash w => rw [hp] at hok; simp [isOk] at hok
  | fuel => rw [hp] at hok; simp [isOk] at hok
  | unsupported w => rw [hp] at hok; simp [isOk] at hok

/-- the predicate holds of the second action of that tree ... -/
example : (Parse.PStmt.action 2 none (some { line := 2, cmds :=
    [{ line := 2, callLine := 0, base := .field 2 [[98]], args := none, hasSlot := false }] })).LinesOk src := by
  simp [PStmt.LinesOk, PPipe.LinesOk, PCmd.LinesOk, PExpr.LinesOk, LineOk, src, countNl]

/-- ... and it is not trivially true: a field node that claims line 3 of the two-line source fails it -/
example : ¬ (Parse.PStmt.action 2 none (some { line := 2, cmds :=
    [{ line := 2, callLine := 0, base := .field 3 [[98]], args := none, hasSlot := false }] })).LinesOk src := by
  simp [PStmt.LinesOk, PPipe.LinesOk, PCmd.LinesOk, PExpr.LinesOk, LineOk, src, countNl]

end JetVerif.Props.C12L
