/-
  C12, the parser part of "a runtime error names the line of the failing node": every `line` the
  parser records in the tree it builds - in statements, expressions, sets, commands, pipelines, default
  values of block parameters, else branches, catch clauses, and in the blocks it registers in
  `passedBlocks` - is a line of the source: between 1 and 1 + the number of newlines.  The interpreter
  reports a failing node's line as it stands in the tree ("Jet Runtime Error (file:line)"), so the line
  it reports exists in the file.

  Proved of the parser model (Model/Parse.lean) for every item sequence, fuel, literal table and loader;
  Lemmas/ParseLines.lean has one lemma per production.
-/
import JetVerif.Lemmas.ParseLines
import JetVerif.Props.C02L

namespace JetVerif.Props.C12L
open JetVerif JetVerif.Lex JetVerif.Parse

/-- **Every node of a successfully parsed template carries a line of its source.** -/
theorem parsed_tree_lines_lie_in_the_source (cfg : Parse.Cfg) (name input : Bytes) (toks : List Parse.Item) (fuel : Nat)
    (h : C02P.WfItems input toks) (rl : Nat) (nodes : List Parse.PStmt) (s' : Parse.PSt)
    (hk : Parse.parseTemplate cfg fuel { input := input, name := name, toks := toks } = .ok (rl, nodes) s') :
    Parse.LineOk input rl ∧ (∀ n ∈ nodes, n.LinesOk input) ∧ (∀ b ∈ s'.passed, b.2.LinesOk input) := by
  have := parseTemplate_safe_lines input cfg fuel _ ⟨initial_inv input name toks h.1 h.2, initial_J input name toks⟩
  rw [hk] at this
  obtain ⟨_, hj, hr⟩ := this
  exact ⟨hr.1, hr.2, hj.2⟩

/-- the same without any assumption on the items: the lines are good whatever the lexer sent -/
theorem parsed_tree_lines_lie_in_the_source_any_items (cfg : Parse.Cfg) (name input : Bytes) (toks : List Parse.Item)
    (fuel : Nat) (rl : Nat) (nodes : List Parse.PStmt) (s' : Parse.PSt)
    (hk : Parse.parseTemplate cfg fuel { input := input, name := name, toks := toks } = .ok (rl, nodes) s') :
    Parse.LineOk input rl ∧ (∀ n ∈ nodes, n.LinesOk input) ∧ (∀ b ∈ s'.passed, b.2.LinesOk input) := by
  obtain ⟨hj, hr⟩ := parseTemplate_lines input cfg fuel _ (initial_J input name toks) _ _ hk
  exact ⟨hr.1, hr.2, hj.2⟩

/-- **The same from source bytes**, for every delimiter configuration: root line, root list and every
    registered block of the template `Set.parse` returns. -/
theorem parseSource_tree_lines_lie_in_the_source (cfg : Parse.Cfg) (l r lc rc name input : Bytes) (t : Parse.PTmpl)
    (h : Parse.parseSource cfg (mkDelims l r lc rc) name input = .ok t) : t.LinesOk input := by
  unfold Parse.parseSource at h
  cases hl : lexRun (mkDelims l r lc rc) input with
  | done evs =>
    rw [hl] at h
    simp only at h
    unfold Parse.parseItems at h
    have hw := C02L.lexer_output_satisfies_parser_assumptions l r lc rc input evs hl
    cases hp : Parse.parseTemplate cfg (Parse.fuelFor (Parse.itemsOf evs))
        { input := input, name := name, toks := Parse.itemsOf evs } with
    | ok r s =>
      obtain ⟨rl, nodes⟩ := r
      rw [hp] at h
      simp at h
      subst h
      exact parsed_tree_lines_lie_in_the_source cfg name input _ _ hw rl nodes s hp
    | err l2 m2 => rw [hp] at h; simp at h
    | crash w' => rw [hp] at h; simp at h
    | fuel => rw [hp] at h; simp at h
    | unsupported w' => rw [hp] at h; simp at h
  | crash m e => rw [hl] at h; simp at h
  | outOfFuel e => rw [hl] at h; simp at h

/-- the expression productions on their own, from any state over the source -/
theorem parsed_expression_lines_lie_in_the_source (cfg : Parse.Cfg) (input : Bytes) (n : Nat) (ctx : String)
    (s : Parse.PSt) (hs : s.input = input) (hp : ∀ b ∈ s.passed, b.2.LinesOk input) (e : Parse.PExpr) (tk : Parse.Item)
    (s' : Parse.PSt) (hk : Parse.parseExpression cfg n ctx s = .ok (e, tk) s') : e.LinesOk input :=
  ((exprLines_all input cfg n).pexpr ctx s ⟨hs, hp⟩ _ _ hk).2.1

end JetVerif.Props.C12L
