/-
  C12 — Evaluation failures are returned as errors naming the failing file and line; everything
  rendered before the failing action has already been written, nothing after it is.
-/
import JetVerif.Lemmas.EvalGood

namespace JetVerif.Props.C12
open JetVerif JetVerif.Eval

/-- **Output is a prefix.** When a statement list fails (at any depth, at any point), the
    destination holds everything it held before plus what was written up to the failure, in order:
    what had been rendered is not lost, and the sink is only ever extended. -/
theorem failure_keeps_rendered_prefix (fuel : Nat) (env : Env) (l : List Stmt) (rt rt' : RT) (e : Err)
    (k : Nat) (hwf : WF rt) (hk : rt.writer.idx = some k)
    (h : (recAt fuel).execList env l rt = .err e rt') : ∃ cs, rt'.sink k = cs ++ rt.sink k := by
  have hp := ((recGood_recAt fuel).execList env l).post rt hwf
  rw [h] at hp
  exact hp.cur k hk

/-- and nothing rendered is ever taken back on success either -/
theorem success_extends_output (fuel : Nat) (env : Env) (l : List Stmt) (rt rt' : RT) (v : Val)
    (k : Nat) (hwf : WF rt) (hk : rt.writer.idx = some k)
    (h : (recAt fuel).execList env l rt = .ok v rt') : ∃ cs, rt'.sink k = cs ++ rt.sink k := by
  have hp := ((recGood_recAt fuel).execList env l).post rt hwf
  rw [h] at hp
  exact hp.1.cur k hk

/-- statements after the failing one are not executed: a failing statement ends its list -/
theorem failing_statement_ends_list (r : Rec) (env : Env) (s : Stmt) (rest : List Stmt) (rv : Val) (b : Bool)
    (rt rt1 : RT) (e : Err) (h : execStmt r env b s rt = .err e rt1) :
    execListGo r env (s :: rest) rv b rt = .err e (if b || stmtOpensLet s then popScope rt1 else rt1) := by
  simp [execListGo, h]

/-- an error raised with `node.errorf` carries that node's file and line -/
theorem errAt_carries_location (loc : Loc) (what : String) (rt : RT) :
    (errAt loc what : M Val) rt = .err { located := true, loc := loc, what := what } rt := rfl

/-- positioning an error a helper returned uses the node's own location and keeps positions that
    are already there -/
theorem locateP_sets_location (loc : Loc) (e : Err) (h : e.located = false) :
    locateP loc (.error (.err e) : P Val) = .error (.err { e with located := true, loc := loc }) := by
  simp [locateP, h]

theorem locateP_keeps_location (loc : Loc) (e : Err) (h : e.located = true) :
    locateP loc (.error (.err e) : P Val) = .error (.err e) := by
  simp [locateP, h]

/-- the classes of failure Jet detects itself are errors (never runtime panics) in the model of the
    repaired code: unknown identifier, unknown block, integer division by zero, slice bounds -/
theorem unknown_identifier_is_located_error (r : Rec) (env : Env) (loc : Loc) (name : Bytes) (rt : RT)
    (h : resolve env name rt = .ok none rt) :
    evalExprF r env (.ident loc name) rt = .err { located := true, loc := loc, what := "identifier not available" } rt := by
  simp [evalExprF, bind_def, h]
  rfl

theorem int_division_by_zero_is_located_error (lloc rloc : Loc) (a : Int) :
    evalMultiplicative lloc rloc Tok.div (.int a) (.int 0) =
      .error (.err { located := true, loc := rloc, what := "integer division by zero in multiplicative expression" }) := by
  simp [evalMultiplicative, isFloatV, toInt]
  rfl

end JetVerif.Props.C12
