/-
  C02 — parsing is total: any source yields a template or an error, never a crash.
  Model: the lexer (Model/Lex.lean, invariant in Lemmas/LexInv.lean) and the abstract Set of
  Model/SetM.lean, whose `getTemplate` / `loadFromFile` / `refsLoop` follow extends/import
  references with the `parsing` stack of set.go / parse.go (cycle detection).
-/
import JetVerif.Model.SetM
import JetVerif.Lemmas.LexInv

namespace JetVerif.Props.C02
open JetVerif JetVerif.SetM JetVerif.Path

/-! ### loading follows extends/import references to a bounded depth, cycles included -/

/-- file names not yet on the `parsing` stack -/
def remaining (files : List (Bytes × FileSt)) (parsing : List Bytes) : Nat :=
  ((files.map Prod.fst).filter fun n => !parsing.contains n).length

/-- the longest extends/import header of any file -/
def maxRefs : List (Bytes × FileSt) → Nat
  | [] => 0
  | (_, .ok c) :: rest => max c.refs.length (maxRefs rest)
  | _ :: rest => maxRefs rest

theorem lookup_refs_le (files : List (Bytes × FileSt)) (name : Bytes) (c : Content)
    (h : lookupP name files = some (.ok c)) : c.refs.length ≤ maxRefs files ∧ name ∈ files.map Prod.fst := by
  induction files with
  | nil => simp [lookupP] at h
  | cons hd tl ih =>
    obtain ⟨k, v⟩ := hd
    unfold lookupP at h
    by_cases hk : k = name
    · simp only [hk, if_true] at h
      cases h
      exact ⟨by simp [maxRefs]; exact Nat.le_max_left _ _, by simp [hk]⟩
    · simp only [hk, if_false] at h
      have := ih h
      refine ⟨?_, by simp [this.2]⟩
      cases v with
      | ok c' => simp [maxRefs]; exact Nat.le_trans this.1 (Nat.le_max_right _ _)
      | openFails => simpa [maxRefs] using this.1
      | readFails => simpa [maxRefs] using this.1

theorem filter_length_mono {α} (p q : α → Bool) (h : ∀ x, p x = true → q x = true) (l : List α) :
    (l.filter p).length ≤ (l.filter q).length := by
  induction l with
  | nil => simp
  | cons a t ih =>
    simp only [List.filter_cons]
    by_cases hp : p a = true
    · simp only [hp, h a hp, if_true, List.length_cons]; omega
    · have hp' : p a = false := by cases hh : p a <;> simp_all
      simp only [hp', Bool.false_eq_true, if_false]
      split
      · simp only [List.length_cons]; omega
      · exact ih

theorem contains_push (parsing : List Bytes) (name a : Bytes) :
    (parsing ++ [name]).contains a = (parsing.contains a || a == name) := by
  simp [List.contains_eq_mem, List.mem_append]
  by_cases h1 : a ∈ parsing <;> by_cases h2 : a = name <;> simp [h1, h2]

theorem filter_push_lt (l : List Bytes) (parsing : List Bytes) (name : Bytes)
    (hm : name ∈ l) (hn : parsing.contains name = false) :
    (l.filter fun n => !(parsing ++ [name]).contains n).length < (l.filter fun n => !parsing.contains n).length := by
  induction l with
  | nil => cases hm
  | cons a t ih =>
    have hmono : (t.filter fun n => !(parsing ++ [name]).contains n).length ≤
        (t.filter fun n => !parsing.contains n).length := by
      apply filter_length_mono
      intro x hx
      rw [contains_push] at hx
      cases hc : parsing.contains x <;> simp_all
    by_cases ha : a = name
    · subst ha
      have h1 : (parsing ++ [a]).contains a = true := by rw [contains_push]; simp
      simp only [List.filter_cons, h1, hn, Bool.not_true, Bool.not_false, Bool.false_eq_true, if_false, if_true,
        List.length_cons]
      omega
    · have hmt : name ∈ t := by
        cases hm with
        | head => exact absurd rfl ha
        | tail _ h => exact h
      have := ih hmt
      have heq : (parsing ++ [name]).contains a = parsing.contains a := by
        rw [contains_push]; simp [ha]
      simp only [List.filter_cons, heq]
      cases parsing.contains a <;>
        simp only [Bool.not_true, Bool.not_false, Bool.false_eq_true, if_false, if_true, List.length_cons] <;> omega

theorem remaining_push (files : List (Bytes × FileSt)) (parsing : List Bytes) (name : Bytes)
    (hm : name ∈ files.map Prod.fst) (hn : parsing.contains name = false) :
    remaining files (parsing ++ [name]) < remaining files parsing :=
  filter_push_lt _ parsing name hm hn

theorem fromCache_files (s : SetSt) (p : Bytes) : (fromCache s p).2.files = s.files := rfl

theorem probeLoader_files (p : Bytes) : ∀ (es : List Bytes) (s : SetSt), (probeLoader s p es).2.files = s.files := by
  intro es
  induction es with
  | nil => intro s; rfl
  | cons e es ih =>
    intro s
    unfold probeLoader
    simp only
    split
    · rfl
    · rw [ih]; rfl

/-- what "terminates within the budget and leaves the loader's files alone" means for a result -/
def Fine (files : List (Bytes × FileSt)) (r : R × SetSt) : Prop := r.1 ≠ .fuel ∧ r.2.files = files

/-- the three mutually recursive lookup functions need at most `k * (R + 3)` (+ small constants)
    levels of recursion when `k` file names are not yet on the parsing stack and no header has more
    than `R` references — whatever the reference graph looks like -/
theorem load_bounded (files : List (Bytes × FileSt)) (R : Nat) (hR : maxRefs files ≤ R) :
    ∀ k : Nat,
      (∀ (fuel : Nat) (s : SetSt) (name : Bytes) (ca : Bool) (parsing : List Bytes),
        s.files = files → remaining files parsing ≤ k → fuel ≥ 1 + k * (R + 3) →
        Fine files (loadFromFile fuel s name ca parsing)) ∧
      (∀ (fuel : Nat) (s : SetSt) (p : Bytes) (ca : Bool) (parsing : List Bytes),
        s.files = files → remaining files parsing ≤ k → fuel ≥ 2 + k * (R + 3) →
        Fine files (getTemplate fuel s p ca parsing)) ∧
      (∀ (refs : List Bytes) (fuel : Nat) (s : SetSt) (name : Bytes) (ca : Bool) (parsing : List Bytes),
        s.files = files → remaining files parsing ≤ k → fuel ≥ refs.length + 3 + k * (R + 3) →
        Fine files (refsLoop fuel s name refs ca parsing)) := by
  intro k
  induction k with
  | zero =>
    -- every file name is on the stack: a load is refused or finds no file
    have hload : ∀ (fuel : Nat) (s : SetSt) (name : Bytes) (ca : Bool) (parsing : List Bytes),
        s.files = files → remaining files parsing ≤ 0 → fuel ≥ 1 + 0 * (R + 3) →
        Fine files (loadFromFile fuel s name ca parsing) := by
      intro fuel s name ca parsing hs hrem hf
      cases fuel with
      | zero => omega
      | succ f =>
        unfold loadFromFile
        by_cases hc : parsing.contains name = true
        · simp only [hc, if_true]; exact ⟨by simp, hs⟩
        · have hc' : parsing.contains name = false := by cases h : parsing.contains name <;> simp_all
          simp only [hc', Bool.false_eq_true, if_false]
          cases hl : lookupP name s.files with
          | none => exact ⟨by simp, hs⟩
          | some fs =>
            cases fs with
            | ok c =>
              exfalso
              have hm := (lookup_refs_le files name c (hs ▸ hl)).2
              have := remaining_push files parsing name hm hc'
              omega
            | openFails => exact ⟨by simp, hs⟩
            | readFails => exact ⟨by simp, hs⟩
    have hget : ∀ (fuel : Nat) (s : SetSt) (p : Bytes) (ca : Bool) (parsing : List Bytes),
        s.files = files → remaining files parsing ≤ 0 → fuel ≥ 2 + 0 * (R + 3) →
        Fine files (getTemplate fuel s p ca parsing) := by
      intro fuel s p ca parsing hs hrem hf
      cases fuel with
      | zero => omega
      | succ f =>
        unfold getTemplate
        simp only
        have hh : (if s.dev = true then ((none : Option Nat), s) else fromCache s p).2.files = files := by
          split
          · exact hs
          · rw [fromCache_files]; exact hs
        generalize (if s.dev = true then ((none : Option Nat), s) else fromCache s p) = hit at hh
        obtain ⟨o, s1⟩ := hit
        cases o with
        | some id => exact ⟨by simp, hh⟩
        | none =>
          simp only
          have hp := probeLoader_files p s1.exts s1
          generalize probeLoader s1 p s1.exts = pl at hp
          obtain ⟨oc, s2⟩ := pl
          cases oc with
          | none => exact ⟨by simp, hp.trans hh⟩
          | some canonical =>
            simp only
            have hl := hload f s2 canonical ca parsing (hp.trans hh) hrem (by omega)
            generalize loadFromFile f s2 canonical ca parsing = lr at hl
            obtain ⟨r, s3⟩ := lr
            cases r with
            | ok id => simp only; split <;> exact ⟨by simp, hl.2⟩
            | err => exact ⟨by simp, hl.2⟩
            | fuel => exact absurd rfl hl.1
    refine ⟨hload, hget, ?_⟩
    intro refs
    induction refs with
    | nil =>
      intro fuel s name ca parsing hs _ hf
      cases fuel with
      | zero => simp at hf
      | succ f => unfold refsLoop; exact ⟨by simp, hs⟩
    | cons ref rest ih =>
      intro fuel s name ca parsing hs hrem hf
      cases fuel with
      | zero => simp at hf
      | succ f =>
        unfold refsLoop
        have hg := hget f s (resolveSibling ref name) ca parsing hs hrem (by simp at hf ⊢; omega)
        generalize getTemplate f s (resolveSibling ref name) ca parsing = gr at hg
        obtain ⟨r, s1⟩ := gr
        cases r with
        | ok id => exact ih f s1 name ca parsing hg.2 hrem (by simp at hf ⊢; omega)
        | err => exact ⟨by simp, hg.2⟩
        | fuel => exact absurd rfl hg.1
  | succ k ihk =>
    obtain ⟨_, _, ihrefs⟩ := ihk
    have hload : ∀ (fuel : Nat) (s : SetSt) (name : Bytes) (ca : Bool) (parsing : List Bytes),
        s.files = files → remaining files parsing ≤ k + 1 → fuel ≥ 1 + (k + 1) * (R + 3) →
        Fine files (loadFromFile fuel s name ca parsing) := by
      intro fuel s name ca parsing hs hrem hf
      cases fuel with
      | zero => omega
      | succ f =>
        unfold loadFromFile
        by_cases hc : parsing.contains name = true
        · simp only [hc, if_true]; exact ⟨by simp, hs⟩
        · have hc' : parsing.contains name = false := by cases h : parsing.contains name <;> simp_all
          simp only [hc', Bool.false_eq_true, if_false]
          cases hl : lookupP name s.files with
          | none => exact ⟨by simp, hs⟩
          | some fs =>
            cases fs with
            | ok c =>
              simp only
              have hlk := lookup_refs_le files name c (hs ▸ hl)
              have hlt := remaining_push files parsing name hlk.2 hc'
              have hmul : (k + 1) * (R + 3) = k * (R + 3) + (R + 3) := by
                rw [Nat.add_mul]; simp
              have hr := ihrefs c.refs f (ev (.open_ name) s) name ca (parsing ++ [name]) hs (by omega)
                (by have := hlk.1; omega)
              generalize refsLoop f (ev (.open_ name) s) name c.refs ca (parsing ++ [name]) = rr at hr
              obtain ⟨r, s2⟩ := rr
              cases r with
              | ok id => simp only; split <;> exact ⟨by simp, hr.2⟩
              | err => exact ⟨by simp, hr.2⟩
              | fuel => exact absurd rfl hr.1
            | openFails => exact ⟨by simp, hs⟩
            | readFails => exact ⟨by simp, hs⟩
    have hget : ∀ (fuel : Nat) (s : SetSt) (p : Bytes) (ca : Bool) (parsing : List Bytes),
        s.files = files → remaining files parsing ≤ k + 1 → fuel ≥ 2 + (k + 1) * (R + 3) →
        Fine files (getTemplate fuel s p ca parsing) := by
      intro fuel s p ca parsing hs hrem hf
      cases fuel with
      | zero => omega
      | succ f =>
        unfold getTemplate
        simp only
        have hh : (if s.dev = true then ((none : Option Nat), s) else fromCache s p).2.files = files := by
          split
          · exact hs
          · rw [fromCache_files]; exact hs
        generalize (if s.dev = true then ((none : Option Nat), s) else fromCache s p) = hit at hh
        obtain ⟨o, s1⟩ := hit
        cases o with
        | some id => exact ⟨by simp, hh⟩
        | none =>
          simp only
          have hp := probeLoader_files p s1.exts s1
          generalize probeLoader s1 p s1.exts = pl at hp
          obtain ⟨oc, s2⟩ := pl
          cases oc with
          | none => exact ⟨by simp, hp.trans hh⟩
          | some canonical =>
            simp only
            have hl := hload f s2 canonical ca parsing (hp.trans hh) hrem (by omega)
            generalize loadFromFile f s2 canonical ca parsing = lr at hl
            obtain ⟨r, s3⟩ := lr
            cases r with
            | ok id => simp only; split <;> exact ⟨by simp, hl.2⟩
            | err => exact ⟨by simp, hl.2⟩
            | fuel => exact absurd rfl hl.1
    refine ⟨hload, hget, ?_⟩
    intro refs
    induction refs with
    | nil =>
      intro fuel s name ca parsing hs _ hf
      cases fuel with
      | zero => simp at hf
      | succ f => unfold refsLoop; exact ⟨by simp, hs⟩
    | cons ref rest ih =>
      intro fuel s name ca parsing hs hrem hf
      cases fuel with
      | zero => simp at hf
      | succ f =>
        unfold refsLoop
        have hg := hget f s (resolveSibling ref name) ca parsing hs hrem (by simp at hf ⊢; omega)
        generalize getTemplate f s (resolveSibling ref name) ca parsing = gr at hg
        obtain ⟨r, s1⟩ := gr
        cases r with
        | ok id => exact ih f s1 name ca parsing hg.2 hrem (by simp at hf ⊢; omega)
        | err => exact ⟨by simp, hg.2⟩
        | fuel => exact absurd rfl hg.1

/-- **GetTemplate always comes back**: with `n` files in the loader and headers of at most `R`
    references, a lookup never needs more than `2 + n·(R+3)` nested calls — for every reference
    graph, extends/import cycles and self-references included — and it returns a template or an
    error. -/
theorem getTemplate_terminates (s : SetSt) (name : Bytes) :
    (getTemplateOp (2 + s.files.length * (maxRefs s.files + 3)) s name).1 ≠ .fuel := by
  have h := (load_bounded s.files (maxRefs s.files) (Nat.le_refl _) s.files.length).2.1
    (2 + s.files.length * (maxRefs s.files + 3)) s (resolveSibling name [slash]) true [] rfl
    (by unfold remaining; simp; exact Nat.le_trans (List.length_filter_le _ _) (by simp))
    (Nat.le_refl _)
  exact h.1

/-- a template that (transitively) extends or imports itself is an error, not an endless load:
    a name already on the parsing stack is refused immediately -/
theorem self_reference_is_error (fuel : Nat) (s : SetSt) (name : Bytes) (ca : Bool) (parsing : List Bytes)
    (h : parsing.contains name = true) :
    loadFromFile (fuel + 1) s name ca parsing = (.err, s) := by
  unfold loadFromFile
  rw [if_pos h]

/-! ### the lexer -/

/-- the scan of every source under every delimiter configuration ends, in one of three ways, and
    the items produced so far are well-formed (adjacent, verbatim slices of the source) -/
theorem lexer_total (d : Lex.Delims) (input : Bytes) :
    (∃ evs, Lex.lexRun d input = .done evs ∨ (∃ m, Lex.lexRun d input = .crash m evs) ∨
        Lex.lexRun d input = .outOfFuel evs) ∧
    Lex.Chain input (Lex.lexRun d input).events.reverse := by
  refine ⟨?_, Lex.lexRun_chain d input⟩
  cases h : Lex.lexRun d input with
  | done e => exact ⟨e, Or.inl rfl⟩
  | crash m e => exact ⟨e, Or.inr (Or.inl ⟨m, rfl⟩)⟩
  | outOfFuel e => exact ⟨e, Or.inr (Or.inr rfl)⟩

end JetVerif.Props.C02
