/-
  C04 — expressions follow the documented C-like precedence, associativity and typing.
  Model: the lexer's sign-vs-operator rule (`signArm`, lists regenerated from lex.go into
  Facts.minusExcl / Facts.plusExcl) and the evaluator's expression arms (`evalExprF`,
  `evalAdditive`, `evalMultiplicative`, `evalNumericComparative`, `checkEquality`) in
  JetVerif/Model/Eval.lean.  The precedence ladder of the recursive-descent parser is not modelled;
  it is decided by the constructive oracle of the correspondence harness.
-/
import JetVerif.Generated.Facts
import JetVerif.Lemmas.EvalGood
import JetVerif.Lemmas.LexInv

namespace JetVerif.Props.C04
open JetVerif JetVerif.Eval

/-! ### `a-1`, `f(x)-1`, `s[0]-1`, `(a)-1` : a sign after an operand is an operator -/

/-- the kinds of token an operand can end with -/
def operandEnds : List String :=
  ["itemIdentifier", "itemField", "itemNumber", "itemString", "itemRawString", "itemCharConstant",
   "itemBool", "itemRightParen", "itemRightBrackets"]

/-- lex.go as it is now: after every token kind an operand can end with, `-` and `+` directly
    followed by a digit are emitted as operators, not folded into a signed number -/
theorem sign_after_operand_is_operator :
    (∀ k ∈ operandEnds, k ∈ Facts.minusExcl ∧ k ∈ Facts.plusExcl) ∧
    Facts.minusTok = "itemMinus" ∧ Facts.plusTok = "itemAdd" := by decide

/-- the rule itself: with a digit next, `signArm` starts a number exactly when the previous token's
    kind is not in the exclusion list, and emits the operator token otherwise -/
theorem signArm_rule (excl : List String) (opTok : Tok) (s : Lex.St) (r : Option Nat) (s1 : Lex.St)
    (hp : Lex.peek s = .ok r s1) (hex : excl.contains s1.lastType.name = true) :
    Lex.signArm excl opTok s = (Lex.emit opTok >>= fun _ => pure (some Lex.StateId.insideAction)) s1 := by
  unfold Lex.signArm
  rw [Lex.bind_def, hp]
  simp only [Lex.get, Lex.bind_def, hex, Bool.not_true, Bool.and_false, Bool.false_eq_true, if_false]

/-! ### typing of the operators (on already evaluated operands) -/

variable (loc lloc rloc : Loc)

/-- **two Go integers combine integrally**; `/` truncates toward zero, `%` has the dividend's sign,
    a zero divisor is an error -/
theorem int_arithmetic (a c : Int) :
    evalAdditive loc lloc rloc true (some (.int a)) (.int c) = .ok (.int (Val.wrapI (a + c))) ∧
    evalAdditive loc lloc rloc false (some (.int a)) (.int c) = .ok (.int (Val.wrapI (a - c))) ∧
    evalMultiplicative lloc rloc Tok.mul (.int a) (.int c) = .ok (.int (Val.wrapI (a * c))) ∧
    (c ≠ 0 → evalMultiplicative lloc rloc Tok.div (.int a) (.int c) = .ok (.int (Val.wrapI (Int.tdiv a c)))) ∧
    (c ≠ 0 → evalMultiplicative lloc rloc Tok.mod (.int a) (.int c) = .ok (.int (Int.tmod a c))) ∧
    (∃ e, evalMultiplicative lloc rloc Tok.div (.int a) (.int 0) = .error (.err e)) ∧
    (∃ e, evalMultiplicative lloc rloc Tok.mod (.int a) (.int 0) = .error (.err e)) := by
  refine ⟨rfl, rfl, rfl, ?_, ?_, ⟨_, rfl⟩, ⟨_, rfl⟩⟩
  · intro hc
    simp [evalMultiplicative, isFloatV, toInt, goDiv, hc, bind, Except.bind, pure, Except.pure]
  · intro hc
    simp [evalMultiplicative, isFloatV, toInt, goMod, hc, bind, Except.bind, pure, Except.pure]

/-- **any floating-point operand makes the operation floating-point** -/
theorem float_promotion (a : Int) (f g : UInt64) :
    evalAdditive loc lloc rloc true (some (.int a)) (.float f) = .ok (.float (fop (· + ·) (intToFloat a) f)) ∧
    evalAdditive loc lloc rloc true (some (.float f)) (.int a) = .ok (.float (fop (· + ·) f (intToFloat a))) ∧
    evalAdditive loc lloc rloc false (some (.float f)) (.float g) = .ok (.float (fop (· - ·) f g)) ∧
    evalMultiplicative lloc rloc Tok.mul (.int a) (.float f) = .ok (.float (fop (· * ·) (intToFloat a) f)) ∧
    evalMultiplicative lloc rloc Tok.div (.int a) (.float f) = .ok (.float (fop (· / ·) (intToFloat a) f)) ∧
    evalMultiplicative lloc rloc Tok.div (.float f) (.int a) = .ok (.float (fop (· / ·) f (intToFloat a))) := by
  refine ⟨rfl, rfl, rfl, ?_, ?_, ?_⟩ <;>
    simp [evalMultiplicative, isFloatV, toFloat, bind, Except.bind, pure, Except.pure] <;> decide

/-- **every numeric literal is a float** (a literal with a fraction, exponent or no fraction alike:
    the parser marks all of them IsFloat; an integer-valued literal additionally IsInt) -/
theorem literal_with_float_flag_is_float (r : Rec) (env : Env) (l : Loc) (isInt isUint : Bool) (i : Int) (u : Nat)
    (f : UInt64) (rt : RT) :
    evalExprF r env (.numLit l isInt isUint true i u f) rt = .ok (.float f) rt := by
  simp [evalExprF]
  rfl

/-- **`+` concatenates when its left operand is a string** -/
theorem string_concatenation (a c : Bytes) (i : Int) :
    evalAdditive loc lloc rloc true (some (.str a)) (.str c) = .ok (.str (a ++ c)) ∧
    evalAdditive loc lloc rloc true (some (.str a)) (.int i) = .ok (.str (a ++ intToDec i)) ∧
    (∃ e, evalAdditive loc lloc rloc false (some (.str a)) (.str c) = .error (.err e)) := by
  refine ⟨?_, ?_, ⟨_, rfl⟩⟩ <;>
    simp [evalAdditive, Val.isValid, isFloatV, liftOpt, fmtComposite, fmtScalar, bind, Except.bind, pure, Except.pure]

/-- **relational operators always yield true or false**, comparing integrally between integers
    and in floating point as soon as one operand is a float -/
theorem relational_on_numbers (op : Tok) (a c : Int) (f g : UInt64) :
    evalNumericComparative lloc op (.int a) (.int c) = .ok (.bool (icmp op a c)) ∧
    evalNumericComparative lloc op (.int a) (.float f) = .ok (.bool (fcmp op (intToFloat a) f)) ∧
    evalNumericComparative lloc op (.float f) (.int a) = .ok (.bool (fcmp op f (intToFloat a))) ∧
    evalNumericComparative lloc op (.float f) (.float g) = .ok (.bool (fcmp op f g)) := by
  refine ⟨rfl, ?_, rfl, rfl⟩
  simp [evalNumericComparative, isFloatV]
  rfl

/-- **two Go integers are equal exactly when they are the same integer** — compared integrally,
    never through floating point (which would identify neighbours beyond 2^53) -/
theorem int_equality_is_integral (a c : Int) :
    checkEquality (.int a) (.int c) = .ok (a == c) := by
  simp [checkEquality, Val.indirectInterface, Val.isValid, Val.kind, scalarKindConvertible, toInt,
    bind, Except.bind, pure, Except.pure]

/-- an integer and a float are compared numerically (the integer is promoted) -/
theorem int_float_equality (a : Int) (f : UInt64) :
    checkEquality (.int a) (.float f) = .ok ((intToFloat a) == f || (f64 (intToFloat a) == f64 f)) := by
  simp [checkEquality, Val.indirectInterface, Val.isValid, Val.kind, scalarKindConvertible, pure, Except.pure]

/-! ### `&&`, `||`, `!`, `?:` : booleans out, and only the operands that are needed -/

variable (r : Rec) (env : Env)

/-- **`&&` does not evaluate its right operand when the left one is false**, and yields `false` -/
theorem and_short_circuits (l rgt : Expr) (lv : Val) (rt rt1 : RT)
    (hl : r.evalExpr env l rt = .ok lv rt1) (hf : Val.isTrue lv = some false) :
    evalExprF r env (.logic loc true l rgt) rt = .ok (.bool false) rt1 := by
  simp only [evalExprF]
  rw [bind_ok hl]
  simp [hf, liftOpt, bind_def]
  rfl

/-- **`||` does not evaluate its right operand when the left one is true**, and yields `true` -/
theorem or_short_circuits (l rgt : Expr) (lv : Val) (rt rt1 : RT)
    (hl : r.evalExpr env l rt = .ok lv rt1) (ht : Val.isTrue lv = some true) :
    evalExprF r env (.logic loc false l rgt) rt = .ok (.bool true) rt1 := by
  simp only [evalExprF]
  rw [bind_ok hl]
  simp [ht, liftOpt, bind_def]
  rfl

/-- otherwise the result is the truth value of the right operand — a bool, whatever its kind -/
theorem logic_yields_bool (isAnd : Bool) (l rgt : Expr) (v : Val) (rt rt' : RT)
    (h : evalExprF r env (.logic loc isAnd l rgt) rt = .ok v rt') : ∃ t, v = .bool t := by
  simp only [evalExprF] at h
  have right : ∀ rt1, (do
        let rv ← r.evalExpr env rgt
        let t ← liftOpt "isTrue" (Val.isTrue rv)
        pure (Val.bool t) : M Val) rt1 = .ok v rt' → ∃ t, v = .bool t := by
    intro rt1 h2
    cases hr : r.evalExpr env rgt rt1 with
    | ok rv rt2 =>
      rw [bind_ok hr] at h2
      cases hrt : Val.isTrue rv with
      | none => rw [bind_unsupported (w := "isTrue") (by simp [liftOpt, hrt]; rfl)] at h2; cases h2
      | some t => rw [bind_ok (a := t) (rt1 := rt2) (by simp [liftOpt, hrt]; rfl)] at h2; cases h2; exact ⟨_, rfl⟩
    | err e rt2 => rw [bind_err hr] at h2; cases h2
    | crash m rt2 => rw [bind_crash hr] at h2; cases h2
    | fuel => rw [bind_fuel hr] at h2; cases h2
    | unsupported w => rw [bind_unsupported hr] at h2; cases h2
  cases hl : r.evalExpr env l rt with
  | ok lv rt1 =>
    rw [bind_ok hl] at h
    cases hlt : Val.isTrue lv with
    | none => rw [bind_unsupported (w := "isTrue") (by simp [liftOpt, hlt]; rfl)] at h; cases h
    | some lt =>
      rw [bind_ok (a := lt) (rt1 := rt1) (by simp [liftOpt, hlt]; rfl)] at h
      cases isAnd <;> cases lt <;>
        simp only [Bool.not_true, Bool.not_false, Bool.false_eq_true, if_false, if_true] at h
      · exact right rt1 h
      · cases h; exact ⟨_, rfl⟩
      · cases h; exact ⟨_, rfl⟩
      · exact right rt1 h
  | err e rt2 => rw [bind_err hl] at h; cases h
  | crash m rt2 => rw [bind_crash hl] at h; cases h
  | fuel => rw [bind_fuel hl] at h; cases h
  | unsupported w => rw [bind_unsupported hl] at h; cases h

/-- **`?:` evaluates the condition and exactly one branch** -/
theorem ternary_is_lazy (c l rgt : Expr) (cv : Val) (t : Bool) (rt rt1 : RT)
    (hc : r.evalExpr env c rt = .ok cv rt1) (ht : Val.isTrue cv = some t) :
    evalExprF r env (.ternary loc c l rgt) rt =
      (if t then r.evalExpr env l rt1 else r.evalExpr env rgt rt1) := by
  simp only [evalExprF]
  rw [bind_ok hc]
  simp only [ht, liftOpt, bind_def]
  cases t <;> rfl

end JetVerif.Props.C04
