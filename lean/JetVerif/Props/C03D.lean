/-
  C03, what is dropped: the invariant of Lemmas/LexNoCrash.lean carries, for every `ignore` event, what
  the dropped range consists of.  Together with Props/C03.lean (the events tile the source, token values
  are verbatim slices, the trim runs are maximal) this is the whole statement: nothing is added, and
  nothing but whitespace runs next to trim markers, the markers themselves and comments is removed.
-/
import JetVerif.Lemmas.LexNoCrash

namespace JetVerif.Props.C03D
open JetVerif JetVerif.Lex JetVerif.Utf8

/-- **What the lexer drops** (C03): every range dropped at one of the five `l.ignore()` sites is a run of
    spaces, tabs, CRs and LFs (the trim runs), the marker `- `, whatever space item was pending followed
    by the marker ` -`, or a whole comment from its opening to its first closing marker - for every
    source and every delimiter configuration. -/
theorem dropped_ranges_are_whitespace_markers_or_comments (l r lc rc input : Bytes) :
    ∀ ev ∈ (lexRun (mkDelims l r lc rc) input).evs, IgnEv input (mkDelims l r lc rc) ev := by
  unfold lexRun
  intro ev hev
  exact ((runLoop_ok _ StateId.text _ (initial_B _ (mkDelims_wf l r lc rc) input) trivial).2 ev hev).2.2


end JetVerif.Props.C03D
