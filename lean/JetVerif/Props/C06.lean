/-
  C06 — field, index and method access reach Go data uniformly and fail loudly.
  Model: JetVerif/Model/StructCache.lean (`buildCache`, the struct field table), and
  `resolveIndex` / `indexArg` in JetVerif/Model/Eval.lean (maps, slices, strings, pointers,
  interfaces).
-/
import JetVerif.Model.StructCache
import JetVerif.Props.C08

namespace JetVerif.Props.C06
open JetVerif JetVerif.Eval JetVerif.StructCache
open JetVerif.Props.C08 (alookup_aset)

/-- the fields reached by following `path` through exported anonymous struct fields -/
def subAt : List F → List Nat → Option (List F)
  | fs, [] => some fs
  | fs, i :: rest =>
    match fs[i]? with
    | some f => if f.exported && f.anonymous && f.isStruct then subAt f.sub rest else none
    | none => none

/-- `path` is a legitimate way to reach a field called `k` from the struct `root`: every step but
    the last goes through an exported embedded struct, and the last selects an exported field whose
    name is `k` — i.e. `v.FieldByIndex(path)` is the field a Go program calls `v.k` (or a field of
    that name it hides). -/
def ValidEntry (root : List F) (k : Bytes) (path : List Nat) : Prop :=
  ∃ pre i fs f, path = pre ++ [i] ∧ subAt root pre = some fs ∧ fs[i]? = some f ∧
    f.name = k ∧ f.exported = true

def Sound (root : List F) (c : Cache) : Prop :=
  ∀ k path, alookup k c = some path → ValidEntry root k path

theorem sound_nil (root : List F) : Sound root [] := by
  intro k path h; simp [alookup] at h

theorem sound_put (root : List F) (c : Cache) (name : Bytes) (index : List Nat)
    (hc : Sound root c) (hv : ValidEntry root name index) : Sound root (put name index c) := by
  intro k path h
  unfold put at h
  split at h
  · split at h
    · rw [alookup_aset] at h
      split at h
      · rename_i e; cases h; exact e ▸ hv
      · exact hc k path h
    · exact hc k path h
  · rw [alookup_aset] at h
    split at h
    · rename_i e; cases h; exact e ▸ hv
    · exact hc k path h

theorem subAt_snoc (root : List F) (pre : List Nat) (i : Nat) (fs : List F) (f : F)
    (h : subAt root pre = some fs) (hf : fs[i]? = some f)
    (he : (f.exported && f.anonymous && f.isStruct) = true) :
    subAt root (pre ++ [i]) = some f.sub := by
  induction pre generalizing root with
  | nil =>
    simp only [subAt] at h
    cases h
    simp [subAt, hf, he]
  | cons j rest ih =>
    simp only [List.cons_append, subAt] at h ⊢
    cases hj : root[j]? with
    | none => simp [hj] at h
    | some g =>
      simp only [hj] at h ⊢
      split at h
      · rename_i hg; simp only [hg, if_true]; exact ih g.sub h
      · cases h

theorem drop_cons {α} (l : List α) (i : Nat) (x : α) (r : List α) (h : l.drop i = x :: r) :
    l[i]? = some x ∧ l.drop (i + 1) = r := by
  induction l generalizing i with
  | nil => simp at h
  | cons a t ih =>
    cases i with
    | zero => simp at h; simp [h.1, h.2]
    | succ n => simp at h ⊢; exact ih n h

/-- the loop keeps the table sound, given that the recursive call does (for sub-structs reached
    by a valid prefix) -/
theorem sound_loop (root : List F) (descend : List F → List Nat → Cache → Cache)
    (hd : ∀ fs parent c, subAt root parent = some fs → Sound root c → Sound root (descend fs parent c))
    (fs : List F) (parent : List Nat) (hp : subAt root parent = some fs) :
    ∀ (rest : List F) (i : Nat) (c : Cache), fs.drop i = rest → Sound root c →
      Sound root (loop descend parent i rest c) := by
  intro rest
  induction rest with
  | nil => intro i c _ hc; exact hc
  | cons f rest ih =>
    intro i c hdrop hc
    obtain ⟨hfi, hrest⟩ := drop_cons fs i f rest hdrop
    unfold loop
    by_cases hexp : f.exported = true
    · simp only [hexp, Bool.not_true, Bool.false_eq_true, if_false]
      apply ih (i + 1) _ hrest
      apply sound_put
      · by_cases hemb : (f.anonymous && f.isStruct) = true
        · simp only [hemb, if_true]
          apply hd f.sub (parent ++ [i]) c _ hc
          exact subAt_snoc root parent i fs f hp hfi (by simp [hexp, Bool.and_assoc] at hemb ⊢; exact hemb)
        · simp only [hemb, Bool.false_eq_true, if_false]; exact hc
      · exact ⟨parent, i, fs, f, rfl, hp, hfi, rfl, hexp⟩
    · have : f.exported = false := by cases h : f.exported <;> simp_all
      simp only [this, Bool.not_false, if_true]
      exact ih (i + 1) c hrest hc

theorem sound_build (root : List F) :
    ∀ (fuel : Nat) (fs : List F) (parent : List Nat) (c : Cache),
      subAt root parent = some fs → Sound root c → Sound root (build fuel fs parent c) := by
  intro fuel
  induction fuel with
  | zero => intro fs parent c _ hc; exact hc
  | succ n ih =>
    intro fs parent c hp hc
    unfold build
    exact sound_loop root (build n) ih fs parent hp fs 0 c rfl hc

/-- **No struct access yields a field other than one of that name.**  For every struct type —
    any fields, any nesting of embedded structs, any name clashes — every entry `name ↦ path` of
    the table `buildCache` produces leads, through exported embedded structs only, to an exported
    field called `name`. -/
theorem buildCache_sound (root : List F) : Sound root (buildCache root) :=
  sound_build root 64 root [] [] rfl (sound_nil root)

/-- entries only ever get shorter: an update never replaces a path by a longer or equally long one -/
theorem put_length (name : Bytes) (index : List Nat) (c : Cache) (k : Bytes) (old : List Nat)
    (h : alookup k c = some old) :
    ∃ new, alookup k (put name index c) = some new ∧ new.length ≤ old.length := by
  unfold put
  by_cases hk : name = k
  · subst hk
    rw [h]
    simp only
    split
    · rename_i hlt
      exact ⟨index, by rw [alookup_aset]; simp, Nat.le_of_lt hlt⟩
    · exact ⟨old, h, Nat.le_refl _⟩
  · cases hn : alookup name c with
    | none => simp only; exact ⟨old, by rw [alookup_aset]; simp [hk, h], Nat.le_refl _⟩
    | some o =>
      simp only
      split
      · exact ⟨old, by rw [alookup_aset]; simp [hk, h], Nat.le_refl _⟩
      · exact ⟨old, h, Nat.le_refl _⟩

/-- a direct field put at depth 1 stays: nothing is shorter than a one-step path -/
theorem put_keeps_direct (name : Bytes) (index : List Nat) (c : Cache) (k : Bytes) (i : Nat)
    (h : alookup k c = some [i]) (hidx : index ≠ []) :
    alookup k (put name index c) = some [i] := by
  unfold put
  by_cases hk : name = k
  · subst hk
    rw [h]
    simp only
    have : ¬ index.length < [i].length := by
      cases index with
      | nil => exact absurd rfl hidx
      | cons a t => simp
    rw [if_neg this]
    exact h
  · cases hn : alookup name c with
    | none => simp only; rw [alookup_aset]; simp [hk, h]
    | some o =>
      simp only
      split
      · rw [alookup_aset]; simp [hk, h]
      · exact h

theorem keep_loop (descend : List F → List Nat → Cache → Cache) (k : Bytes) (i0 : Nat)
    (hd : ∀ fs parent c, alookup k c = some [i0] → alookup k (descend fs parent c) = some [i0])
    (parent : List Nat) :
    ∀ (rest : List F) (i : Nat) (c : Cache), alookup k c = some [i0] →
      alookup k (loop descend parent i rest c) = some [i0] := by
  intro rest
  induction rest with
  | nil => intro i c h; exact h
  | cons f rest ih =>
    intro i c h
    unfold loop
    by_cases hexp : f.exported = true
    · simp only [hexp, Bool.not_true, Bool.false_eq_true, if_false]
      apply ih
      apply put_keeps_direct _ _ _ _ _ _ (by simp)
      split
      · exact hd _ _ _ h
      · exact h
    · have : f.exported = false := by cases h' : f.exported <;> simp_all
      simp only [this, Bool.not_false, if_true]
      exact ih _ _ h

theorem keep_build (k : Bytes) (i0 : Nat) :
    ∀ (fuel : Nat) (fs : List F) (parent : List Nat) (c : Cache), alookup k c = some [i0] →
      alookup k (build fuel fs parent c) = some [i0] := by
  intro fuel
  induction fuel with
  | zero => intro fs parent c h; exact h
  | succ n ih => intro fs parent c h; unfold build; exact keep_loop (build n) k i0 ih parent fs 0 c h

/-- entries for `k` are absent or at least two steps long -/
def Deep (k : Bytes) (c : Cache) : Prop := ∀ p, alookup k c = some p → 2 ≤ p.length

theorem deep_put (k name : Bytes) (index : List Nat) (c : Cache) (hc : Deep k c)
    (h : name ≠ k ∨ 2 ≤ index.length) : Deep k (put name index c) := by
  intro p hp
  unfold put at hp
  by_cases hk : name = k
  · subst hk
    have hl : 2 ≤ index.length := h.resolve_left (fun f => f rfl)
    split at hp
    · split at hp
      · rw [alookup_aset] at hp; simp at hp; subst hp; exact hl
      · exact hc p hp
    · rw [alookup_aset] at hp; simp at hp; subst hp; exact hl
  · split at hp
    · split at hp
      · rw [alookup_aset] at hp; simp [hk] at hp; exact hc p hp
      · exact hc p hp
    · rw [alookup_aset] at hp; simp [hk] at hp; exact hc p hp

theorem deep_loop_nested (descend : List F → List Nat → Cache → Cache) (k : Bytes)
    (hd : ∀ fs parent c, parent ≠ [] → Deep k c → Deep k (descend fs parent c))
    (parent : List Nat) (hne : parent ≠ []) :
    ∀ (rest : List F) (i : Nat) (c : Cache), Deep k c → Deep k (loop descend parent i rest c) := by
  intro rest
  induction rest with
  | nil => intro i c h; exact h
  | cons f rest ih =>
    intro i c h
    unfold loop
    have hlen : 2 ≤ (parent ++ [i]).length := by
      cases parent with
      | nil => exact absurd rfl hne
      | cons a t => simp
    by_cases hexp : f.exported = true
    · simp only [hexp, Bool.not_true, Bool.false_eq_true, if_false]
      apply ih
      apply deep_put _ _ _ _ _ (Or.inr hlen)
      split
      · exact hd _ _ _ (by simp) h
      · exact h
    · have : f.exported = false := by cases h' : f.exported <;> simp_all
      simp only [this, Bool.not_false, if_true]
      exact ih _ _ h

theorem deep_build_nested (k : Bytes) :
    ∀ (fuel : Nat) (fs : List F) (parent : List Nat) (c : Cache), parent ≠ [] → Deep k c →
      Deep k (build fuel fs parent c) := by
  intro fuel
  induction fuel with
  | zero => intro fs parent c _ h; exact h
  | succ n ih =>
    intro fs parent c hne h
    unfold build
    exact deep_loop_nested (build n) k ih parent hne fs 0 c h

/-- the top-level loop: as long as no exported direct field called `k` has been seen, entries for
    `k` are deep; once the first one (index `i0`) is seen its entry is `[i0]` and stays -/
theorem direct_loop (n : Nat) (k : Bytes) :
    ∀ (rest : List F) (i : Nat) (c : Cache), Deep k c →
      (∀ (j : Nat) (f : F), rest[j]? = some f → f.exported = true → f.name = k → False) →
      Deep k (loop (build n) [] i rest c) := by
  intro rest
  induction rest with
  | nil => intro i c h _; exact h
  | cons f rest ih =>
    intro i c h hno
    unfold loop
    by_cases hexp : f.exported = true
    · simp only [hexp, Bool.not_true, Bool.false_eq_true, if_false]
      apply ih
      · apply deep_put
        · split
          · exact deep_build_nested k n _ _ _ (by simp) h
          · exact h
        · left; intro e; exact hno 0 f rfl hexp e
      · intro j g hg; exact hno (j + 1) g (by simp [hg])
    · have : f.exported = false := by cases h' : f.exported <;> simp_all
      simp only [this, Bool.not_false, if_true]
      exact ih _ _ h (fun j g hg => hno (j + 1) g (by simp [hg]))

theorem direct_loop_found (n : Nat) (k : Bytes) :
    ∀ (rest : List F) (i : Nat) (c : Cache) (j : Nat) (f : F), Deep k c →
      rest[j]? = some f → f.exported = true → f.name = k →
      (∀ (j' : Nat) (g : F), j' < j → rest[j']? = some g → g.exported = true → g.name = k → False) →
      alookup k (loop (build n) [] i rest c) = some [i + j] := by
  intro rest
  induction rest with
  | nil => intro i c j f _ hf; simp at hf
  | cons g rest ih =>
    intro i c j f hdeep hf hexp hname hfirst
    cases j with
    | zero =>
      simp at hf; subst hf
      unfold loop
      simp only [hexp, Bool.not_true, Bool.false_eq_true, if_false, List.nil_append, Nat.add_zero]
      apply keep_loop (build n) k i (keep_build k i n)
      -- the put of the direct field itself
      have hd1 : Deep k (if (g.anonymous && g.isStruct) = true then build n g.sub [i] c else c) := by
        split
        · exact deep_build_nested k n _ _ _ (by simp) hdeep
        · exact hdeep
      rw [← hname]
      unfold put
      cases hl : alookup g.name (if (g.anonymous && g.isStruct) = true then build n g.sub [i] c else c) with
      | none => simp only; rw [alookup_aset]; simp
      | some old =>
        have : 2 ≤ old.length := hd1 old (hname ▸ hl)
        have hlt : [i].length < old.length := by simp; omega
        simp only [hlt, if_true]; rw [alookup_aset]; simp
    | succ j =>
      simp at hf
      unfold loop
      have hstep : ∀ c', Deep k c' → alookup k (loop (build n) [] (i + 1) rest c') = some [i + (j + 1)] := by
        intro c' hc'
        have := ih (i + 1) c' j f hc' hf hexp hname
          (fun j' g' hj' hg' => hfirst (j' + 1) g' (by omega) (by simp [hg']))
        rw [this]; congr 2; omega
      by_cases hgexp : g.exported = true
      · simp only [hgexp, Bool.not_true, Bool.false_eq_true, if_false]
        apply hstep
        apply deep_put
        · split
          · exact deep_build_nested k n _ _ _ (by simp) hdeep
          · exact hdeep
        · left; intro e; exact hfirst 0 g (by omega) rfl hgexp e
      · have : g.exported = false := by cases h' : g.exported <;> simp_all
        simp only [this, Bool.not_false, if_true]
        exact hstep c hdeep

/-- **A struct's own field is never hidden by a promoted one.**  If the struct itself has an
    exported field called `k`, `a.k` resolves to the first such field — whatever embedded structs
    (before or after it, at any depth) also have a field of that name. -/
theorem direct_field_wins (root : List F) (k : Bytes) (j : Nat) (f : F)
    (hf : root[j]? = some f) (hexp : f.exported = true) (hname : f.name = k)
    (hfirst : ∀ (j' : Nat) (g : F), j' < j → root[j']? = some g → g.exported = true → g.name = k → False) :
    alookup k (buildCache root) = some [j] := by
  have := direct_loop_found 63 k root 0 [] j f (by intro p hp; simp [alookup] at hp) hf hexp hname hfirst
  simpa [buildCache, build] using this

/-! ### indexing (Model/Eval.lean `resolveIndex`, `indexArg`) -/

/-- **indexing a map with an absent key yields nil** (an invalid value), never an error and never
    another entry's value -/
theorem map_absent_key_is_nil (es : List (Bytes × Val)) (ifc nl : Bool) (k : Bytes)
    (h : alookup k es = none) :
    resolveIndex (.smap es ifc nl) (.str k) none = .ok .invalid := by
  simp [resolveIndex, Val.isValid, indirectA, h]
  rfl

/-- **a map entry is returned as stored** (through `indirectEface` when the element type is an
    interface) -/
theorem map_present_key (es : List (Bytes × Val)) (ifc nl : Bool) (k : Bytes) (v : Val)
    (h : alookup k es = some v) :
    resolveIndex (.smap es ifc nl) (.str k) none = .ok (elemOut ifc v) := by
  simp [resolveIndex, Val.isValid, indirectA, h]
  rfl

/-- **`a.b` agrees with `a["b"]` on maps**: the field form passes the name as `indexAsStr`, the
    index form passes a string value -/
theorem map_field_eq_index (es : List (Bytes × Val)) (ifc nl : Bool) (k : Bytes) :
    resolveIndex (.smap es ifc nl) .invalid (some k) = resolveIndex (.smap es ifc nl) (.str k) none := by
  simp [resolveIndex, Val.isValid, indirectA]

/-- **`a.b` agrees with `a["b"]` on structs** -/
theorem struct_field_eq_index (tn : String) (fs : List (Bytes × Val)) (k : Bytes) :
    resolveIndex (.struct tn fs) .invalid (some k) = resolveIndex (.struct tn fs) (.str k) none := by
  simp [resolveIndex, Val.isValid, indirectA]

/-- **a missing (or unexported) struct field is an error** -/
theorem struct_missing_field_is_error (tn : String) (fs : List (Bytes × Val)) (k : Bytes)
    (h : alookup k fs = none) (hm : methodByName tn false k = none) :
    ∃ e, resolveIndex (.struct tn fs) (.str k) none = .error (.err e) := by
  simp [resolveIndex, Val.isValid, indirectA, h, hm, errPlain, throwErr, Fails.failWith]

/-- **a method of that name wins over a field**, and is bound to the value it was selected on;
    reached through a pointer the value is addressable, so pointer-receiver methods are in the set -/
theorem method_wins_over_field (tn : String) (fs : List (Bytes × Val)) (k : Bytes) (m : String)
    (hm : methodByName tn false k = some m) :
    resolveIndex (.struct tn fs) (.str k) none = .ok (.method m (.struct tn fs)) := by
  simp [resolveIndex, Val.isValid, indirectA, hm]
  rfl

theorem method_through_pointer (tn pn : String) (fs : List (Bytes × Val)) (k : Bytes) (m : String)
    (hm : methodByName tn true k = some m) :
    resolveIndex (.ptr pn (some (.struct tn fs))) (.str k) none = .ok (.method m (.struct tn fs)) := by
  simp [resolveIndex, Val.isValid, indirectA, hm]
  rfl

/-- **a pointer-receiver method is not in the method set of a non-addressable value** (the harness
    type `T3`: `PTag` has a pointer receiver, `Tag` a value receiver) -/
theorem pointer_method_needs_addressable :
    methodByName "T3" false [80, 84, 97, 103] = none ∧
    methodByName "T3" true [80, 84, 97, 103] = some "PTag" ∧
    methodByName "T3" false [84, 97, 103] = some "Tag" := by
  decide

/-- **an out-of-range or negative index is an error, an in-range one selects that element** -/
theorem indexArg_in_range (i : Int) (cap : Nat) :
    (0 ≤ i ∧ i < cap → indexArg (.int i) cap = .ok i.toNat) ∧
    (¬ (0 ≤ i ∧ i < cap) → ∃ e, indexArg (.int i) cap = .error (.err e)) := by
  constructor
  · intro ⟨h0, h1⟩
    unfold indexArg
    have : ¬ (i < 0 ∨ i ≥ cap) := by omega
    simp [this]
    rfl
  · intro h
    unfold indexArg
    have : (i < 0 ∨ i ≥ cap) := by omega
    simp [this, errPlain, throwErr, Fails.failWith]

/-- **a slice element is returned as stored** -/
theorem slice_index (es : List Val) (ifc nl : Bool) (i : Nat) (e : Val) (h : es[i]? = some e) :
    resolveIndex (.slice es ifc nl) (.int i) none = .ok (elemOut ifc e) := by
  have hi : i < es.length := by
    rcases Nat.lt_or_ge i es.length with h' | h'
    · exact h'
    · rw [List.getElem?_eq_none h'] at h; cases h
  have ha : indexArg (.int i) es.length = .ok i := by
    have := (indexArg_in_range (i : Int) es.length).1 ⟨by omega, by exact_mod_cast hi⟩
    simpa using this
  simp only [resolveIndex, Val.isValid, indirectA, ha]
  simp [bind, Except.bind, h]
  rfl

/-- **nil dereferences are errors** -/
theorem nil_pointer_is_error (tn : String) (idx : Val) (s : Option Bytes) :
    ∃ e, resolveIndex (.ptr tn none) idx s = .error (.err e) := by
  simp [resolveIndex, Val.isValid, indirectA, errPlain, throwErr, Fails.failWith]

end JetVerif.Props.C06
