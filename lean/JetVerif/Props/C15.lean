/-
  C15 — Template names are canonicalised: loaders only ever see clean absolute paths.

  Property theorems only (helper lemmas live in JetVerif/Lemmas/Path.lean).
  Model: JetVerif/Model/Path.lean (`resolveSibling` = set.go getSiblingTemplate's path
  computation, `parseName` = Set.Parse's, `normalize` = InMemLoader.normalize).
-/
import JetVerif.Lemmas.Path

namespace JetVerif.Props.C15
open JetVerif.Path

/-- `path.Clean` of an absolute path is canonical: absolute, single slashes, no empty, `.`
    or `..` segment. -/
theorem clean_abs_is_canonical (p : Bytes) (h : isAbs p = true) : IsCanon (clean p) :=
  clean_abs_canon p h

/-- a canonical path is a fixed point of `path.Clean` (so cleaning is idempotent) -/
theorem canonical_is_fixed_point (p : Bytes) (h : IsCanon p) : clean p = p :=
  clean_of_canon h

/-- Every name, however spelt, referred to from a template whose own name is absolute,
    resolves to a canonical path (extends / import / include: `sibling` is the referring
    template's name; GetTemplate / exec / includeIfExists: `sibling = "/"`). -/
theorem resolve_is_canonical (name sibling : Bytes) (hs : isAbs sibling = true) :
    IsCanon (resolveSibling name sibling) := by
  unfold resolveSibling
  split
  · rename_i h; exact clean_abs_canon name h
  · exact join_abs_canon _ _ (dir_abs_canon sibling hs).isAbs

/-- A name that is already canonical is requested under exactly that path, whatever the
    referring template: the same template is always requested under the same path. -/
theorem canonical_name_resolves_to_itself (name sibling : Bytes) (h : IsCanon name) :
    resolveSibling name sibling = name := by
  unfold resolveSibling
  simp [h.isAbs, clean_of_canon h]

/-- Resolution is idempotent: resolving an already resolved name changes nothing. -/
theorem resolve_idempotent (name s₁ s₂ : Bytes) (h₁ : isAbs s₁ = true) :
    resolveSibling (resolveSibling name s₁) s₂ = resolveSibling name s₁ :=
  canonical_name_resolves_to_itself _ _ (resolve_is_canonical name s₁ h₁)

/-- `Set.Parse` names its template canonically (or rejects the name). -/
theorem parse_name_is_canonical (name p : Bytes) (h : parseName name = some p) : IsCanon p := by
  unfold parseName at h
  simp only at h
  split at h
  · cases h
  · cases h; exact join_root_canon name

/-- `InMemLoader.normalize` maps every spelling to a canonical key. -/
theorem normalize_is_canonical (p : Bytes) : IsCanon (normalize p) := join_root_canon p

/-- No spelling resolves above the root: a canonical path has no `..` (nor `.` nor empty)
    segment after its leading slash. -/
theorem canonical_has_no_dotdot (p : Bytes) (h : IsCanon p) :
    ∃ segs, p = renderAbs segs ∧ ∀ s ∈ segs, s ≠ dotdotSeg ∧ s ≠ dotSeg ∧ s ≠ [] ∧ slash ∉ s := by
  obtain ⟨segs, hg, rfl⟩ := h
  exact ⟨segs, rfl, fun s hs => ⟨(hg s hs).2.2.1, (hg s hs).2.1, (hg s hs).1, (hg s hs).2.2.2⟩⟩

/-! Non-vacuity: concrete spellings (the inputs of defect D28) -/
def c (l : List Char) : Bytes := l.map (fun ch => ch.toNat.toUInt8)

-- "/a/../../x.jet" from "/"  ↦  "/x.jet"
example : resolveSibling (c ['/', 'a', '/', '.', '.', '/', '.', '.', '/', 'x', '.', 'j', 'e', 't']) (c ['/']) = (c ['/', 'x', '.', 'j', 'e', 't']) := by decide
-- "../../../etc/hostname" from "/sub/t.jet"  ↦  "/etc/hostname"
example : resolveSibling (c ['.', '.', '/', '.', '.', '/', '.', '.', '/', 'e', 't', 'c', '/', 'h', 'o', 's', 't', 'n', 'a', 'm', 'e']) (c ['/', 's', 'u', 'b', '/', 't', '.', 'j', 'e', 't']) = (c ['/', 'e', 't', 'c', '/', 'h', 'o', 's', 't', 'n', 'a', 'm', 'e']) := by decide
-- "./b//c/" from "/a/t.jet"  ↦  "/a/b/c"
example : resolveSibling (c ['.', '/', 'b', '/', '/', 'c', '/']) (c ['/', 'a', '/', 't', '.', 'j', 'e', 't']) = (c ['/', 'a', '/', 'b', '/', 'c']) := by decide
example : parseName (c ['a', '/', '.']) = none := by decide
example : parseName (c ['x', '/', '.', '.', '/', '.', '.']) = some (c ['/']) := by decide
example : isAbs (c ['/', 's', 'u', 'b', '/', 't', '.', 'j', 'e', 't']) = true := by decide

end JetVerif.Props.C15
