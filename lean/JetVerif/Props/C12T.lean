/-
  C12 (totality part) — when evaluation fails for a reason the engine can detect itself, `Execute`
  returns an error instead of panicking: from a syntax tree with the shapes the parser produces
  (`TmplWf`, `EnvWf`; Lemmas/EvalTotal.lean), whatever the variables and the data, the ONLY panic
  `Template.Execute` re-raises is one raised by a called Go function (`strings.Repeat` with a
  negative count, reachable as `{{ repeat("x", -1) }}`: by design).

  Two developments compose here: Lemmas/EvalTotal.lean (`Tot`: every crash site that is not a
  scope primitive's or a callee's is unreachable from well-formed syntax) and
  Lemmas/EvalScope.lean (`Scoped`: the scope primitives' sites are unreachable from a well-formed
  runtime).  See the classification table at the top of Lemmas/EvalTotal.lean.
-/
import JetVerif.Lemmas.EvalTotal
import JetVerif.Props.C12S

namespace JetVerif.Props.C12T
open JetVerif JetVerif.Eval

/-- statement lists, from any runtime whose scope chain is well-formed (`SWF`) and whose block
    tables / content closures hold well-formed syntax (`RWF`): a crash is a callee panic, and the
    runtime left behind satisfies both invariants again on every outcome -/
theorem only_callee_panics (fuel : Nat) (env : Env) (he : EnvWf env) (l : List Stmt) (hl : StmtsWf l)
    (rt : RT) (h : SWF rt) (hw : RWF rt) :
    match (recAt fuel).execList env l rt with
    | .ok _ rt' => SWF rt' ∧ RWF rt'
    | .err _ rt' => SWF rt' ∧ RWF rt'
    | .crash msg rt' => CalleePanic msg ∧ SWF rt' ∧ RWF rt'
    | _ => True := by
  have hs := ((recScoped_recAt fuel).execList env l).post rt h
  have ht := ((recTot_recAt he fuel).execList l hl).post rt hw
  cases hr : (recAt fuel).execList env l rt with
  | ok v rt' => rw [hr] at hs ht; exact ⟨hs.1.swf, ht.1⟩
  | err e rt' => rw [hr] at hs ht; exact ⟨hs.swf, ht⟩
  | crash m rt' =>
    rw [hr] at hs ht
    refine ⟨?_, hs.2.swf, ht.2⟩
    rcases ht.1 with hc | hsm
    · exact hc
    · exact absurd hsm hs.1
  | fuel => trivial
  | unsupported w => trivial

/-- the runtime `Template.Execute` starts from holds well-formed syntax -/
theorem initRT_rwf (t : Tmpl) (ht : TmplWf t) (vars : List (Bytes × Val)) (data : Val) :
    RWF (initRT t vars data) := by
  refine ⟨?_, ?_⟩
  · intro f hf
    simp [initRT] at hf
    rw [hf]
    exact ht.blocks
  · intro c hc; simp [initRT] at hc

/-- **The only panic Execute re-raises is one raised by a called Go function.** -/
theorem execute_only_repanics_callee_panics (fuel : Nat) (env : Env) (t : Tmpl) (vars : List (Bytes × Val))
    (data : Val) (ht : TmplWf t) (he : EnvWf env) (msg : String) (out : List Chunk) :
    execute fuel env t vars data = .crash msg out → CalleePanic msg := by
  unfold execute
  cases hroot : rootOf env 64 t with
  | none => intro h; cases h
  | some root =>
    have hrw := (rootOf_wf he _ _ _ ht hroot).root
    have hp := only_callee_panics fuel env he root.root hrw _ (C12S.initRT_swf t vars data)
      (initRT_rwf t ht vars data)
    dsimp only
    cases hr : (recAt fuel).execList env root.root (initRT t vars data) with
    | ok v rt' => intro h; cases h
    | err e rt' => intro h; cases h
    | crash m rt' =>
      rw [hr] at hp
      intro h
      cases h
      exact hp.1
    | fuel => intro h; cases h
    | unsupported w => intro h; cases h

/-! ### the hypotheses matter, the callee panic is real, and the predicates are not empty -/

/-- the callee panic is reachable: `{{ repeat("x", -1) }}` (well-formed) re-panics -/
def repeatTmpl : Tmpl :=
  { name := [], ext := none, imports := [], blocks := [],
    root := [.action ⟨[], 1⟩ none (some ⟨⟨[], 1⟩,
      [{ loc := ⟨[], 1⟩, base := .call ⟨[], 1⟩ (.ident ⟨[], 1⟩ [114, 101, 112, 101, 97, 116])
            [.strLit ⟨[], 1⟩ [120], .numLit ⟨[], 1⟩ true false false (-1) 0 0] true false,
         args := [], argsNonNil := false, hasSlot := false }]⟩)] }

theorem repeatTmpl_wf : TmplWf repeatTmpl := by
  refine ⟨fun p hp => by simp [repeatTmpl] at hp, ?_⟩
  simp [repeatTmpl, StmtsWf, StmtWf, SetOWf, PipeOWf, PipeWf]
  exact ⟨by simp [ExprWf, ExprsWf, SlotOk, isUnderscore], by simp [ExprsWf], fun _ => by simp [SlotOk]⟩

/-- without well-formedness the evaluator does panic: a pipeline without commands -/
theorem empty_pipeline_panics (r : Rec) (env : Env) (rt : RT) :
    evalPipeline r env ⟨⟨[], 1⟩, []⟩ rt = .crash "index out of range [0] with length 0" rt := rfl

/-- ... a `:=` whose left side is a field -/
theorem let_of_field_panics (r : Rec) (env : Env) (rt : RT) (v : Val) :
    assignOne r env true (.field ⟨[], 1⟩ [[120]]) v rt =
      .crash "interface conversion: not *IdentifierNode" rt := rfl

/-- ... a yield that is not `yield content` without parameter list, when the block exists -/
theorem yield_without_params_panics (r : Rec) (env : Env) (b : BlockN) :
    execYield r env ⟨[], 1⟩ [98] none none none false
        { frames := [{ vars := some [], blocks := [([98], b)] }], scope := [0] } =
      .crash "nil pointer dereference (yield without parameter list)"
        { frames := [{ vars := some [], blocks := [([98], b)] }], scope := [0] } := rfl

/-- non-vacuity: a concrete well-formed template with an assignment, a range, a yield and a piped
    call:
    `{{ x := 1 }}{{ range i, v := .Items }}{{ v | f(_, 2) | g }}{{ end }}{{ yield b(p=x) }}` -/
def demoTmpl : Tmpl :=
  let l : Loc := ⟨[], 1⟩
  { name := [], ext := none, imports := [],
    blocks := [([98], { loc := l, name := [98], params := [⟨[112], some (.numLit l true false false 0 0 0)⟩],
                        ctx := none, body := [.text l [104, 105]], content := none })],
    root := [
      .action l (some { loc := l, isLet := true, lookup := false, left := [.ident l [120]],
                        right := [.numLit l true false false 1 0 0] }) none,
      .rangeS l (some { loc := l, isLet := true, lookup := false, left := [.ident l [105], .ident l [118]],
                        right := [.field l [[73, 116, 101, 109, 115]]] }) none
        [.action l none (some ⟨l,
          [{ loc := l, base := .ident l [118], args := [], argsNonNil := false, hasSlot := false },
           { loc := l, base := .ident l [102], args := [.underscore l, .numLit l true false false 2 0 0],
             argsNonNil := true, hasSlot := true },
           { loc := l, base := .ident l [103], args := [], argsNonNil := false, hasSlot := false }]⟩)]
        none,
      .yield l [98] (some [⟨[112], some (.ident l [120])⟩]) none none false] }

example : TmplWf demoTmpl := by
  refine ⟨?_, ?_⟩
  · intro p hp
    simp [demoTmpl] at hp
    subst hp
    exact ⟨by intro q hq; simp at hq; subst hq; simp [ExprOWf, ExprWf], by simp [ExprOWf],
      by simp [StmtsWf, StmtWf], by simp [StmtsOWf]⟩
  · simp only [demoTmpl, StmtsWf, StmtWf, SetOWf, PipeOWf, StmtsOWf, RangeHeadWf, ParamsOWf, ExprOWf]
    refine ⟨⟨⟨?_, ?_, ?_, ?_⟩, trivial⟩, ⟨⟨?_, ?_, ?_⟩, ⟨⟨trivial, ?_⟩, trivial⟩, trivial⟩,
      ⟨fun _ => rfl, ?_, trivial, trivial⟩, trivial⟩
    · simp [ExprsWf, ExprWf]
    · intro l hl; simp at hl; subst hl; simp [LeftOk]
    · intro h; cases h
    · intro _; simp
    · simp
    · intro l hl; exact Or.inl rfl
    · exact ⟨_, _, rfl, by simp [ExprWf]⟩
    · simp only [PipeWf]
      refine ⟨⟨by simp [ExprWf], by simp [ExprsWf], fun _ => by simp [SlotOk]⟩, ?_⟩
      intro c hc
      simp at hc
      rcases hc with rfl | rfl
      · exact ⟨by simp [ExprWf], by simp [ExprsWf, ExprWf], fun h => by cases h⟩
      · exact ⟨by simp [ExprWf], by simp [ExprsWf], fun h => by cases h⟩
    · intro q hq; simp at hq; subst hq; simp [ExprOWf, ExprWf]

example : CalleePanic "strings: negative Repeat count" := rfl
example : ¬ CalleePanic "index out of range" := by decide

end JetVerif.Props.C12T
