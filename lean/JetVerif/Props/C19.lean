/-
  C19 — Bundled loaders honour the Loader contract and their path semantics.
-/
import JetVerif.Model.Loaders
import JetVerif.Lemmas.Path

namespace JetVerif.Props.C19
open JetVerif.Loaders JetVerif.Path

theorem alookup_filter_ne (k k' : Bytes) (l : List (Bytes × Bytes)) (h : k ≠ k') :
    alookup k (removeKey k' l) = alookup k l := by
  induction l with
  | nil => rfl
  | cons e es ih =>
    obtain ⟨ek, ev⟩ := e
    by_cases hk : ek = k'
    · subst hk
      have : ¬ (ek = k) := fun h2 => h h2.symm
      simp [removeKey, alookup, this, ih]
    · simp [removeKey, hk, alookup, ih]

theorem alookup_filter_eq (k : Bytes) (l : List (Bytes × Bytes)) :
    alookup k (removeKey k l) = none := by
  induction l with
  | nil => rfl
  | cons e es ih =>
    obtain ⟨ek, ev⟩ := e
    by_cases hk : ek = k
    · simp [removeKey, hk, ih]
    · simp [removeKey, hk, alookup, ih]

/-- **Exists ⇒ Open** for the in-memory loader, in every reachable state -/
theorem inmem_lawful (l : InMem) : l.toLoader.Lawful := by
  intro p h
  exact h

/-- **Open yields exactly what was stored**: after `Set(p, c)`, any spelling `q` that normalises
    to the same clean absolute path opens `c` and exists -/
theorem inmem_set_then_open (l : InMem) (p q c : Bytes) (h : normalize q = normalize p) :
    (l.set p c).open_ q = some c ∧ (l.set p c).exists_ q = true := by
  simp [InMem.set, InMem.open_, InMem.exists_, h, alookup]

/-- a `Set` under one path does not disturb entries under a different normal form -/
theorem inmem_set_other (l : InMem) (p q c : Bytes) (h : normalize q ≠ normalize p) :
    (l.set p c).open_ q = l.open_ q := by
  have h' : ¬ (normalize p = normalize q) := fun e => h e.symm
  simp [InMem.set, InMem.open_, alookup, h', alookup_filter_ne _ _ _ h]

/-- **Delete removes the entry under every spelling** of the same normal form, and only that one -/
theorem inmem_delete (l : InMem) (p q : Bytes) (h : normalize q = normalize p) :
    (l.delete p).exists_ q = false ∧ (l.delete p).open_ q = none := by
  simp [InMem.delete, InMem.exists_, InMem.open_, h, alookup_filter_eq]

theorem inmem_delete_other (l : InMem) (p q : Bytes) (h : normalize q ≠ normalize p) :
    (l.delete p).open_ q = l.open_ q := by
  simp [InMem.delete, InMem.open_, alookup_filter_ne _ _ _ h]

/-- **all spellings with one normal form are one entry**, across any history of Set/Delete -/
theorem inmem_spelling_independent (ops : List Op) (p q : Bytes) (h : normalize p = normalize q) :
    (InMem.run ops).exists_ p = (InMem.run ops).exists_ q ∧ (InMem.run ops).open_ p = (InMem.run ops).open_ q := by
  simp [InMem.exists_, InMem.open_, h]

/-- the keys of the in-memory loader are canonical paths (C15) -/
theorem inmem_keys_canonical (p : Bytes) : IsCanon (normalize p) := join_root_canon p

/-- **Multi answers from the first loader that has the path**: if loaders before `l` do not open
    `p` and `l` does, `Multi.Open(p)` is `l.Open(p)` -/
theorem multi_first_wins (pre post : List Loader) (l : Loader) (p : Bytes)
    (hpre : ∀ x ∈ pre, x.open_ p = none) (hl : (l.open_ p).isSome = true) :
    multiOpen (pre ++ l :: post) p = l.open_ p := by
  unfold multiOpen
  induction pre with
  | nil =>
    cases ho : l.open_ p with
    | none => simp [ho] at hl
    | some c => simp [List.findSome?, ho]
  | cons x xs ih =>
    have hx : x.open_ p = none := hpre x (by simp)
    simp only [List.cons_append, List.findSome?, hx]
    exact ih (fun y hy => hpre y (by simp [hy]))

/-- **Multi keeps the contract**: if every stacked loader is lawful, so is the stack -/
theorem multi_lawful (ls : List Loader) (h : ∀ l ∈ ls, l.Lawful) : (multi ls).Lawful := by
  intro p hp
  simp only [multi, multiExists, List.any_eq_true] at hp
  obtain ⟨l, hl, he⟩ := hp
  have ho := h l hl p he
  show (multiOpen ls p).isSome = true
  unfold multiOpen
  induction ls with
  | nil => simp at hl
  | cons x xs ih =>
    simp only [List.findSome?]
    cases hx : x.open_ p with
    | some c => simp
    | none =>
      simp only
      rcases List.mem_cons.mp hl with rfl | hmem
      · simp [hx] at ho
      · exact ih (fun y hy => h y (by simp [hy])) hmem

/-- `Multi.Exists(p)` iff some stacked loader has `p` -/
theorem multi_exists_iff (ls : List Loader) (p : Bytes) :
    multiExists ls p = true ↔ ∃ l ∈ ls, l.exists_ p = true := by
  simp [multiExists, List.any_eq_true]

/-- a directory-rooted loader reports exactly the regular files of its tree and opens their bytes -/
theorem fs_lawful (files : List (Bytes × Bytes)) : (fsLoader files).Lawful := by
  intro p h; exact h

theorem fs_exists_iff_file (files : List (Bytes × Bytes)) (p : Bytes) :
    (fsLoader files).exists_ p = true ↔ ∃ c, (fsLoader files).open_ p = some c := by
  simp [fsLoader, Option.isSome_iff_exists]

end JetVerif.Props.C19
