/-
  C08 — extends renders the root layout; blocks resolve to the most-derived definition.
  Model: JetVerif/Model/Blocks.lean (table construction), `Eval.execute` / `initRT` / `rootOf`
  (which table and which body an execution uses), `getBlockChain` (lookup).
-/
import JetVerif.Model.Blocks
import JetVerif.Lemmas.EvalGood

namespace JetVerif.Props.C08
open JetVerif JetVerif.Eval JetVerif.Blocks

variable {β : Type}

theorem alookup_aset (k k' : Bytes) (v : β) (t : Table β) :
    alookup k (aset k' v t) = if k' = k then some v else alookup k t := by
  induction t with
  | nil => simp [aset, alookup]
  | cons hd tl ih =>
    obtain ⟨a, w⟩ := hd
    unfold aset
    by_cases h : a = k'
    · subst h
      by_cases hk : a = k <;> simp [alookup, hk]
    · simp only [h, if_false]
      by_cases hk : a = k
      · subst hk
        have : ¬ k' = a := fun e => h e.symm
        simp [alookup, this]
      · simp [alookup, hk, ih]

/-- writing a table into another: a name resolves to the source's last entry for it, else to what
    the destination had -/
theorem alookup_addAll (k : Bytes) (src : Table β) :
    ∀ t : Table β, alookup k (addAll t src) = (lookupLast k src).or (alookup k t) := by
  induction src with
  | nil => intro t; simp [addAll, lookupLast]
  | cons hd tl ih =>
    intro t
    obtain ⟨a, w⟩ := hd
    have := ih (aset a w t)
    simp only [addAll, List.foldl_cons] at this ⊢
    rw [this, alookup_aset]
    simp only [lookupLast]
    cases lookupLast k tl with
    | some x => simp
    | none => by_cases h : a = k <;> simp [h]

/-- the latest import (in import order) whose table has an entry for `k` -/
def fromImports (k : Bytes) : List (Table β) → Option β
  | [] => none
  | i :: rest =>
    match fromImports k rest with
    | some v => some v
    | none => lookupLast k i

theorem alookup_foldl_addAll (k : Bytes) (imports : List (Table β)) :
    ∀ base : Table β, alookup k (imports.foldl addAll base) = (fromImports k imports).or (alookup k base) := by
  induction imports with
  | nil => intro base; simp [fromImports]
  | cons i rest ih =>
    intro base
    have h1 := ih (addAll base i)
    simp only [List.foldl_cons]
    rw [h1, alookup_addAll]
    simp only [fromImports]
    cases fromImports k rest with
    | some v => simp
    | none => simp

/-- **Block precedence.**  In the effective block table of a template, a name resolves to the
    template's own (last registered) definition if it has one; otherwise to the definition in the
    latest import whose table has one; otherwise to what the extended template's table says — for
    every extends table, every list of imports and every own definition list. -/
theorem precedence (k : Bytes) (ext : Table β) (imports : List (Table β)) (own : Table β) :
    alookup k (processed ext imports own) =
      ((lookupLast k own).or (fromImports k imports)).or (alookup k ext) := by
  unfold processed
  rw [alookup_addAll, alookup_foldl_addAll k imports]
  cases lookupLast k own <;> simp

/-! every table the parser builds has one entry per name, so "last entry" and "the entry" coincide -/

def keys (t : Table β) : List Bytes := t.map Prod.fst

theorem alookup_none_of_not_mem (k : Bytes) (t : Table β) (h : k ∉ keys t) : alookup k t = none := by
  induction t with
  | nil => rfl
  | cons hd tl ih =>
    obtain ⟨a, w⟩ := hd
    have ha : ¬ a = k := fun e => h (by simp [keys, e])
    have ht : k ∉ keys tl := fun m => h (by simp [keys] at m ⊢; exact Or.inr m)
    simp [alookup, ha, ih ht]

theorem lookupLast_eq_alookup (k : Bytes) (t : Table β) (h : (keys t).Nodup) :
    lookupLast k t = alookup k t := by
  induction t with
  | nil => rfl
  | cons hd tl ih =>
    obtain ⟨a, w⟩ := hd
    have hn : a ∉ keys tl ∧ (keys tl).Nodup := by simpa [keys] using h
    simp only [lookupLast, alookup, ih hn.2]
    by_cases hk : a = k
    · subst hk
      simp [alookup_none_of_not_mem a tl hn.1]
    · simp only [hk, if_false]
      cases alookup k tl <;> rfl

theorem keys_aset (k : Bytes) (v : β) (t : Table β) :
    keys (aset k v t) = if k ∈ keys t then keys t else keys t ++ [k] := by
  induction t with
  | nil => simp [aset, keys]
  | cons hd tl ih =>
    obtain ⟨a, w⟩ := hd
    unfold aset
    by_cases h : a = k
    · subst h; simp [keys]
    · have hk : ¬ k = a := fun e => h e.symm
      simp only [h, if_false]
      simp only [keys, List.map_cons, List.mem_cons, hk, false_or] at ih ⊢
      rw [ih]
      split <;> simp [*]

theorem nodup_aset (k : Bytes) (v : β) (t : Table β) (h : (keys t).Nodup) : (keys (aset k v t)).Nodup := by
  rw [keys_aset]
  split
  · exact h
  · rename_i hk
    rw [List.nodup_append]
    refine ⟨h, by simp, ?_⟩
    intro a ha b hb
    simp at hb
    subst hb
    intro e; subst e; exact hk ha

theorem nodup_addAll (src : Table β) : ∀ t : Table β, (keys t).Nodup → (keys (addAll t src)).Nodup := by
  induction src with
  | nil => intro t h; exact h
  | cons hd tl ih => intro t h; exact ih _ (nodup_aset hd.1 hd.2 t h)

/-- every effective table has one entry per block name -/
theorem nodup_processed (ext : Table β) (imports : List (Table β)) (own : Table β)
    (h : (keys ext).Nodup) : (keys (processed ext imports own)).Nodup := by
  unfold processed
  apply nodup_addAll
  induction imports generalizing ext with
  | nil => exact h
  | cons i rest ih => exact ih (addAll ext i) (nodup_addAll i ext h)

/-- `tableOf` yields one entry per name at every fuel, so for the tables of imported templates
    the "last entry" in `precedence` is the entry -/
theorem nodup_tableOf (store : List (Bytes × Option Tmpl)) :
    ∀ (fuel : Nat) (name : Bytes), (keys (tableOf store fuel name)).Nodup := by
  intro fuel
  induction fuel with
  | zero => intro name; simp [tableOf, keys]
  | succ n ih =>
    intro name
    unfold tableOf
    split
    · rename_i t _
      apply nodup_processed
      cases t.ext with
      | none => simp [keys]
      | some e => exact ih e
    · simp [keys]

/-- **Precedence along the links of a template set**: in the effective table of template `t`,
    block `k` is `t`'s own last definition, else that of the latest imported template whose
    effective table has `k`, else what the effective table of the extended template says. -/
theorem tableOf_precedence (store : List (Bytes × Option Tmpl)) (fuel : Nat) (name k : Bytes) (t : Tmpl)
    (ht : store.find? (fun p => p.1 = name) = some (name, some t)) :
    alookup k (tableOf store (fuel + 1) name) =
      ((lookupLast k (ownRegs 64 t.root)).or
        (fromImports k (t.imports.map (tableOf store fuel)))).or
        (match t.ext with
         | some e => alookup k (tableOf store fuel e)
         | none => none) := by
  conv => lhs; unfold tableOf
  rw [ht]
  simp only
  rw [precedence]
  cases t.ext <;> simp [alookup]

/-! ### what an execution uses -/

/-- **Execute renders the root ancestor's body with the leaf's block table**: the list that is
    executed is the `Root` of the last template of the extends chain, and the block table of the
    first scope is the executed template's own effective table. -/
theorem execute_uses_root_body_and_leaf_table (fuel : Nat) (env : Env) (t root : Tmpl)
    (vars : List (Bytes × Val)) (data : Val) (hroot : rootOf env 64 t = some root) :
    execute fuel env t vars data =
      (match (recAt fuel).execList env root.root (initRT t vars data) with
       | .ok _ rt => .ok (rt.sink 0).reverse rt.log.reverse
       | .err e rt => .err e (rt.sink 0).reverse rt.log.reverse
       | .crash m rt => .crash m (rt.sink 0).reverse
       | .fuel => .fuel
       | .unsupported w => .unsupported w) ∧
    getBlockChain (initRT t vars data) = fun name chain =>
      getBlockChain { frames := [{ vars := some vars, blocks := t.blocks }], scope := [0], ctx := data } name chain := by
  constructor
  · unfold execute; rw [hroot]; rfl
  · rfl

/-- a template without `extends` is its own root; with `extends` the root is the root of the
    extended template: text outside blocks in an extending template is never executed -/
theorem rootOf_step (env : Env) (n : Nat) (t : Tmpl) :
    rootOf env (n + 1) t =
      (match t.ext with
       | none => some t
       | some e => match findTmpl env e with
         | some p => rootOf env n p
         | none => none) := by
  conv => lhs; unfold rootOf
  rfl

/-- every block definition site and every yield looks the name up in the scope chain's tables,
    innermost first; at the top level of an execution that is the leaf's effective table -/
theorem top_level_lookup (t : Tmpl) (vars : List (Bytes × Val)) (data : Val) (k : Bytes) :
    getBlockChain (initRT t vars data) k (initRT t vars data).scope = alookup k t.blocks := by
  simp [initRT, getBlockChain, frameAt]
  cases alookup k t.blocks <;> rfl

end JetVerif.Props.C08
