/-
  C17 — isset never fails and is true exactly when every argument exists and is non-nil.
-/
import JetVerif.Lemmas.EvalGood

namespace JetVerif.Props.C17
open JetVerif JetVerif.Eval

/-- outcomes that are not failures of the evaluated program: a result, or the model's own
    "ran out of fuel" / "outside the modelled fragment" -/
def NoFail {α} : Res α → Prop
  | .err _ _ => False
  | .crash _ _ => False
  | _ => True

/-- **`Runtime.isSet` never fails**, whatever expression it is given and whatever the data looks
    like: any panic while evaluating the argument is turned into `false`. -/
theorem isSet_never_fails (r : Rec) (env : Env) (e : Expr) (rt : RT) : NoFail (isSetF r env e rt) := by
  unfold isSetF
  rcases recoverFalse_total (isSetBody r env e) rt with ⟨b, rt', h⟩ | h | ⟨w, h⟩ <;> (rw [h]; trivial)

theorem isSetE_never_fails (fuel : Nat) (env : Env) (e : Expr) (rt : RT) :
    NoFail ((recAt fuel).isSetE env e rt) := by
  cases fuel with
  | zero => trivial
  | succ n => exact isSet_never_fails (recAt n) env e rt

theorem argIsSetAt_never_fails (fuel : Nat) (env : Env) (a : Args) (j : Nat) (rt : RT) :
    NoFail (a.isSetAt (recAt fuel) env j rt) := by
  unfold Args.isSetAt
  cases a.exprs[j]? with
  | none => trivial
  | some e =>
    dsimp only
    cases hu : isUnderscore e with
    | true => simp only [if_true]; cases a.piped <;> trivial
    | false => simp only [Bool.false_eq_true, if_false]; exact isSetE_never_fails fuel env e rt

/-- `Arguments.IsSet(i)` never fails either (piped value, slot or expression) -/
theorem argIsSet_never_fails (fuel : Nat) (env : Env) (a : Args) (i : Nat) (rt : RT) :
    NoFail (a.isSet (recAt fuel) env i rt) := by
  have hat := fun j => argIsSetAt_never_fails fuel env a j rt
  unfold Args.isSet
  cases a.piped with
  | none => exact hat i
  | some p =>
    dsimp only
    cases hs : (!a.hasSlot) with
    | false => simp only [Bool.false_eq_true, if_false]; exact hat i
    | true =>
      simp only [if_true]
      cases hi : (i == 0) with
      | true => simp only [if_true]; trivial
      | false => simp only [Bool.false_eq_true, if_false]; exact hat _

/-- **the `isset` built-in with at least one argument never fails**: it evaluates to true or false -/
theorem isset_builtin_never_fails (fuel : Nat) (env : Env) (a : Args) :
    ∀ (n i : Nat) (rt : RT), NoFail (issetLoop (recAt fuel) env a n i rt) := by
  intro n
  induction n with
  | zero => intro i rt; trivial
  | succ n ih =>
    intro i rt
    unfold issetLoop
    split
    · trivial
    · have h := argIsSet_never_fails fuel env a i rt
      rw [bind_def]
      cases hs : a.isSet (recAt fuel) env i rt with
      | ok s rt' =>
        simp only
        split
        · trivial
        · exact ih _ _
      | err e rt' => rw [hs] at h; exact h.elim
      | crash s rt' => rw [hs] at h; exact h.elim
      | fuel => trivial
      | unsupported w => trivial

/-- zero numbers, empty strings and `false` count as existing: `notNil` only rejects invalid values
    and nil pointers/maps/slices/interfaces -/
theorem zero_values_are_set :
    Val.notNil (.int 0) = true ∧ Val.notNil (.str []) = true ∧ Val.notNil (.bool false) = true ∧
    Val.notNil (.float 0) = true ∧ Val.notNil (.uint 0) = true := ⟨rfl, rfl, rfl, rfl, rfl⟩

theorem nil_values_are_not_set :
    Val.notNil .invalid = false ∧ Val.notNil (.ptr "T" none) = false ∧ Val.notNil (.iface .invalid) = false ∧
    Val.notNil (.smap [] true true) = false ∧ Val.notNil (.slice [] true true) = false := ⟨rfl, rfl, rfl, rfl, rfl⟩

/-- a piped argument is judged like a written one: by the value itself (D30) -/
theorem piped_isset_judges_value (r : Rec) (env : Env) (p : Val) (rt : RT) :
    ({ exprs := [], hasSlot := false, piped := some p } : Args).isSet r env 0 rt = .ok (Val.notNil p) rt := by
  simp [Args.isSet]
  rfl

/-! ### exactness on field paths: true exactly when every step resolves to something that is not nil -/

/-- every step of a field path resolves - by the engine's own `resolveIndex`, the function every field
    access goes through - to a value that is not nil -/
def PathResolves : Val → List Bytes → Prop
  | _, [] => True
  | v, f :: rest => ∃ x, resolveIndex v .invalid (some f) = .ok x ∧ notNilP x = .ok true ∧ PathResolves x rest

/-- `isset(.a.b.c)` on a value is true **exactly** when `.a`, `.a.b` and `.a.b.c` all resolve and none of
    them is nil; a step that fails to resolve (missing field, nil pointer on the way, index into a scalar)
    or resolves to nil makes it not-true, whatever comes after -/
theorem isSetFieldPath_true_iff : ∀ (names : List Bytes) (v : Val),
    isSetFieldPath v names = .ok true ↔ PathResolves v names
  | [], v => by simp [isSetFieldPath, PathResolves, pure, Except.pure]
  | f :: rest, v => by
    unfold isSetFieldPath PathResolves
    cases hr : resolveIndex v .invalid (some f) with
    | error e =>
      constructor
      · intro h; simp [bind, Except.bind] at h
      · rintro ⟨x, hx, _⟩; cases hx
    | ok x =>
      cases hn : notNilP x with
      | error e =>
        constructor
        · intro h; simp [bind, Except.bind, hn] at h
        · rintro ⟨y, hy, hny, _⟩
          cases hy
          rw [hn] at hny; cases hny
      | ok b =>
        cases b with
        | false =>
          constructor
          · intro h; simp [bind, Except.bind, hn, pure, Except.pure] at h
          · rintro ⟨y, hy, hny, _⟩
            cases hy
            rw [hn] at hny; cases hny
        | true =>
          have ih := isSetFieldPath_true_iff rest x
          constructor
          · intro h
            simp [bind, Except.bind, hn] at h
            exact ⟨x, rfl, hn, ih.mp h⟩
          · rintro ⟨y, hy, _, hrest⟩
            cases hy
            simp [bind, Except.bind, hn]
            exact ih.mpr hrest

/-- what exists along a longer path exists along every prefix of it -/
theorem pathResolves_prefix : ∀ (p q : List Bytes) (v : Val), PathResolves v (p ++ q) → PathResolves v p
  | [], _, _, _ => trivial
  | f :: p, q, v, h => by
    obtain ⟨x, hx, hn, hrest⟩ := h
    exact ⟨x, hx, hn, pathResolves_prefix p q x hrest⟩

/-- `Runtime.isSet` on a field expression `.a.b.c`: it answers true exactly when the path resolves from
    the current context - and, with `isSet_never_fails`, answers false or stays outside the model otherwise -/
theorem isset_field_exact (r : Rec) (env : Env) (loc : Loc) (names : List Bytes) (rt : RT) :
    (∃ rt', isSetF r env (.field loc names) rt = .ok true rt') ↔ PathResolves rt.ctx names := by
  rw [← isSetFieldPath_true_iff]
  unfold isSetF recoverFalse isSetBody
  simp only [bind, getRT]
  cases hp : isSetFieldPath rt.ctx names with
  | ok b =>
    simp only [liftP]
    constructor
    · rintro ⟨rt', h⟩
      simp at h
      rw [h.1]
    · intro h
      cases h
      exact ⟨rt, rfl⟩
  | error e =>
    cases e with
    | err e' =>
      simp only [liftP]
      constructor
      · rintro ⟨rt', h⟩; simp at h
      · intro h; cases h
    | crash s =>
      simp only [liftP]
      constructor
      · rintro ⟨rt', h⟩; simp at h
      · intro h; cases h
    | unsupported w =>
      simp only [liftP]
      constructor
      · rintro ⟨rt', h⟩; simp at h
      · intro h; cases h

/-- the premises are satisfiable and the distinction is real: in a struct with a present field, a nil
    pointer field and nothing else, the first path resolves, the other two do not -/
example :
    let v : Val := .struct "T" [([65], .int 0), ([80], .ptr "T" none)]
    isSetFieldPath v [[65]] = .ok true ∧ isSetFieldPath v [[80]] = .ok false ∧
    isSetFieldPath v [[80], [65]] = .ok false ∧ (∃ e, isSetFieldPath v [[90]] = .error e) :=
  ⟨rfl, rfl, rfl, _, rfl⟩

end JetVerif.Props.C17
