/-
  C10 — Execute is a pure function of its inputs: no residue from earlier executions.

  Two layers.
  (1) The evaluator model's `Eval.execute` takes the template set, variables and data and nothing
      else: there is no pooled state in its signature, so in the model purity holds by construction;
      the history stream of the correspondence check compares the real `Template.Execute`, run in
      arbitrary histories on one goroutine (pooled runtimes reused), with that stateless model.
  (2) What makes the real code stateless is the reset discipline of the pooled `*Runtime`.  That
      discipline is modelled here as a taint machine over the runtime's fields and proved residue-free
      for all histories from a coverage condition; the condition is then discharged, by kernel
      evaluation, for the field lists factgen regenerates from eval.go / exec.go on every run.
-/
import JetVerif.Generated.Facts
import JetVerif.Lemmas.EvalGood

namespace JetVerif.Props.C10
open JetVerif

/-! ### the pooled runtime as a taint machine -/

/-- for each field: `none` = holds its zero value, `some k` = holds a value written by execution `k` -/
abbrev St := String → Option Nat

structure Discipline where
  used : List String      -- fields any method of the runtime reads or writes
  always : List String    -- fields Execute assigns unconditionally before running
  resets : List String    -- fields Runtime.recover resets before Put

variable (d : Discipline)

/-- a brand-new runtime from `pool_State.New` -/
def fresh : St := fun _ => none

/-- the assignments at the top of `Template.Execute`, in execution number `k` -/
def execInit (k : Nat) (s : St) : St := fun f => if f ∈ d.always then some k else s f

/-- whatever the execution does — completes, fails or panics anywhere: it may leave a value of its
    own in any subset (`touch`) of the fields the runtime's methods use -/
def execBody (k : Nat) (touch : String → Bool) (s : St) : St :=
  fun f => if f ∈ d.used ∧ touch f = true then some k else s f

/-- `Runtime.recover` (deferred, so it runs however the body ended), then `pool_State.Put` -/
def recoverSt (s : St) : St := fun f => if f ∈ d.resets then none else s f

def oneExec (k : Nat) (touch : String → Bool) (s : St) : St :=
  recoverSt d (execBody d k touch (execInit d k s))

/-- a history: execution `k`, `k+1`, … each with its own (arbitrary) behaviour -/
def runHist : Nat → List (String → Bool) → St → St
  | _, [], s => s
  | k, t :: ts, s => runHist (k + 1) ts (oneExec d k t s)

/-- coverage: every field the runtime uses is assigned by Execute or reset by recover -/
def Covered : Prop := ∀ f ∈ d.used, f ∈ d.always ∨ f ∈ d.resets

instance : Decidable (Covered d) := by unfold Covered; infer_instance

/-- pool invariant: a used field that Execute does not assign is at its zero value -/
def PoolInv (s : St) : Prop := ∀ f ∈ d.used, f ∉ d.always → s f = none

theorem poolInv_fresh : PoolInv d fresh := fun _ _ _ => rfl

theorem poolInv_oneExec (hc : Covered d) (k : Nat) (touch : String → Bool) (s : St)
    (_h : PoolInv d s) : PoolInv d (oneExec d k touch s) := by
  intro f hu hna
  have hr : f ∈ d.resets := (hc f hu).resolve_left hna
  simp [oneExec, recoverSt, hr]

theorem poolInv_runHist (hc : Covered d) (ts : List (String → Bool)) :
    ∀ (k : Nat) (s : St), PoolInv d s → PoolInv d (runHist d k ts s) := by
  induction ts with
  | nil => intro k s h; exact h
  | cons t ts ih => intro k s h; exact ih (k + 1) _ (poolInv_oneExec d hc k t s h)

/-- **No residue, for every history.**  Whatever executions ran before (any number, each ending
    anywhere — normally, with an error, with a panic — after touching any fields), when execution
    number `k` starts its body every field it can observe holds either its zero value or a value
    assigned by this very execution. -/
theorem no_residue (hc : Covered d) (before : List (String → Bool)) (k0 : Nat) :
    let k := k0 + before.length
    ∀ f ∈ d.used, execInit d k (runHist d k0 before fresh) f = none ∨
                  execInit d k (runHist d k0 before fresh) f = some k := by
  intro k f hu
  have hinv := poolInv_runHist d hc before k0 fresh (poolInv_fresh d)
  by_cases ha : f ∈ d.always
  · right; simp [execInit, ha]
  · left; simp [execInit, ha]; exact hinv f hu ha

/-- the converse, so the coverage condition is not stronger than needed: if a used field is neither
    assigned nor reset, a two-execution history exists in which the second execution observes a
    value the first one left behind -/
theorem uncovered_leaks (f : String) (hu : f ∈ d.used) (ha : f ∉ d.always) (hr : f ∉ d.resets) :
    execInit d 1 (runHist d 0 [fun _ => true] fresh) f = some 0 := by
  simp [runHist, oneExec, execInit, recoverSt, execBody, ha, hr, hu]

/-! ### jet's discipline, regenerated from the source on every run -/

def jet : Discipline :=
  { used := Facts.runtimeFieldsUsed, always := Facts.executeAssignsAlways, resets := Facts.recoverResets }

/-- eval.go / exec.go as they are now: every field of the pooled Runtime that any of its methods
    touches is assigned at the top of Execute or reset in recover -/
theorem jet_fields_covered : Covered jet := by decide

/-- the shape factgen relies on: the field lists were extracted from the forms it understands,
    every function that takes a runtime from the pool defers `recover` immediately, and `recover`
    puts the runtime back only after the resets -/
theorem jet_reset_shape :
    Facts.runtimeShapeOk = true ∧ Facts.poolGettersDeferRecover = true ∧
    Facts.recoverPutsAfterResets = true ∧ Facts.poolGetters ≠ [] := by decide

/-- **jet: no residue for every history** -/
theorem jet_no_residue (before : List (String → Bool)) :
    ∀ f ∈ Facts.runtimeFieldsUsed,
      execInit jet before.length (runHist jet 0 before fresh) f = none ∨
      execInit jet before.length (runHist jet 0 before fresh) f = some before.length := by
  have h := no_residue jet jet_fields_covered before 0
  simp only [Nat.zero_add] at h
  exact h

/-- the pools this account covers are all the pools there are: one for the Runtime (above) and the
    three ranger pools, whose objects are completely re-initialised by `Setup` on every `Get` (every
    field of every pooled ranger type is assigned there).  A new `sync.Pool` anywhere in the
    package, or a ranger field `Setup` does not assign, breaks this theorem. -/
theorem pools_are_accounted_for :
    Facts.syncPools = ["eval.go:1", "ranger.go:3"] ∧
    Facts.pooledRangers.length = 3 ∧
    (∀ r ∈ Facts.pooledRangers, ∀ f ∈ r.2.1, f ∈ r.2.2) := by decide

/-- non-vacuity: the discipline is about real fields (content and context are among them) and the
    content closure — the field only `recover` clears — is covered by the reset, not by Execute -/
example : "Runtime.content" ∈ jet.used ∧ "Runtime.content" ∉ jet.always ∧ "Runtime.content" ∈ jet.resets := by
  decide

/-! ### the model's Execute -/

/-- In the evaluator model an execution starts from `initRT`, which is built from the template, the
    variables and the data only: scope chain of one frame, no content closure, top-level writer,
    empty sinks and log. -/
theorem execute_starts_clean (t : Tmpl) (vars : List (Bytes × Val)) (data : Val) :
    (Eval.initRT t vars data).content = none ∧ (Eval.initRT t vars data).scope = [0] ∧
    (Eval.initRT t vars data).ctx = data ∧ (Eval.initRT t vars data).log = [] ∧
    (∀ k, (Eval.initRT t vars data).sink k = []) ∧
    (Eval.initRT t vars data).frames = [{ vars := some vars, blocks := t.blocks }] :=
  ⟨rfl, rfl, rfl, rfl, fun _ => rfl, rfl⟩

end JetVerif.Props.C10
