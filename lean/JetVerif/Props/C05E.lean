/-
  C05, the evaluator's part for whole chains — "An if / else if / else chain renders exactly one branch:
  the first whose condition is truthy, otherwise the else branch if there is one."

  Props/C05.lean proves it for ONE `if` (`ifBranches`); Props/C05P.lean proves that the parser maps the
  spelling of a chain to the nested tree (`{{else if c}}` = an else list whose only node is the next `if`).
  Here:

  A. (evaluator, AST level)  For the nested `Stmt.ifS` shape `chainStmt` of ARBITRARY length, with arbitrary
     condition expressions and bodies: executing the chain is executing exactly the body of the first clause
     whose condition is truthy (conditions after it play no role, they may even be ones that would fail);
     if all are falsy it is executing the final else list, or nothing; if a condition fails after falsy
     ones, the chain fails with that failure and no body is run.

     What the model does, precisely:
     * an `if` without `:=` opens no scope (`execIf`, case `none`); the chosen body is run by `execList`,
       which opens a let-scope only if the body itself contains a `:=` action and releases it at its end;
     * fuel: a nested else list costs one unit (`recAt (n+1)` unfolds one level per `execList`).  With
       the chain executed at fuel `K`, clause j (0-based) has its condition evaluated by
       `(recAt (K - j)).evalExpr` and its body run by `(recAt (K - j)).execList`; the final else list runs at
       the fuel of the last condition.  Below `K = M + pre.length`, where `pre` are the falsy clauses in
       front of the selected one and `M` is the fuel at which the selected condition and body run.
       No fuel monotonicity of `evalExpr` is proved in the library, so the hypotheses name the fuel at which
       each condition is evaluated (`Falsy`); for conditions that do not recurse (identifiers, literals)
       every fuel ≥ 1 gives the same value and `Falsy.of_forall` / the `_pure` variants apply.
     * conditions may change the runtime (a call can); the runtime is threaded through (`Falsy … rt rt1`).

  B. (composition)  For chains whose conditions are identifiers and whose bodies are text: the parser
     model maps the spelling to a tree (C05P), the tree erases to `chainStmt` (the erasure of text / `if`
     nodes is restated as a total function, `Driver/ExecSrc.lean`'s `stmtA` being a `partial def`), and
     `Template.Execute` on it writes exactly the text of the first clause whose identifier stands for a
     truthy value, else the else text, else nothing.  The parser step is `textOrAction` on the chain's
     spelling (statement level, as in C05P), not a whole `parseSource` run.

  Lemmas: JetVerif/Lemmas/IfChain.lean.
-/
import JetVerif.Lemmas.IfChain

namespace JetVerif.Props.C05E
open JetVerif JetVerif.Eval JetVerif.IfChain JetVerif.TextOnly

/-! ### A. the evaluator on chains of any length -/

/-- **An `if` without `:=` is its two branches and opens no scope of its own**: as a statement it is
    `ifBranches` (Props/C05: the then-list iff the condition is truthy), whose value it hands on. -/
theorem if_statement_is_its_branches (r : Rec) (env : Env) (ins : Bool) (loc : Loc) (c : Expr) (t : List Stmt)
    (els : Option (List Stmt)) (rt : RT) :
    execStmt r env ins (.ifS loc none c t els) rt = stmtRes ins (ifBranches r env c t els rt) :=
  execStmt_if r env ins loc c t els rt

/-- **`else if` costs one unit of fuel and nothing else**: the else list `[if …]` run at fuel `n+1` is the
    nested `if` at fuel `n` — same value, same runtime, same failure, no scope opened or released. -/
theorem else_if_list_is_the_nested_if (n : Nat) (env : Env) (loc : Loc) (c : Expr) (t : List Stmt)
    (els : Option (List Stmt)) (rt : RT) :
    (recAt (n + 1)).execList env [.ifS loc none c t els] rt = ifBranches (recAt n) env c t els rt :=
  execList_single_if n env loc c t els rt

/-- **An if / else-if / else chain runs the first truthy branch, and only it.**  The clauses are
    `pre ++ cl :: post`: the conditions of `pre` evaluate, in order, to falsy values (`Falsy`: clause j at
    fuel `M + pre.length - j`, runtime threaded from `rt` to `rt1`), the condition of `cl` evaluates at
    fuel `M` to a truthy value leaving `rt2`.  Then the chain, as a statement of any list at fuel
    `M + pre.length`, is exactly `execList` of `cl`'s body at fuel `M` from `rt2`: same value, same final
    runtime (hence same output), same failure if the body fails.  `post` and `fin` do not occur on the right. -/
theorem if_chain_runs_the_first_truthy_branch (env : Env) (M : Nat) (ins : Bool) (hd : Clause) (tl : List Clause)
    (fin : Option (List Stmt)) (pre : List Clause) (cl : Clause) (post : List Clause) (rt rt1 rt2 : RT) (v : Val)
    (hsplit : hd :: tl = pre ++ cl :: post) (hpre : Falsy env M pre rt rt1)
    (hc : (recAt M).evalExpr env cl.cond rt1 = .ok v rt2) (hv : Val.isTrue v = some true) :
    execStmt (recAt (M + pre.length)) env ins (chainStmt hd tl fin) rt =
      stmtRes ins ((recAt M).execList env cl.body rt2) := by
  rw [execStmt_chain, hsplit, elsePart_truthy env M fin pre cl post rt rt1 rt2 v hpre hc hv]

/-- the same for the chain as the only statement of a list (a template root, a body, an else list) -/
theorem if_chain_list_runs_the_first_truthy_branch (env : Env) (M : Nat) (hd : Clause) (tl : List Clause)
    (fin : Option (List Stmt)) (pre : List Clause) (cl : Clause) (post : List Clause) (rt rt1 rt2 : RT) (v : Val)
    (hsplit : hd :: tl = pre ++ cl :: post) (hpre : Falsy env M pre rt rt1)
    (hc : (recAt M).evalExpr env cl.cond rt1 = .ok v rt2) (hv : Val.isTrue v = some true) :
    (recAt (M + pre.length + 1)).execList env [chainStmt hd tl fin] rt = (recAt M).execList env cl.body rt2 := by
  rw [execList_chain, hsplit, elsePart_truthy env M fin pre cl post rt rt1 rt2 v hpre hc hv]

/-- **Conditions after the first truthy one are not evaluated, bodies after it and the else list are not
    run**: two chains that agree up to and including the first truthy clause behave identically, whatever
    comes after — other conditions (failing ones included), other bodies, another else list or none. -/
theorem later_conditions_are_not_evaluated (env : Env) (M : Nat) (ins : Bool) (hd hd' : Clause) (tl tl' : List Clause)
    (fin fin' : Option (List Stmt)) (pre : List Clause) (cl : Clause) (post post' : List Clause) (rt rt1 rt2 : RT)
    (v : Val) (hsplit : hd :: tl = pre ++ cl :: post) (hsplit' : hd' :: tl' = pre ++ cl :: post')
    (hpre : Falsy env M pre rt rt1)
    (hc : (recAt M).evalExpr env cl.cond rt1 = .ok v rt2) (hv : Val.isTrue v = some true) :
    execStmt (recAt (M + pre.length)) env ins (chainStmt hd tl fin) rt =
      execStmt (recAt (M + pre.length)) env ins (chainStmt hd' tl' fin') rt := by
  rw [if_chain_runs_the_first_truthy_branch env M ins hd tl fin pre cl post rt rt1 rt2 v hsplit hpre hc hv,
    if_chain_runs_the_first_truthy_branch env M ins hd' tl' fin' pre cl post' rt rt1 rt2 v hsplit' hpre hc hv]

/-- **All conditions falsy, with a final else: the chain runs the else list** (at the fuel of the last
    condition, from the runtime the last condition left). -/
theorem if_chain_all_falsy_runs_else (env : Env) (M : Nat) (ins : Bool) (hd : Clause) (tl : List Clause)
    (l : List Stmt) (rt rt1 : RT) (hall : Falsy env M (hd :: tl) rt rt1) :
    execStmt (recAt (M + tl.length + 1)) env ins (chainStmt hd tl (some l)) rt =
      stmtRes ins ((recAt (M + 1)).execList env l rt1) := by
  rw [execStmt_chain]
  show stmtRes ins (elsePart (M + (hd :: tl).length + 1) env (hd :: tl) (some l) rt) = _
  rw [elsePart_allFalsy env M (some l) (hd :: tl) rt rt1 hall, elsePart_nil_some]

/-- **All conditions falsy, no else: the chain does nothing** — no value, and the runtime (output included)
    is the one the last condition left. -/
theorem if_chain_all_falsy_no_else_writes_nothing (env : Env) (M : Nat) (ins : Bool) (hd : Clause) (tl : List Clause)
    (rt rt1 : RT) (hall : Falsy env M (hd :: tl) rt rt1) :
    execStmt (recAt (M + tl.length + 1)) env ins (chainStmt hd tl none) rt = .ok (.invalid, .invalid, ins) rt1 := by
  rw [execStmt_chain]
  show stmtRes ins (elsePart (M + (hd :: tl).length + 1) env (hd :: tl) none rt) = _
  rw [elsePart_allFalsy env M none (hd :: tl) rt rt1 hall, elsePart_nil_none]
  rfl

/-- **A condition that fails is the chain's failure, and no body runs**: if after falsy conditions the
    next condition panics with error `e` (leaving runtime `rt2`), the chain fails with `e` and `rt2`; no
    `execList` occurs on the right, and the result does not depend on any body, on `post` or on `fin`. -/
theorem if_chain_condition_failure_is_the_failure (env : Env) (M : Nat) (ins : Bool) (hd : Clause) (tl : List Clause)
    (fin : Option (List Stmt)) (pre : List Clause) (cl : Clause) (post : List Clause) (rt rt1 rt2 : RT) (e : Err)
    (hsplit : hd :: tl = pre ++ cl :: post) (hpre : Falsy env M pre rt rt1)
    (hc : (recAt M).evalExpr env cl.cond rt1 = .err e rt2) :
    execStmt (recAt (M + pre.length)) env ins (chainStmt hd tl fin) rt = .err e rt2 := by
  rw [execStmt_chain, hsplit, elsePart_err env M fin pre cl post rt rt1 rt2 e hpre hc]
  rfl

/-- the same for a runtime panic (a Go crash rather than an error value) -/
theorem if_chain_condition_crash_is_the_crash (env : Env) (M : Nat) (ins : Bool) (hd : Clause) (tl : List Clause)
    (fin : Option (List Stmt)) (pre : List Clause) (cl : Clause) (post : List Clause) (rt rt1 rt2 : RT) (m : String)
    (hsplit : hd :: tl = pre ++ cl :: post) (hpre : Falsy env M pre rt rt1)
    (hc : (recAt M).evalExpr env cl.cond rt1 = .crash m rt2) :
    execStmt (recAt (M + pre.length)) env ins (chainStmt hd tl fin) rt = .crash m rt2 := by
  rw [execStmt_chain, hsplit, elsePart_crash env M fin pre cl post rt rt1 rt2 m hpre hc]
  rfl

/-- **The usual case: conditions that leave the runtime alone and do not depend on the fuel.**  If every
    condition of `pre` is falsy at every fuel ≥ 1 from `rt` without changing it, and `cl`'s condition is
    truthy likewise, the chain run at any fuel `m + 1 + pre.length` is `cl`'s body run from `rt`. -/
theorem if_chain_runs_the_first_truthy_branch_pure (env : Env) (m : Nat) (ins : Bool) (hd : Clause) (tl : List Clause)
    (fin : Option (List Stmt)) (pre : List Clause) (cl : Clause) (post : List Clause) (rt : RT) (v : Val)
    (hsplit : hd :: tl = pre ++ cl :: post)
    (hpre : ∀ c ∈ pre, ∀ n, ∃ w, (recAt (n + 1)).evalExpr env c.cond rt = .ok w rt ∧ Val.isTrue w = some false)
    (hc : (recAt (m + 1)).evalExpr env cl.cond rt = .ok v rt) (hv : Val.isTrue v = some true) :
    execStmt (recAt (m + 1 + pre.length)) env ins (chainStmt hd tl fin) rt =
      stmtRes ins ((recAt (m + 1)).execList env cl.body rt) :=
  if_chain_runs_the_first_truthy_branch env (m + 1) ins hd tl fin pre cl post rt rt rt v hsplit
    (Falsy.of_forall env (m + 1) rt pre hpre) hc hv

/-- … all falsy: the else list, or nothing -/
theorem if_chain_all_falsy_pure (env : Env) (M : Nat) (ins : Bool) (hd : Clause) (tl : List Clause)
    (fin : Option (List Stmt)) (rt : RT)
    (hall : ∀ c ∈ hd :: tl, ∀ n, ∃ w, (recAt (n + 1)).evalExpr env c.cond rt = .ok w rt ∧ Val.isTrue w = some false) :
    execStmt (recAt (M + tl.length + 1)) env ins (chainStmt hd tl fin) rt =
      match fin with
      | some l => stmtRes ins ((recAt (M + 1)).execList env l rt)
      | none => .ok (.invalid, .invalid, ins) rt := by
  have h := Falsy.of_forall env M rt (hd :: tl) hall
  cases fin with
  | some l => exact if_chain_all_falsy_runs_else env M ins hd tl l rt rt h
  | none => exact if_chain_all_falsy_no_else_writes_nothing env M ins hd tl rt rt h

/-- **When the chain succeeds, scope, context and block content are as before it** (whatever branch ran;
    a let-scope opened inside a body is released at the body's end): an instance of the evaluator's
    invariant `Good` (Lemmas/EvalGood) for the list `[chain]`. -/
theorem if_chain_restores_scope (K : Nat) (env : Env) (hd : Clause) (tl : List Clause) (fin : Option (List Stmt))
    (rt rt' : RT) (x : Val) (hwf : WF rt)
    (h : (recAt K).execList env [chainStmt hd tl fin] rt = .ok x rt') :
    rt'.scope = rt.scope ∧ rt'.ctx = rt.ctx ∧ rt'.content = rt.content := by
  have hp := ((recGood_recAt K).execList env [chainStmt hd tl fin]).post rt hwf
  rw [h] at hp
  exact ⟨hp.2.scope, hp.2.ctx, hp.2.content⟩

/-! ### B. parser, erasure and evaluator together: identifier conditions, text bodies -/

open JetVerif.StmtGrammar JetVerif.Props.C05P

/-- **The tree of a chain erases to the nested `ifS` chain**: for conditions that are identifiers and
    bodies that are text items, the erasure (`eraseS`: `stmtA` of the driver restated for text and `if`
    nodes) of the tree C05P promises is `chainStmt` over the same identifiers and texts, every node at line 1. -/
theorem if_chain_tree_erases_to_nested_ifs (path : Bytes) (x : Bytes × List Bytes) (more : List (Bytes × List Bytes))
    (fin : Option (List Bytes)) :
    eraseS path (chainTree (atom7 x.1) (textsL x.2) (more.map gClause) (fin.map textsL)) =
      some (chainStmt (eClause path x) (more.map (eClause path)) (eFin path fin)) :=
  eraseS_chainTree path fin more x

/-- the template whose root is the one statement `s` -/
def tmplOf (name : Bytes) (blocks : List (Bytes × BlockN)) (s : Stmt) : Tmpl :=
  { name := name, ext := none, imports := [], blocks := blocks, root := [s] }

theorem execute_tmplOf (fuel : Nat) (env : Env) (name : Bytes) (blocks : List (Bytes × BlockN)) (s : Stmt)
    (vars : List (Bytes × Val)) (data : Val) (chunks : List Chunk)
    (h : (recAt (fuel + 1)).execList env [s] (initRT (tmplOf name blocks s) vars data) =
      .ok .invalid (appendTo (initRT (tmplOf name blocks s) vars data) (initRT (tmplOf name blocks s) vars data).writer chunks)) :
    execute (fuel + 1) env (tmplOf name blocks s) vars data = .ok chunks [] := by
  have hr : rootOf env 64 (tmplOf name blocks s) = some (tmplOf name blocks s) := rfl
  simp only [execute, hr]
  have hroot : (tmplOf name blocks s).root = [s] := rfl
  rw [hroot, h]
  simp [appendTo, initRT, Wr.idx]

theorem execute_tmplOf_err (fuel : Nat) (env : Env) (name : Bytes) (blocks : List (Bytes × BlockN)) (s : Stmt)
    (vars : List (Bytes × Val)) (data : Val) (e : Err)
    (h : (recAt (fuel + 1)).execList env [s] (initRT (tmplOf name blocks s) vars data) =
      .err e (initRT (tmplOf name blocks s) vars data)) :
    execute (fuel + 1) env (tmplOf name blocks s) vars data = .err e [] [] := by
  have hr : rootOf env 64 (tmplOf name blocks s) = some (tmplOf name blocks s) := rfl
  simp only [execute, hr]
  have hroot : (tmplOf name blocks s).root = [s] := rfl
  rw [hroot, h]
  simp [initRT]

/-- **`{{if a}}x{{else if b}}y … {{else}}z{{end}}`, source spelling to output.**  The clauses
    (identifier, text items) are `hd :: tl = pre ++ x :: post`, `fin` is the optional else text.  For
    every literal table `cfg`, parser state about to read the spelling, and whatever items `rest` follow:

    * the parser model returns a tree and stops right behind the `{{end}}` (C05P);
    * the tree erases to a statement `s`, the nested `ifS` chain;
    * for all variables, globals and data such that the identifiers of `pre` stand for falsy values
      (`identVal`: the variable of that name, else the global, else the built-in; `.` is the data;
      falsy = `false`, zero, the empty string, nil …: `Val.isTrue`, tabulated in Props/C05) and the
      identifier of `x` stands for a truthy value, and every fuel ≥ `pre.length + 2`:
      `Template.Execute` succeeds, logs nothing, and its output is exactly `x`'s text items — one literal
      chunk each, in order; nothing of any other clause or of the else text. -/
theorem parsed_if_chain_renders_the_first_truthy_text (cfg : Parse.Cfg) (path name : Bytes)
    (hd : Bytes × List Bytes) (tl : List (Bytes × List Bytes)) (fin : Option (List Bytes))
    (n : Nat) (b : Parse.PSt) (it0 : Parse.Item) (rest : List Parse.Item)
    (hn : n ≥ 10 * chainSize (atom7 hd.1) (textsL hd.2) (tl.map gClause) (fin.map textsL)) :
    ∃ tree s,
      Parse.textOrAction cfg n (Parse.mkS b (chainToks (atom7 hd.1) (textsL hd.2) (tl.map gClause) (fin.map textsL) ++ rest) it0 0) =
        .ok tree (Parse.mkS b rest rd 0) ∧
      eraseS path tree = some s ∧
      s = chainStmt (eClause path hd) (tl.map (eClause path)) (eFin path fin) ∧
      ∀ (env : Env) (blocks : List (Bytes × BlockN)) (vars : List (Bytes × Val)) (data : Val)
        (pre post : List (Bytes × List Bytes)) (x : Bytes × List Bytes) (v : Val) (m : Nat),
        hd :: tl = pre ++ x :: post →
        (∀ y ∈ pre, ∃ w, identVal env vars data y.1 = some w ∧ Val.isTrue w = some false) →
        identVal env vars data x.1 = some v → Val.isTrue v = some true →
        execute (m + pre.length + 2) env (tmplOf name blocks s) vars data = .ok (x.2.map litChunk) [] := by
  refine ⟨_, _, if_chain_is_parsed_as_written cfg _ _ _ _ n b it0 rest hn, eraseS_chainTree path fin tl hd, rfl, ?_⟩
  intro env blocks vars data pre post x v m hsplit hpre hx hv
  exact execute_tmplOf (m + pre.length + 1) env name blocks _ vars data _
    (run_idChain_truthy env path _ vars data hd tl pre post x fin m v hsplit hpre hx hv)

/-- **… every identifier falsy: the else text if there is one, else nothing.** -/
theorem parsed_if_chain_all_falsy_renders_else_text (cfg : Parse.Cfg) (path name : Bytes)
    (hd : Bytes × List Bytes) (tl : List (Bytes × List Bytes)) (fin : Option (List Bytes))
    (n : Nat) (b : Parse.PSt) (it0 : Parse.Item) (rest : List Parse.Item)
    (hn : n ≥ 10 * chainSize (atom7 hd.1) (textsL hd.2) (tl.map gClause) (fin.map textsL)) :
    ∃ tree s,
      Parse.textOrAction cfg n (Parse.mkS b (chainToks (atom7 hd.1) (textsL hd.2) (tl.map gClause) (fin.map textsL) ++ rest) it0 0) =
        .ok tree (Parse.mkS b rest rd 0) ∧
      eraseS path tree = some s ∧
      ∀ (env : Env) (blocks : List (Bytes × BlockN)) (vars : List (Bytes × Val)) (data : Val) (m : Nat),
        (∀ y ∈ hd :: tl, ∃ w, identVal env vars data y.1 = some w ∧ Val.isTrue w = some false) →
        execute (m + tl.length + 2) env (tmplOf name blocks s) vars data = .ok ((fin.getD []).map litChunk) [] := by
  refine ⟨_, _, if_chain_is_parsed_as_written cfg _ _ _ _ n b it0 rest hn, eraseS_chainTree path fin tl hd, ?_⟩
  intro env blocks vars data m hall
  exact execute_tmplOf (m + tl.length + 1) env name blocks _ vars data _
    (run_idChain_allFalsy env path _ vars data hd tl fin m hall)

/-- **… an identifier that is bound nowhere, reached after falsy ones: `Execute` fails with the located
    error "identifier not available" (line 1 of `path`) and has written nothing.** -/
theorem parsed_if_chain_unbound_identifier_fails (env : Env) (path name : Bytes) (blocks : List (Bytes × BlockN))
    (vars : List (Bytes × Val)) (data : Val) (hd : Bytes × List Bytes) (tl pre post : List (Bytes × List Bytes))
    (x : Bytes × List Bytes) (fin : Option (List Bytes)) (m : Nat) (hsplit : hd :: tl = pre ++ x :: post)
    (hpre : ∀ y ∈ pre, ∃ w, identVal env vars data y.1 = some w ∧ Val.isTrue w = some false)
    (hx : identVal env vars data x.1 = none) :
    execute (m + pre.length + 2) env
        (tmplOf name blocks (chainStmt (eClause path hd) (tl.map (eClause path)) (eFin path fin))) vars data =
      .err (notAvailable ⟨path, 1⟩) [] [] := by
  exact execute_tmplOf_err (m + pre.length + 1) env name blocks _ vars data _
    (run_idChain_unbound env path _ vars data hd tl pre post x fin m hsplit hpre hx)

/-! ### worked instances (and non-vacuity: the hypotheses are met) -/

section examples

/-- a boolean literal evaluates to itself at every fuel ≥ 1 and leaves the runtime alone -/
theorem evalExpr_boolLit (n : Nat) (env : Env) (loc : Loc) (b : Bool) (rt : RT) :
    (recAt (n + 1)).evalExpr env (.boolLit loc b) rt = .ok (.bool b) rt := rfl

/-- `_` as a condition fails, at every fuel ≥ 1 -/
theorem evalExpr_underscore (n : Nat) (env : Env) (loc : Loc) (rt : RT) :
    (recAt (n + 1)).evalExpr env (.underscore loc) rt =
      .err { located := true, loc := loc, what := "unexpected node type in unary expression evaluating" } rt := rfl

/-- `{{if false}}b₀{{else if false}}b₁{{else if true}}b₂{{else if c₃}}b₃{{else}}f{{end}}` with ARBITRARY
    bodies and an arbitrary fourth condition `c₃` (it may be one that fails, like `_`): executed at fuel
    `m + 3`, it is `b₂` executed at fuel `m + 1` - two `else if` levels down - and nothing else. -/
example (env : Env) (m : Nat) (ins : Bool) (loc : Loc) (b0 b1 b2 b3 f : List Stmt) (c3 : Expr) (rt : RT) :
    execStmt (recAt (m + 3)) env ins
        (chainStmt ⟨loc, .boolLit loc false, b0⟩
          [⟨loc, .boolLit loc false, b1⟩, ⟨loc, .boolLit loc true, b2⟩, ⟨loc, c3, b3⟩] (some f)) rt =
      stmtRes ins ((recAt (m + 1)).execList env b2 rt) :=
  if_chain_runs_the_first_truthy_branch_pure env m ins _ _ _
    [⟨loc, .boolLit loc false, b0⟩, ⟨loc, .boolLit loc false, b1⟩] ⟨loc, .boolLit loc true, b2⟩ [⟨loc, c3, b3⟩]
    rt (.bool true) rfl
    (by intro c hc n
        simp only [List.mem_cons, List.not_mem_nil, or_false] at hc
        rcases hc with rfl | rfl <;> exact ⟨.bool false, rfl, C05.truthy_bool false⟩)
    rfl (C05.truthy_bool true)

/-- `{{if false}}b₀{{else if false}}b₁{{else if false}}b₂{{else}}f{{end}}`: the else list, at the fuel of
    the third condition; without `{{else}}`: nothing, the runtime is untouched -/
example (env : Env) (M : Nat) (ins : Bool) (loc : Loc) (b0 b1 b2 f : List Stmt) (rt : RT) :
    execStmt (recAt (M + 3)) env ins
        (chainStmt ⟨loc, .boolLit loc false, b0⟩ [⟨loc, .boolLit loc false, b1⟩, ⟨loc, .boolLit loc false, b2⟩] (some f)) rt =
      stmtRes ins ((recAt (M + 1)).execList env f rt) :=
  if_chain_all_falsy_pure env M ins ⟨loc, .boolLit loc false, b0⟩
    [⟨loc, .boolLit loc false, b1⟩, ⟨loc, .boolLit loc false, b2⟩] (some f) rt
    (by intro c hc n
        simp only [List.mem_cons, List.not_mem_nil, or_false] at hc
        rcases hc with rfl | rfl | rfl <;> exact ⟨.bool false, rfl, C05.truthy_bool false⟩)

example (env : Env) (M : Nat) (ins : Bool) (loc : Loc) (b0 b1 b2 : List Stmt) (rt : RT) :
    execStmt (recAt (M + 3)) env ins
        (chainStmt ⟨loc, .boolLit loc false, b0⟩ [⟨loc, .boolLit loc false, b1⟩, ⟨loc, .boolLit loc false, b2⟩] none) rt =
      .ok (.invalid, .invalid, ins) rt :=
  if_chain_all_falsy_pure env M ins ⟨loc, .boolLit loc false, b0⟩
    [⟨loc, .boolLit loc false, b1⟩, ⟨loc, .boolLit loc false, b2⟩] none rt
    (by intro c hc n
        simp only [List.mem_cons, List.not_mem_nil, or_false] at hc
        rcases hc with rfl | rfl | rfl <;> exact ⟨.bool false, rfl, C05.truthy_bool false⟩)

/-- `{{if false}}b₀{{else if _}}b₁{{else if true}}b₂{{end}}`: the second condition fails, so does the chain,
    with that error; `b₂` is not reached although its condition is true -/
example (env : Env) (m : Nat) (ins : Bool) (loc : Loc) (b0 b1 b2 : List Stmt) (rt : RT) :
    execStmt (recAt (m + 2)) env ins
        (chainStmt ⟨loc, .boolLit loc false, b0⟩ [⟨loc, .underscore loc, b1⟩, ⟨loc, .boolLit loc true, b2⟩] none) rt =
      .err { located := true, loc := loc, what := "unexpected node type in unary expression evaluating" } rt :=
  if_chain_condition_failure_is_the_failure env (m + 1) ins _ _ none [⟨loc, .boolLit loc false, b0⟩]
    ⟨loc, .underscore loc, b1⟩ [⟨loc, .boolLit loc true, b2⟩] rt rt rt _ rfl
    (Falsy.of_forall env (m + 1) rt _ (by
      intro c hc n
      simp only [List.mem_cons, List.not_mem_nil, or_false] at hc
      subst hc; exact ⟨.bool false, rfl, C05.truthy_bool false⟩))
    rfl

/-- `{{if a}}x{{else if b}}y{{else if c}}w{{else}}z{{end}}` (bytes: a=97 b=98 c=99 x=120 y=121 w=119 z=122) -/
def exClauses : List (Bytes × List Bytes) := [([98], [[121]]), ([99], [[119]])]
def exHd : Bytes × List Bytes := ([97], [[120]])
def exFin : Option (List Bytes) := some [[122]]

/-- with `a = false`, `b = 0`, `c = "s"`: `a` and `b` are falsy, `c` is the first truthy one, the output is `w` -/
example (cfg : Parse.Cfg) (path name : Bytes) (b : Parse.PSt) (it0 : Parse.Item) :
    ∃ tree s,
      Parse.textOrAction cfg 1000 (Parse.mkS b (chainToks (atom7 exHd.1) (textsL exHd.2) (exClauses.map gClause) (exFin.map textsL) ++ []) it0 0) =
        .ok tree (Parse.mkS b [] rd 0) ∧
      eraseS path tree = some s ∧
      ∀ (env : Env) (blocks : List (Bytes × BlockN)) (data : Val) (m : Nat),
        execute (m + 4) env (tmplOf name blocks s)
          [([97], .bool false), ([98], .int 0), ([99], .str [115])] data = .ok [litChunk [119]] [] := by
  obtain ⟨tree, s, h1, h2, _, h4⟩ := parsed_if_chain_renders_the_first_truthy_text cfg path name exHd exClauses exFin
    1000 b it0 [] (by decide)
  refine ⟨tree, s, h1, h2, ?_⟩
  intro env blocks data m
  exact h4 env blocks _ data [([97], [[120]]), ([98], [[121]])] [] ([99], [[119]]) (.str [115]) m rfl
    (by intro y hy
        simp only [List.mem_cons, List.not_mem_nil, or_false] at hy
        rcases hy with rfl | rfl
        · exact ⟨.bool false, by simp [identVal, alookup, Val.indirectEface], C05.truthy_bool false⟩
        · exact ⟨.int 0, by simp [identVal, alookup, Val.indirectEface], by simp [C05.truthy_int]⟩)
    (by simp [identVal, alookup, Val.indirectEface]) (by simp [C05.truthy_str])

/-- with `a = nil`, `b = ""`, `c = 0`: all falsy, the output is the else text `z` -/
example (path name : Bytes) (env : Env) (blocks : List (Bytes × BlockN)) (data : Val) (m : Nat) :
    execute (m + 4) env (tmplOf name blocks (chainStmt (eClause path exHd) (exClauses.map (eClause path)) (eFin path exFin)))
      [([97], .invalid), ([98], .str []), ([99], .uint 0)] data = .ok [litChunk [122]] [] := by
  refine execute_tmplOf (m + 3) env name blocks _ _ data _
    (run_idChain_allFalsy env path _ _ data exHd exClauses exFin m ?_)
  intro y hy
  simp only [exHd, exClauses, List.mem_cons, List.not_mem_nil, or_false] at hy
  rcases hy with rfl | rfl | rfl
  · exact ⟨.invalid, by simp [identVal, alookup, Val.indirectEface], C05.falsy_nil⟩
  · exact ⟨.str [], by simp [identVal, alookup, Val.indirectEface], by simp [C05.truthy_str]⟩
  · exact ⟨.uint 0, by simp [identVal, alookup, Val.indirectEface], by simp [C05.truthy_uint]⟩

end examples

end JetVerif.Props.C05E
