/-
  C02, the parser part: the recursive-descent parser of parse.go (modelled production by production
  in Model/Parse.lean, compared with the real parser on every run by the stream `parsetree`) never
  panics and reports syntax errors on a line of the source.

  In the model every Go operation of the parser that can panic with a `runtime.Error` or a
  non-error value - what `Template.recover` re-panics - is an explicit `crash` outcome: indexing the
  three-slot look-ahead buffer `t.token[t.peekCount]`, slicing `l.input[:l.lastPos]` in
  `lineNumber`, `ChainNode.Add` on an item without a field name, `ident[1:]` in `newField`.
  The theorems hold for every item sequence the lexer can hand over (`WfItem`: positions inside the
  source, field items of the form `.x…` - checked on every lexed source by the lexer stream), every
  fuel, every literal table and every loader.
-/
import JetVerif.Lemmas.ParseDrain

namespace JetVerif.Props.C02P
open JetVerif JetVerif.Parse

/-- what the parser may assume about the items it receives: every item is positioned inside the
    source and a field item is `.x…` (`WfItem`), and an item of type `itemEOF` is the last item the lexer
    sends (`EofLast`: `lexText` returns nil right after emitting it).  Both are proved of the lexer model for
    every source and delimiter configuration (Props/C02L: `lexer_output_satisfies_parser_assumptions`). -/
abbrev WfItems (input : Bytes) (toks : List Item) : Prop := (∀ t ∈ toks, WfItem input t) ∧ EofLast toks

/-- **The parser never panics** (for every fuel): `parseTemplate` ends in a tree, an error, or - for
    too small a fuel - out of fuel; never in a crash. -/
theorem parser_never_crashes (cfg : Cfg) (name input : Bytes) (toks : List Item) (fuel : Nat)
    (h : WfItems input toks) (w : String) :
    parseTemplate cfg fuel { input := input, name := name, toks := toks } ≠ .crash w := by
  intro hc
  have := parseTemplate_safe input cfg fuel _ (initial_inv input name toks h.1 h.2)
  rw [hc] at this
  exact this

theorem parseItems_never_crashes (cfg : Cfg) (name input : Bytes) (toks : List Item)
    (h : WfItems input toks) (w : String) : parseItems cfg name input toks ≠ .crash w := by
  intro hc
  unfold parseItems at hc
  have := parser_never_crashes cfg name input toks (fuelFor toks) h
  cases hp : parseTemplate cfg (fuelFor toks) { input := input, name := name, toks := toks } with
  | ok r s => rw [hp] at hc; cases r; simp at hc
  | err l m => rw [hp] at hc; simp at hc
  | crash w' => exact this w' hp
  | fuel => rw [hp] at hc; simp at hc
  | unsupported w' => rw [hp] at hc; simp at hc

/-- **A syntax error names a line inside the source**: between 1 and the number of lines. -/
theorem syntax_error_names_a_source_line (cfg : Cfg) (name input : Bytes) (toks : List Item) (fuel : Nat)
    (h : WfItems input toks) (line : Nat) (msg : Msg)
    (he : parseTemplate cfg fuel { input := input, name := name, toks := toks } = .err line msg) :
    1 ≤ line ∧ line ≤ 1 + countNl input := by
  have := parseTemplate_safe input cfg fuel _ (initial_inv input name toks h.1 h.2)
  rw [he] at this
  exact this

/-- **The look-ahead buffer is never overrun**: after a successful parse at most two items are
    pushed back (and the same bound holds before every read, which is what rules out the index panic). -/
theorem buffer_discipline (cfg : Cfg) (name input : Bytes) (toks : List Item) (fuel : Nat)
    (h : WfItems input toks) (r : Nat × List PStmt) (s' : PSt)
    (hk : parseTemplate cfg fuel { input := input, name := name, toks := toks } = .ok r s') :
    s'.peekCount ≤ 2 := by
  have := parseTemplate_safe input cfg fuel _ (initial_inv input name toks h.1 h.2)
  rw [hk] at this
  exact this.2

/-- **A successful parse has received every item the lexer had**: when `parseTemplate` returns a tree the
    channel is empty - the lexer goroutine has sent its last item (`itemEOF`), has left its loop and has
    closed the channel; nothing is left blocked on a send.  (On the error path `Template.recover` drains the
    channel: Props/C02H.) -/
theorem successful_parse_receives_every_item (cfg : Cfg) (name input : Bytes) (toks : List Item) (fuel : Nat)
    (h : WfItems input toks) (r : Nat × List PStmt) (s' : PSt)
    (hk : parseTemplate cfg fuel { input := input, name := name, toks := toks } = .ok r s') :
    s'.toks = [] := by
  have := parseTemplate_drained input cfg fuel _ (initial_inv input name toks h.1 h.2)
  rw [hk] at this
  exact this.2

/-- the same for every expression production on its own, from any well-formed state -/
theorem expression_never_crashes (cfg : Cfg) (input : Bytes) (n : Nat) (ctx : String) (s : PSt)
    (hs : Inv input 2 s) (w : String) : parseExpression cfg n ctx s ≠ .crash w := by
  intro hc
  have := (exprSpecs_all input cfg n).pexpr ctx s hs
  rw [hc] at this
  exact this

/-! non-vacuity: the items of `{{ .a }}` satisfy the hypothesis -/
example : WfItems [123, 123, 32, 46, 97, 32, 125, 125]
    [⟨Tok.leftDelim, 0, [123, 123]⟩, ⟨Tok.space, 2, [32]⟩, ⟨Tok.field, 3, [46, 97]⟩,
     ⟨Tok.space, 5, [32]⟩, ⟨Tok.rightDelim, 6, [125, 125]⟩, ⟨Tok.eof, 8, []⟩] := by
  refine ⟨?_, eofLast_of_dropLast (by decide)⟩
  intro t ht
  simp at ht
  rcases ht with rfl | rfl | rfl | rfl | rfl | rfl <;> refine ⟨by decide, by decide, ?_⟩ <;> intro h <;>
    first | exact ⟨_, _, rfl⟩ | cases h

end JetVerif.Props.C02P
