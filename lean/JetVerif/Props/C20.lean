/-
  C20 — utils.Walk visits every statement and expression node once and never panics.

  `walk_complete` is generic: for any schema and visit table with `covers schema table`, walking a
  schema-conforming tree never crashes and visits exactly the tree's nodes, each once, in order.
  `jet_visitor_covers` instantiates it with the tables regenerated from node.go / utils/visitor.go.
-/
import JetVerif.Model.Visitor
import JetVerif.Generated.Facts

namespace JetVerif.Props.C20
open JetVerif.Visitor

def toRes : Option (List Nat) → Res
  | some l => .ok l
  | none => .fuel

variable (schema : List KindSpec) (tbl : List Arm)

/-- slot-wise alignment of an arm with its kind (the body of `armCovers`) -/
def aligned : List Act → List Slot → Bool
  | [], [] => true
  | a :: as, s :: ss => alignedOne a s && aligned as ss
  | _, _ => false

theorem armCovers_aligned (k : KindSpec) (arm : Arm) (h : armCovers k arm = true) :
    aligned arm.acts k.slots = true := by
  unfold armCovers at h
  simp only [Bool.and_eq_true, beq_iff_eq] at h
  obtain ⟨hl, hz⟩ := h
  generalize arm.acts = acts at *
  generalize k.slots = slots at *
  induction acts generalizing slots with
  | nil => cases slots with
    | nil => rfl
    | cons s ss => simp at hl
  | cons a as ih =>
    cases slots with
    | nil => simp at hl
    | cons s ss =>
      simp only [List.zip_cons_cons, List.all_cons, Bool.and_eq_true] at hz
      simp only [aligned, Bool.and_eq_true]
      exact ⟨hz.1, ih ss (by simpa using hl) hz.2⟩

theorem contains_nonempty {g : String} {gs : List String} (h : gs.contains g = true) : gs.isEmpty = false := by
  cases gs with
  | nil => simp at h
  | cons x xs => rfl

/-- pointwise agreement of `rec`s lifts to lists -/
theorem runList_eq (rw : Tree → Res) (ra : Tree → Option (List Nat)) (rf : Tree → Bool)
    (h : ∀ t, rf t = true → rw t = toRes (ra t)) :
    ∀ ts, wfList rf ts = true → runList rw ts = toRes (optList ra ts) := by
  intro ts
  induction ts with
  | nil => intro _; rfl
  | cons t ts iht =>
    intro hw
    simp only [wfList, Bool.and_eq_true] at hw
    simp only [runList, optList, h t hw.1, iht hw.2]
    cases ra t <;> cases optList ra ts <;> rfl

/-- one action on its slot -/
theorem actOn_eq (rw : Tree → Res) (ra : Tree → Option (List Nat)) (rf : Tree → Bool)
    (h : ∀ t, rf t = true → rw t = toRes (ra t)) (a : Act) (s : Slot) (kid : Option (List Tree))
    (hal : alignedOne a s = true) (hk : wfKid rf s.arity kid = true) :
    actOn rw a kid = toRes (optOn ra kid) := by
  have hlist := runList_eq rw ra rf h
  unfold alignedOne at hal
  simp only [Bool.and_eq_true] at hal
  obtain ⟨_, har⟩ := hal
  have single : ∀ t, rf t = true → a.op ≠ .each → actOn rw a (some [t]) = toRes (optOn ra (some [t])) := by
    intro t ht hop
    have e : rw t = toRes (ra t) := h t ht
    cases hop2 : a.op with
    | each => exact absurd hop2 hop
    | plain => simp only [actOn, hop2, optOn, optList, e]; cases ra t <;> simp [toRes]
    | inline => simp only [actOn, hop2, optOn, optList, e]; cases ra t <;> simp [toRes]
  cases harity : s.arity with
  | one =>
    rw [harity] at har hk
    have hop : a.op ≠ .each := by intro he; rw [he] at har; simp at har
    cases kid with
    | none => simp [wfKid] at hk
    | some ts =>
      cases ts with
      | nil => simp [wfKid] at hk
      | cons t rest =>
        cases rest with
        | nil => exact single t (by simpa [wfKid] using hk) hop
        | cons _ _ => simp [wfKid] at hk
  | opt =>
    rw [harity] at har hk
    simp only [Bool.and_eq_true] at har
    have hop : a.op ≠ .each := by intro he; rw [he] at har; simp at har
    cases kid with
    | none => simp [actOn, optOn, contains_nonempty har.2, toRes]
    | some ts =>
      cases ts with
      | nil => simp [wfKid] at hk
      | cons t rest =>
        cases rest with
        | nil => exact single t (by simpa [wfKid] using hk) hop
        | cons _ _ => simp [wfKid] at hk
  | many =>
    rw [harity] at har hk
    simp only [Bool.and_eq_true, beq_iff_eq] at har
    cases kid with
    | none => simp [wfKid] at hk
    | some ts => simp only [actOn, har.1, optOn]; exact hlist ts (by simpa [wfKid] using hk)
  | optMany =>
    rw [harity] at har hk
    simp only [Bool.and_eq_true, beq_iff_eq] at har
    cases kid with
    | none => simp [actOn, optOn, contains_nonempty har.2, toRes]
    | some ts => simp only [actOn, har.1, optOn]; exact hlist ts (by simpa [wfKid] using hk)

/-- … and to the actions of an arm aligned with the node's slots -/
theorem runActs_eq (rw : Tree → Res) (ra : Tree → Option (List Nat)) (rf : Tree → Bool)
    (h : ∀ t, rf t = true → rw t = toRes (ra t)) :
    ∀ acts slots kids, aligned acts slots = true → wfKids rf slots kids = true →
      runActs rw acts kids = toRes (optActs ra acts kids) := by
  intro acts
  induction acts with
  | nil => intro slots kids _ _; rfl
  | cons a as iha =>
    intro slots kids hal hwf
    cases slots with
    | nil => simp [aligned] at hal
    | cons s ss =>
      cases kids with
      | nil => simp [wfKids] at hwf
      | cons kid kids =>
        simp only [aligned, Bool.and_eq_true] at hal
        simp only [wfKids, Bool.and_eq_true] at hwf
        simp only [runActs, optActs, actOn_eq rw ra rf h a s kid hal.1 hwf.1, iha ss kids hal.2 hwf.2]
        cases optOn ra kid <;> simp only [toRes, seqRes] <;> cases optActs ra as kids <;> rfl

/-- the traversal agrees with the complete node listing, at every fuel -/
theorem walk_all (hc : covers schema tbl = true) : ∀ fuel : Nat,
    (∀ t, wf schema fuel t = true → walk tbl fuel t = toRes (allNodes tbl fuel t)) := by
  intro fuel
  induction fuel with
  | zero => intro t _; cases t; rfl
  | succ f ih =>
    intro t hwf
    cases t with
    | node id kind kids =>
      simp only [wf] at hwf
      cases hk : findKind schema kind with
      | none => simp [hk] at hwf
      | some k =>
        simp only [hk, Bool.and_eq_true, beq_iff_eq] at hwf
        have hmem : k ∈ schema ∧ k.kind = kind := by
          unfold findKind at hk
          have := List.find?_some hk
          exact ⟨List.mem_of_find?_eq_some hk, by simpa using this⟩
        have hcov := List.all_eq_true.mp hc k hmem.1
        rw [hmem.2] at hcov
        cases ha : findArm tbl kind with
        | none => simp [ha] at hcov
        | some arm =>
          simp only [ha] at hcov
          have hal := armCovers_aligned k arm hcov
          simp only [walk, allNodes, ha]
          rw [runActs_eq (walk tbl f) (allNodes tbl f) (wf schema f) ih arm.acts k.slots kids hal hwf.2]
          cases optActs (allNodes tbl f) arm.acts kids <;> rfl

/-- **Generic completeness**: with a covering visit table, walking a schema-conforming tree never
    panics and — given enough fuel for its depth — visits exactly its nodes, each once, in order. -/
theorem walk_complete (hc : covers schema tbl = true) (fuel : Nat) (t : Tree) (l : List Nat)
    (hwf : wf schema fuel t = true) (hall : allNodes tbl fuel t = some l) :
    walk tbl fuel t = .ok l := by
  rw [walk_all schema tbl hc fuel t hwf, hall]
  rfl

theorem walk_never_crashes (hc : covers schema tbl = true) (fuel : Nat) (t : Tree)
    (hwf : wf schema fuel t = true) : ∀ why, walk tbl fuel t ≠ .crash why := by
  intro why h
  rw [walk_all schema tbl hc fuel t hwf] at h
  cases hn : allNodes tbl fuel t <;> rw [hn] at h <;> simp [toRes] at h

/-! ### instantiation with the tables regenerated from /repo -/

/-- struct types of node.go that never occur as a node of a parsed tree: markers consumed by the
    parser, embedded bases, the parameter list (its expressions are slots of block/yield) and the
    catch clause (inlined into its try) -/
def abstractKinds : List String :=
  ["endNode", "contentNode", "elseNode", "BranchNode", "BlockParameterList", "binaryExprNode", "catchNode"]

/-- which child slots the parser may leave nil (hand-written from parse.go; validated on every run
    by checking `wf jetSchema` on the trees the real parser produces) -/
def nilable : List (String × String) :=
  [("ActionNode", "Set"), ("ActionNode", "Pipe"), ("IfNode", "Set"), ("IfNode", "ElseList"),
   ("RangeNode", "Set"), ("RangeNode", "Expression"), ("RangeNode", "ElseList"),
   ("BlockNode", "Expression"), ("BlockNode", "Content"),
   ("YieldNode", "Parameters"), ("YieldNode", "Expression"), ("YieldNode", "Content"),
   ("IncludeNode", "Context"), ("AdditiveExprNode", "Left"),
   ("SliceExprNode", "Index"), ("SliceExprNode", "EndIndex"),
   ("TryNode", "Catch.Err"), ("TryNode", "Catch.List")]

def guardOf (path : String) : String := if path == "Catch.List" then "Catch" else path

def slotOf (kind : String) (f : String × String) : Slot :=
  let isNil := nilable.contains (kind, f.1)
  { path := f.1, guardBy := guardOf f.1,
    arity := if f.2 == "slice" then .many
             else if f.2 == "paramsPtr" then (if isNil then .optMany else .many)
             else (if isNil then .opt else .one) }

/-- the schema of parsed trees, derived from the regenerated struct declarations -/
def jetSchema : List KindSpec :=
  (Facts.nodeStructs.filter (fun k => !abstractKinds.contains k.1)).map
    (fun k => { kind := k.1, slots := k.2.map (slotOf k.1) })

/-- the extractor understood every construct of utils/visitor.go -/
theorem visitor_shape_understood : Facts.visitorShapeOk = true := by decide

/-- **The visitor of /repo covers the schema of /repo**: every node kind has an arm, and each arm
    visits each child slot exactly once, in order, with every nil-able slot guarded. -/
theorem jet_visitor_covers : covers jetSchema Facts.visitArms = true := by decide

/-- hence `utils.Walk` never panics on, and visits exactly the nodes of, every tree that conforms
    to the schema (what the parser produces) -/
theorem jet_walk_complete (fuel : Nat) (t : Tree) (l : List Nat)
    (hwf : wf jetSchema fuel t = true) (hall : allNodes Facts.visitArms fuel t = some l) :
    walk Facts.visitArms fuel t = .ok l :=
  walk_complete jetSchema Facts.visitArms jet_visitor_covers fuel t l hwf hall

theorem jet_walk_never_panics (fuel : Nat) (t : Tree) (hwf : wf jetSchema fuel t = true) :
    ∀ why, walk Facts.visitArms fuel t ≠ .crash why :=
  walk_never_crashes jetSchema Facts.visitArms jet_visitor_covers fuel t hwf

/-- non-vacuity: `{{include "x"}}` as a tree (List → Include → String) is walked completely -/
example : walk Facts.visitArms 4
    (.node 0 "ListNode" [some [.node 1 "IncludeNode" [some [.node 2 "StringNode" []], none]]]) = .ok [0, 1, 2] := by
  decide

end JetVerif.Props.C20
