/-
  C16 — Cache coherence: identical hits, failures never cached, dev mode reloads, Parse never
  caches, extensions in configured order.   Model: JetVerif/Model/SetM.lean.
-/
import JetVerif.Model.SetM

namespace JetVerif.Props.C16
open JetVerif.SetM JetVerif.Path

/-- `s'` extends `s`'s call trace by events that all satisfy `P`; loader contents, mode and
    extension list are untouched -/
structure Step (P : Ev → Prop) (s s' : SetSt) : Prop where
  trace : ∃ evs, s'.trace = evs ++ s.trace ∧ ∀ e ∈ evs, P e
  files : s'.files = s.files
  dev : s'.dev = s.dev
  exts : s'.exts = s.exts

theorem Step.refl (P : Ev → Prop) (s : SetSt) : Step P s s := ⟨⟨[], rfl, by simp⟩, rfl, rfl, rfl⟩

theorem Step.trans {P : Ev → Prop} {a b c : SetSt} (h1 : Step P a b) (h2 : Step P b c) : Step P a c := by
  obtain ⟨e1, t1, p1⟩ := h1.trace
  obtain ⟨e2, t2, p2⟩ := h2.trace
  refine ⟨⟨e2 ++ e1, by rw [t2, t1, List.append_assoc], ?_⟩, h2.files.trans h1.files, h2.dev.trans h1.dev, h2.exts.trans h1.exts⟩
  intro e he
  rcases List.mem_append.mp he with h | h
  · exact p2 e h
  · exact p1 e h

theorem Step.ev {P : Ev → Prop} (s : SetSt) (e : Ev) (h : P e) : Step P s (ev e s) :=
  ⟨⟨[e], rfl, by simpa using h⟩, rfl, rfl, rfl⟩

theorem Step.mono {P Q : Ev → Prop} {a b : SetSt} (h : Step P a b) (hpq : ∀ e, P e → Q e) : Step Q a b := by
  obtain ⟨evs, t, p⟩ := h.trace
  exact ⟨⟨evs, t, fun e he => hpq e (p e he)⟩, h.files, h.dev, h.exts⟩

def isGet : Ev → Prop
  | .get _ => True
  | _ => False

def isLoaderEv : Ev → Prop
  | .exists_ _ => True
  | .open_ _ => True
  | _ => False

def notPut : Ev → Prop
  | .put _ _ => False
  | _ => True

/-! ### the cache probe -/

/-- what the cache probe answers is a function of the cache contents only: the entry stored under
    the request path -/
def fromCachePure (cache : List (Bytes × Nat)) (_exts : List Bytes) (p : Bytes) : Option Nat :=
  lookupP p cache

theorem fromCache_spec (s : SetSt) (p : Bytes) :
    (fromCache s p).1 = fromCachePure s.cache s.exts p ∧ (fromCache s p).2.cache = s.cache ∧
    Step isGet s (fromCache s p).2 :=
  ⟨rfl, rfl, Step.ev s _ trivial⟩

/-! ### what every lookup may do, by mode and caching flag -/

def allowed (dev cacheAfter : Bool) : Ev → Prop
  | .exists_ _ => True
  | .open_ _ => True
  | .get _ => dev = false
  | .put _ _ => dev = false ∧ cacheAfter = true

/-- calls allowed + the cache itself only changes when caching is on and dev mode is off -/
structure Frame (c : Bool) (s s' : SetSt) : Prop where
  step : Step (allowed s.dev c) s s'
  cache : s'.cache = s.cache ∨ (s.dev = false ∧ c = true)

theorem Frame.refl (c : Bool) (s : SetSt) : Frame c s s := ⟨Step.refl _ _, .inl rfl⟩

theorem Frame.trans {c : Bool} {a b d : SetSt} (h1 : Frame c a b) (h2 : Frame c b d) : Frame c a d := by
  refine ⟨h1.step.trans (by have := h2.step; rw [h1.step.dev] at this; exact this), ?_⟩
  rcases h1.cache with e1 | e1
  · rcases h2.cache with e2 | e2
    · exact .inl (e2.trans e1)
    · exact .inr ⟨by rw [← h1.step.dev]; exact e2.1, e2.2⟩
  · exact .inr e1

theorem frame_ev_loader (c : Bool) (s : SetSt) (e : Ev) (h : isLoaderEv e) : Frame c s (ev e s) := by
  refine ⟨Step.ev s e ?_, .inl rfl⟩
  cases e <;> simp_all [isLoaderEv, allowed]

theorem frame_probeLoader (c : Bool) (s : SetSt) (p : Bytes) (es : List Bytes) :
    Frame c s (probeLoader s p es).2 := by
  induction es generalizing s with
  | nil => exact Frame.refl c s
  | cons e es ih =>
    simp only [probeLoader]
    split
    · exact frame_ev_loader c s (.exists_ (p ++ e)) trivial
    · exact (frame_ev_loader c s (.exists_ (p ++ e)) trivial).trans (ih _)

theorem frame_fromCache (c : Bool) (s : SetSt) (p : Bytes) (hdev : s.dev = false) :
    Frame c s (fromCache s p).2 := by
  have h := fromCache_spec s p
  refine ⟨h.2.2.mono ?_, .inl h.2.1⟩
  intro e he
  cases e <;> simp_all [isGet, allowed]

/-- the frame property for the three mutually recursive functions, at every fuel -/
theorem frame_all : ∀ fuel : Nat,
    (∀ s p c ps, Frame c s (getTemplate fuel s p c ps).2) ∧
    (∀ s n c ps, Frame c s (loadFromFile fuel s n c ps).2) ∧
    (∀ s n refs c ps, Frame c s (refsLoop fuel s n refs c ps).2) := by
  intro fuel
  induction fuel with
  | zero => exact ⟨fun s _ c _ => Frame.refl c s, fun s _ c _ => Frame.refl c s, fun s _ _ c _ => Frame.refl c s⟩
  | succ f ih =>
    obtain ⟨ihG, ihL, ihR⟩ := ih
    refine ⟨?_, ?_, ?_⟩
    · intro s p c ps
      simp only [getTemplate]
      -- the cache probe
      have hprobe : Frame c s (if s.dev = true then ((none : Option Nat), s) else fromCache s p).2 := by
        split
        · exact Frame.refl c s
        · rename_i hd
          exact frame_fromCache c s p (by cases h : s.dev <;> simp_all)
      revert hprobe
      generalize (if s.dev = true then ((none : Option Nat), s) else fromCache s p) = hit
      intro hprobe
      obtain ⟨hit1, s1⟩ := hit
      cases hit1 with
      | some id => exact hprobe
      | none =>
        simp only
        have hpl := frame_probeLoader c s1 p s1.exts
        revert hpl
        generalize probeLoader s1 p s1.exts = pl
        intro hpl
        obtain ⟨found, s2⟩ := pl
        cases found with
        | none => exact hprobe.trans hpl
        | some canonical =>
          simp only
          have hl := ihL s2 canonical c ps
          revert hl
          generalize loadFromFile f s2 canonical c ps = lf
          intro hl
          obtain ⟨res, s3⟩ := lf
          have h123 : Frame c s s3 := (hprobe.trans hpl).trans hl
          cases res with
          | ok id =>
            simp only
            split
            · rename_i hc
              simp only [Bool.and_eq_true, Bool.not_eq_true'] at hc
              have hdev : s.dev = false := by rw [← h123.step.dev]; exact hc.2
              refine ⟨?_, .inr ⟨hdev, hc.1⟩⟩
              have e : Step (allowed s.dev c) s3 (ev (.put p id) { s3 with cache := (p, id) :: s3.cache }) :=
                ⟨⟨[.put p id], rfl, by intro e he; simp at he; subst he; exact ⟨hdev, hc.1⟩⟩, rfl, rfl, rfl⟩
              exact h123.step.trans e
            · exact h123
          | err => exact h123
          | fuel => exact h123
    · intro s n c ps
      simp only [loadFromFile]
      split
      · exact Frame.refl c s
      · have h1 := frame_ev_loader c s (.open_ n) trivial
        cases hf : lookupP n s.files with
        | none => exact h1
        | some st =>
          cases st with
          | ok cnt =>
            simp only
            have hr := ihR (ev (.open_ n) s) n cnt.refs c (ps ++ [n])
            revert hr
            generalize refsLoop f (ev (.open_ n) s) n cnt.refs c (ps ++ [n]) = rl
            intro hr
            obtain ⟨res, s2⟩ := rl
            have h12 : Frame c s s2 := h1.trans hr
            cases res with
            | ok id =>
              simp only
              split
              · exact h12
              · exact ⟨⟨h12.step.trace, h12.step.files, h12.step.dev, h12.step.exts⟩, h12.cache⟩
            | err => exact h12
            | fuel => exact h12
          | openFails => exact h1
          | readFails => exact h1
    · intro s n refs c ps
      cases refs with
      | nil => simp only [refsLoop]; exact Frame.refl c s
      | cons r rest =>
        simp only [refsLoop]
        have hg := ihG s (resolveSibling r n) c ps
        revert hg
        generalize getTemplate f s (resolveSibling r n) c ps = g
        intro hg
        obtain ⟨res, s1⟩ := g
        cases res with
        | ok id => exact hg.trans (ihR s1 n rest c ps)
        | err => exact hg
        | fuel => exact hg

/-- **Development mode always goes to the loader**: no lookup calls `Cache.Get` or `Cache.Put`. -/
theorem dev_mode_never_uses_cache (fuel : Nat) (s : SetSt) (p : Bytes) (c : Bool) (ps : List Bytes)
    (hdev : s.dev = true) : Step isLoaderEv s (getTemplate fuel s p c ps).2 ∧ (getTemplate fuel s p c ps).2.cache = s.cache := by
  have h := (frame_all fuel).1 s p c ps
  refine ⟨h.step.mono ?_, ?_⟩
  · intro e he
    cases e <;> simp_all [allowed, isLoaderEv]
  · rcases h.cache with e | e
    · exact e
    · simp [hdev] at e

/-- **Parse never caches**: with `cacheAfterParsing = false` nothing — neither the template nor what
    its extends/import clauses pull in — is put into the cache. -/
theorem parse_never_caches (fuel : Nat) (s : SetSt) (n : Bytes) (refs : List Bytes) (ps : List Bytes) :
    Step notPut s (refsLoop fuel s n refs false ps).2 ∧ (refsLoop fuel s n refs false ps).2.cache = s.cache := by
  have h := (frame_all fuel).2.2 s n refs false ps
  refine ⟨h.step.mono ?_, ?_⟩
  · intro e he
    cases e <;> simp_all [allowed, notPut]
  · rcases h.cache with e | e
    · exact e
    · simp at e

theorem parseOp_never_caches (fuel : Nat) (s : SetSt) (name : Bytes) (c : Content) :
    (parseOp fuel s name c).2.cache = s.cache := by
  unfold parseOp
  cases parseName name with
  | none => rfl
  | some n =>
    simp only
    have h := parse_never_caches fuel s n c.refs [n]
    revert h
    generalize refsLoop fuel s n c.refs false [n] = rl
    intro h
    obtain ⟨res, s2⟩ := rl
    cases res with
    | ok id => simp only; split <;> exact h.2
    | err => exact h.2
    | fuel => exact h.2

/-- **Extensions are tried strictly in the configured order and the first existing file wins.** -/
theorem extension_order (s : SetSt) (p : Bytes) (pre post : List Bytes) (e : Bytes)
    (hpre : ∀ x ∈ pre, (lookupP (p ++ x) s.files).isSome = false)
    (he : (lookupP (p ++ e) s.files).isSome = true) :
    (probeLoader s p (pre ++ e :: post)).1 = some (p ++ e) ∧
    (probeLoader s p (pre ++ e :: post)).2.trace =
      (Ev.exists_ (p ++ e)) :: (pre.map (fun x => Ev.exists_ (p ++ x))).reverse ++ s.trace := by
  induction pre generalizing s with
  | nil => simp [probeLoader, he, ev]
  | cons x xs ih =>
    have hx := hpre x (by simp)
    simp only [List.cons_append, probeLoader, hx, Bool.false_eq_true, if_false]
    have := ih (ev (.exists_ (p ++ x)) s) (fun y hy => hpre y (by simp [hy])) he
    simp only [ev] at this ⊢
    refine ⟨this.1, ?_⟩
    rw [this.2]
    simp

/-- nothing exists: every extension is probed, in order, and the lookup fails -/
theorem all_extensions_probed_on_miss (s : SetSt) (p : Bytes) (es : List Bytes)
    (h : ∀ x ∈ es, (lookupP (p ++ x) s.files).isSome = false) :
    (probeLoader s p es).1 = none ∧
    (probeLoader s p es).2.trace = (es.map (fun x => Ev.exists_ (p ++ x))).reverse ++ s.trace := by
  induction es generalizing s with
  | nil => simp [probeLoader]
  | cons x xs ih =>
    have hx := h x (by simp)
    simp only [probeLoader, hx, Bool.false_eq_true, if_false]
    have := ih (ev (.exists_ (p ++ x)) s) (fun y hy => h y (by simp [hy]))
    simp only [ev] at this ⊢
    refine ⟨this.1, ?_⟩
    rw [this.2]
    simp

/-- **A hit is identical and silent.**  Outside development mode, once `GetTemplate` has answered
    for a path, asking again returns the *same* template and touches the cache only: no loader
    call at all. (Any fuel, any referring context.) -/
theorem second_lookup_is_identical_and_silent (f1 f2 : Nat) (s s' : SetSt) (p : Bytes) (parsing parsing' : List Bytes)
    (id : Nat) (hdev : s.dev = false)
    (h : getTemplate (f1 + 1) s p true parsing = (.ok id, s')) :
    ∃ s'', getTemplate (f2 + 1) s' p true parsing' = (.ok id, s'') ∧ Step isGet s' s'' := by
  -- after the first call the cache probe for p answers id
  have key : fromCachePure s'.cache s'.exts p = some id ∧ s'.dev = false := by
    simp only [getTemplate, hdev, Bool.false_eq_true, if_false] at h
    have fc := fromCache_spec s p
    cases hh : fromCache s p with
    | mk hit s1 =>
      rw [hh] at h fc
      cases hit with
      | some id0 =>
        simp only [Prod.mk.injEq, R.ok.injEq] at h
        obtain ⟨rfl, rfl⟩ := h
        exact ⟨by rw [fc.2.1, fc.2.2.exts]; exact fc.1.symm, by rw [fc.2.2.dev]; exact hdev⟩
      | none =>
        simp only at h
        cases hp : probeLoader s1 p s1.exts with
        | mk found s2 =>
          rw [hp] at h
          cases found with
          | none => simp at h
          | some canonical =>
            simp only at h
            cases hl : loadFromFile f1 s2 canonical true parsing with
            | mk res s3 =>
              rw [hl] at h
              cases res with
              | ok id1 =>
                simp only [Bool.true_and] at h
                have hd' : s3.dev = false := by
                  have e1 : s1.dev = s.dev := fc.2.2.dev
                  have e2 : s2.dev = s1.dev := by
                    have := (frame_probeLoader true s1 p s1.exts).step.dev; rw [hp] at this; exact this
                  have e3 : s3.dev = s2.dev := by
                    have := ((frame_all f1).2.1 s2 canonical true parsing).step.dev; rw [hl] at this; exact this
                  rw [e3, e2, e1]; exact hdev
                · simp [hd'] at h
                  obtain ⟨rfl, rfl⟩ := h
                  exact ⟨by simp [fromCachePure, ev, lookupP], by simp [ev, hd']⟩
              | err => simp at h
              | fuel => simp at h
  refine ⟨(fromCache s' p).2, ?_, (fromCache_spec s' p).2.2⟩
  simp only [getTemplate, key.2, Bool.false_eq_true, if_false]
  have fc := fromCache_spec s' p
  rw [key.1] at fc
  cases hh : fromCache s' p with
  | mk hit s1 =>
    rw [hh] at fc
    simp only at fc
    rw [fc.1]

theorem probeLoader_cache (p : Bytes) : ∀ (es : List Bytes) (s : SetSt), (probeLoader s p es).2.cache = s.cache := by
  intro es
  induction es with
  | nil => intro s; rfl
  | cons e es ih =>
    intro s
    simp only [probeLoader]
    split
    · rfl
    · rw [ih]; rfl

/-- **A name that is not remembered is resolved by the extension order.**  Outside development mode,
    when nothing is cached under the request path itself, the lookup loads exactly the first
    candidate `p ++ e` (in the configured order) that exists in the loader - whatever else the cache
    holds, in particular entries of other names that happen to equal `p ++ extension`. -/
theorem unremembered_name_follows_extension_order (fuel : Nat) (s : SetSt) (p : Bytes) (c : Bool) (ps : List Bytes)
    (pre post : List Bytes) (e : Bytes) (hexts : s.exts = pre ++ e :: post)
    (hmiss : lookupP p s.cache = none)
    (hpre : ∀ x ∈ pre, (lookupP (p ++ x) s.files).isSome = false)
    (he : (lookupP (p ++ e) s.files).isSome = true) :
    ∃ s2, s2.files = s.files ∧ s2.cache = s.cache ∧
      getTemplate (fuel + 1) s p c ps =
        (match loadFromFile fuel s2 (p ++ e) c ps with
         | (.ok id, s3) =>
           if c && !s3.dev then (.ok id, ev (.put p id) { s3 with cache := (p, id) :: s3.cache }) else (.ok id, s3)
         | other => other) := by
  -- the state after the (missed) cache probe
  let s1 : SetSt := (if s.dev = true then ((none : Option Nat), s) else fromCache s p).2
  have hhit : (if s.dev = true then ((none : Option Nat), s) else fromCache s p) = (none, s1) := by
    by_cases hd : s.dev = true
    · simp [s1, hd]
    · simp [s1, hd, fromCache, cacheGet, hmiss]
  have hs1f : s1.files = s.files := by
    by_cases hd : s.dev = true <;> simp [s1, hd, fromCache, cacheGet, ev]
  have hs1c : s1.cache = s.cache := by
    by_cases hd : s.dev = true <;> simp [s1, hd, fromCache, cacheGet, ev]
  have hs1e : s1.exts = s.exts := by
    by_cases hd : s.dev = true <;> simp [s1, hd, fromCache, cacheGet, ev]
  have hord := extension_order s1 p pre post e (by rw [hs1f]; exact hpre) (by rw [hs1f]; exact he)
  refine ⟨(probeLoader s1 p (pre ++ e :: post)).2, ?_, ?_, ?_⟩
  · rw [(frame_probeLoader c s1 p (pre ++ e :: post)).step.files]; exact hs1f
  · rw [probeLoader_cache]; exact hs1c
  · simp only [getTemplate]
    rw [hhit]
    simp only [hs1e, hexts]
    cases hpl : probeLoader s1 p (pre ++ e :: post) with
    | mk r s2 =>
      rw [hpl] at hord
      simp only at hord
      rw [hord.1]
      rfl

end JetVerif.Props.C16
