/-
  C14 — pipelines, prefix calls and piped-argument slots are equivalent to plain calls.
  Model: `Args`, `Args.get`, `Args.num`, `evaluateArgs`, `evalArgsLoop`, `pipelineLoop`,
  `evalPipeline`, `evalCommandPipe` in JetVerif/Model/Eval.lean; the built-in table is regenerated
  from default.go (Facts.builtinTable).
-/
import JetVerif.Generated.Facts
import JetVerif.Lemmas.EvalGood

namespace JetVerif.Props.C14
open JetVerif JetVerif.Eval

variable (r : Rec) (env : Env)

/-- `e` is a *value expression* for `v`: it is not the slot marker and evaluating it yields `v`
    in every runtime state without changing the state (a literal, a variable, `.`, an index into
    one …).  The property speaks about the same `x` written before the pipe or inside the
    parentheses; for that to be one value, evaluating `x` must not depend on when it happens. -/
def ValueExpr (e : Expr) (v : Val) : Prop :=
  isUnderscore e = false ∧ ∀ rt, r.evalExpr env e rt = .ok v rt

theorem ValueExpr.eval_eq {e : Expr} {v : Val} (h : ValueExpr r env e v) : r.evalExpr env e = pure v :=
  funext fun rt => h.2 rt

/-- the written argument list with every slot marker replaced by `xe` -/
def fill (xe : Expr) (es : List Expr) : List Expr := es.map fun e => if isUnderscore e then xe else e

def NoSlot (es : List Expr) : Prop := ∀ e ∈ es, isUnderscore e = false

/-- forget the text of a returned error (`x | f` and `f(x)` word the same failure differently:
    "piped first argument …" vs "argument …") -/
def forget {α} : Except String α → Option α
  | .ok a => some a
  | .error _ => none

def resForget {α} : Res (Except String α) → Res (Option α)
  | .ok a rt => .ok (forget a) rt
  | .err e rt => .err e rt
  | .crash m rt => .crash m rt
  | .fuel => .fuel
  | .unsupported w => .unsupported w

/-! ### reflected Go functions: `evaluateArgs` -/

/-- without slot markers in the list the loop never looks at the piped value -/
theorem evalArgsLoop_noSlot (sig : Sig) (a a' : Args) :
    ∀ (es : List Expr) (slot : Nat) (acc : List Val), NoSlot es →
      evalArgsLoop r env sig a es slot acc = evalArgsLoop r env sig a' es slot acc := by
  intro es
  induction es with
  | nil => intro slot acc _; rfl
  | cons e es ih =>
    intro slot acc hn
    have he : isUnderscore e = false := hn e (by simp)
    have hes : NoSlot es := fun x hx => hn x (by simp [hx])
    unfold evalArgsLoop
    simp only [he, Bool.false_eq_true, if_false]
    cases sig.tyAt slot with
    | none => rfl
    | some t =>
      simp only
      congr 1
      funext v
      congr 1
      funext c
      cases c with
      | ok x => exact ih (slot + 1) (x :: acc) hes
      | error m => rfl

/-- the loop over a list with slot markers, given the piped value, is the loop over the filled list -/
theorem evalArgsLoop_fill (sig : Sig) (es0 : List Expr) (a' : Args) (xe : Expr) (p : Val)
    (hx : ValueExpr r env xe p) :
    ∀ (es : List Expr) (slot : Nat) (acc : List Val),
      evalArgsLoop r env sig ⟨es0, true, some p⟩ es slot acc =
      evalArgsLoop r env sig a' (fill xe es) slot acc := by
  intro es
  induction es with
  | nil => intro slot acc; rfl
  | cons e es ih =>
    intro slot acc
    simp only [fill, List.map_cons]
    unfold evalArgsLoop
    cases sig.tyAt slot with
    | none => rfl
    | some t =>
      simp only
      have hv : (if isUnderscore e = true then (pure p : M Val) else r.evalExpr env e) =
          (if isUnderscore (if isUnderscore e = true then xe else e) = true then
              (match a'.piped with
               | some p => pure p
               | none => crash "nil pointer dereference (no piped value)")
            else r.evalExpr env (if isUnderscore e = true then xe else e)) := by
        by_cases hu : isUnderscore e = true
        · simp [hu, hx.1, hx.eval_eq]
        · simp [hu]
      rw [hv]
      congr 1
      funext v
      congr 1
      funext c
      cases c with
      | ok x => exact ih (slot + 1) (x :: acc)
      | error m => rfl

/-- **`x | f(a, _, b)` is `f(a, x, b)`** for reflected Go functions of every signature (variadic
    tails included), every argument list, every slot position (several markers included) and every
    runtime state: the evaluated, converted argument vector — or the returned error, or the panic —
    is the same. -/
theorem slot_call_eq_plain_call (sig : Sig) (es : List Expr) (xe : Expr) (p : Val)
    (hx : ValueExpr r env xe p) :
    evaluateArgs r env sig ⟨es, true, some p⟩ = evaluateArgs r env sig ⟨fill xe es, false, none⟩ := by
  unfold evaluateArgs
  simp only [Args.num, fill, List.length_map, Option.isSome_some, Bool.not_true, Bool.and_false,
    Option.isNone_some, Bool.and_self, Bool.false_eq_true, if_false, Option.isSome_none, Bool.false_and,
    Option.isNone_none, Bool.and_true]
  split
  · rfl
  · exact evalArgsLoop_fill r env sig es _ xe p hx es 0 []

theorem convArg_cases (t : Ty) (v : Val) (w1 w2 : String) :
    (∃ x, convArg t v w1 = .ok (.ok x) ∧ convArg t v w2 = .ok (.ok x)) ∨
    (∃ m1 m2, convArg t v w1 = .ok (.error m1) ∧ convArg t v w2 = .ok (.error m2)) ∨
    (∃ f, convArg t v w1 = .error f ∧ convArg t v w2 = .error f) := by
  unfold convArg
  by_cases hv : v.isValid = true
  · simp only [hv, Bool.not_true, Bool.false_eq_true, if_false]
    cases h : convertArg t v with
    | error f => right; right; exact ⟨f, rfl, rfl⟩
    | ok o =>
      cases o with
      | none => right; left; exact ⟨_, _, rfl, rfl⟩
      | some x => left; exact ⟨x, rfl, rfl⟩
  · simp only [hv, Bool.not_false, if_true]
    right; left; exact ⟨_, _, rfl, rfl⟩

/-- **`x | f(a, b)` (and `x | f: a, b`) is `f(x, a, b)`** for reflected Go functions of every
    signature and argument list, in every runtime state: the same argument vector, or a returned
    error in both (worded differently), or the same panic. -/
theorem piped_call_eq_plain_call (sig : Sig) (es : List Expr) (xe : Expr) (p : Val)
    (hx : ValueExpr r env xe p) (hes : NoSlot es) (rt : RT) :
    resForget (evaluateArgs r env sig ⟨es, false, some p⟩ rt) =
    resForget (evaluateArgs r env sig ⟨xe :: es, false, none⟩ rt) := by
  unfold evaluateArgs
  simp only [Args.num, List.length_cons, Option.isSome_some, Bool.not_false, Bool.and_true,
    Bool.false_and, Bool.false_eq_true, if_false, if_true, Option.isSome_none, Option.isNone_none]
  split
  · rfl
  · -- counts are fine
    conv => rhs; unfold evalArgsLoop
    simp only [hx.1, Bool.false_eq_true, if_false]
    cases sig.tyAt 0 with
    | none => rfl
    | some t =>
      simp only
      rw [bind_ok (hx.2 rt)]
      rcases convArg_cases t p "piped first argument" "argument" with ⟨x, h1, h2⟩ | ⟨m1, m2, h1, h2⟩ | ⟨f, h1, h2⟩
      · rw [bind_ok (a := Except.ok x) (rt1 := rt) (by rw [h1]; rfl),
            bind_ok (a := Except.ok x) (rt1 := rt) (by rw [h2]; rfl)]
        simp only
        rw [evalArgsLoop_noSlot r env sig _ ⟨xe :: es, false, none⟩ es 1 [x] hes]
      · rw [bind_ok (a := Except.error m1) (rt1 := rt) (by rw [h1]; rfl),
            bind_ok (a := Except.error m2) (rt1 := rt) (by rw [h2]; rfl)]
        rfl
      · cases f with
        | err e =>
          rw [bind_err (e := e) (rt1 := rt) (by rw [h1]; rfl), bind_err (e := e) (rt1 := rt) (by rw [h2]; rfl)]
        | crash s =>
          rw [bind_crash (s := s) (rt1 := rt) (by rw [h1]; rfl), bind_crash (s := s) (rt1 := rt) (by rw [h2]; rfl)]
        | unsupported w =>
          rw [bind_unsupported (w := w) (by rw [h1]; rfl), bind_unsupported (w := w) (by rw [h2]; rfl)]

/-! ### jet.Func values: `Arguments.Get` / `NumOfArguments` -/

/-- `NumOfArguments` counts the implicit piped argument -/
theorem num_piped_eq_plain (es : List Expr) (xe : Expr) (p : Val) :
    (Args.mk es false (some p)).num = (Args.mk (xe :: es) false none).num := by
  simp [Args.num]

theorem num_slot_eq_plain (es : List Expr) (xe : Expr) (p : Val) :
    (Args.mk es true (some p)).num = (Args.mk (fill xe es) false none).num := by
  simp [Args.num, fill]

/-- `x | f(a, b)`: `Get(0)` is the piped value — what `Get(0)` is in `f(x, a, b)` -/
theorem get_piped_zero (es : List Expr) (xe : Expr) (p : Val) (hx : ValueExpr r env xe p) :
    Args.get r env ⟨es, false, some p⟩ 0 = Args.get r env ⟨xe :: es, false, none⟩ 0 := by
  simp [Args.get, Args.exprAt, hx.1, hx.eval_eq]

/-- `x | f(a, b)`: `Get(i+1)` is the `i`-th written argument — what `Get(i+1)` is in `f(x, a, b)` -/
theorem get_piped_succ (es : List Expr) (xe : Expr) (p : Val) (hes : NoSlot es) (i : Nat) :
    Args.get r env ⟨es, false, some p⟩ (i + 1) = Args.get r env ⟨xe :: es, false, none⟩ (i + 1) := by
  simp only [Args.get, Bool.not_false, if_true, Nat.add_sub_cancel, Args.exprAt, List.getElem?_cons_succ]
  have : (i + 1 == 0) = false := by simp
  simp only [this, Bool.false_eq_true, if_false]
  cases h : es[i]? with
  | none => rfl
  | some e =>
    have he : isUnderscore e = false := hes e (List.mem_of_getElem? h)
    simp [he]

/-- `x | f(a, _, b)`: `Get(i)` is what `Get(i)` is in `f(a, x, b)`, for every `i` -/
theorem get_slot_eq_plain (es : List Expr) (xe : Expr) (p : Val) (hx : ValueExpr r env xe p) (i : Nat) :
    Args.get r env ⟨es, true, some p⟩ i = Args.get r env ⟨fill xe es, false, none⟩ i := by
  simp only [Args.get, Bool.not_true, Bool.false_eq_true, if_false, Args.exprAt, fill, List.getElem?_map]
  cases h : es[i]? with
  | none => rfl
  | some e =>
    by_cases hu : isUnderscore e = true
    · simp [hu, hx.1, hx.eval_eq]
    · simp [hu]

/-! ### pipelines -/

/-- one stage of a pipeline: refuse to run after a SafeWriter stage, otherwise evaluate the
    command once with the value piped in -/
def stage (c : Cmd) (acc : Val × Bool) : M (Val × Bool) :=
  if acc.2 then errAt c.loc "unexpected command, writer command should be the last command"
  else evalCommandPipe r env c acc.1

/-- **A pipeline is the left-to-right composition of its stages, each evaluated exactly once.** -/
theorem pipeline_is_fold_of_stages (cs : List Cmd) :
    ∀ acc, pipelineLoop r env acc cs = cs.foldlM (fun a c => stage r env c a) acc := by
  induction cs with
  | nil => intro acc; rfl
  | cons c cs ih =>
    intro acc
    rw [List.foldlM_cons]
    unfold pipelineLoop stage
    by_cases h : acc.2 = true
    · simp only [h, if_true]
      funext rt
      rfl
    · simp only [h, Bool.false_eq_true, if_false]
      congr 1
      funext nxt
      exact ih nxt

theorem evalPipeline_eq (loc : Loc) (c0 : Cmd) (rest : List Cmd) :
    evalPipeline r env ⟨loc, c0 :: rest⟩ =
      (evalCommand r env c0 >>= fun first => rest.foldlM (fun a c => stage r env c a) first) := by
  unfold evalPipeline
  simp only
  congr 1
  funext first
  exact pipeline_is_fold_of_stages r env rest first

/-- **A SafeWriter stage may only come last**: any command after it is an error carrying the
    file and line of that command, and the command is not evaluated. -/
theorem safewriter_must_be_last (v : Val) (c : Cmd) (cs : List Cmd) (rt : RT) :
    ∃ e, pipelineLoop r env (v, true) (c :: cs) rt = .err e rt ∧ e.located = true ∧ e.loc = c.loc := by
  unfold pipelineLoop
  exact ⟨_, rfl, rfl, rfl⟩

/-- a SafeWriter stage writes the piped value through the writer and yields no value -/
theorem safewriter_stage (c : Cmd) (sw : String) (v : Val) (rt rt1 : RT)
    (hb : r.evalExpr env c.base rt = .ok (.swriter sw) rt1) :
    evalCommandPipe r env c v rt =
      (evalSafeWriter r env sw (some v) c.args >>= fun _ => pure (Val.invalid, true)) rt1 := by
  unfold evalCommandPipe
  rw [bind_ok hb]
  simp [Val.isValid]

/-! ### the built-in table -/

/-- what docs/builtins.md documents each built-in to expose -/
def documented : List (String × String) :=
  [("lower", "strings.ToLower"), ("upper", "strings.ToUpper"), ("hasPrefix", "strings.HasPrefix"),
   ("hasSuffix", "strings.HasSuffix"), ("repeat", "strings.Repeat"), ("replace", "strings.Replace"),
   ("split", "strings.Split"), ("trimSpace", "strings.TrimSpace"), ("html", "html.EscapeString"),
   ("url", "url.QueryEscape"), ("json", "json.Marshal"), ("writeJson", "jsonRenderer"),
   ("map", "newMap"), ("slice", "newSlice"), ("array", "newSlice"),
   ("safeHtml", "SafeWriter(template.HTMLEscape)"), ("safeJs", "SafeWriter(template.JSEscape)"),
   ("raw", "SafeWriter(unsafePrinter)"), ("unsafe", "SafeWriter(unsafePrinter)"),
   ("len", "jet.Func"), ("isset", "jet.Func"), ("ints", "jet.Func"), ("exec", "jet.Func"),
   ("includeIfExists", "jet.Func"), ("dump", "jet.Func")]

def stdImports : List (String × String) :=
  [("strings", "strings"), ("html", "html"), ("url", "net/url"), ("json", "encoding/json"),
   ("template", "text/template")]

/-- default.go, as it is now, binds every documented built-in name to the Go function it is
    documented to expose (and to nothing else: the name occurs once), with the package names
    referring to the standard library -/
theorem builtins_expose_documented_functions :
    Facts.builtinShapeOk = true ∧
    (∀ d ∈ documented, d ∈ Facts.builtinTable ∧ (Facts.builtinTable.filter (fun e => e.1 == d.1)).length = 1) ∧
    (∀ i ∈ stdImports, i ∈ Facts.builtinImports) := by decide

end JetVerif.Props.C14

namespace JetVerif.Props.C14
open JetVerif JetVerif.Eval
/-- non-vacuity: literals and `true`/`false` are value expressions at every positive fuel -/
example (env : Env) (n : Nat) (l : Loc) (s : Bytes) : ValueExpr (recAt (n + 1)) env (.strLit l s) (.str s) :=
  ⟨rfl, fun _ => rfl⟩
example (env : Env) (n : Nat) (l : Loc) (t : Bool) : ValueExpr (recAt (n + 1)) env (.boolLit l t) (.bool t) :=
  ⟨rfl, fun _ => rfl⟩
end JetVerif.Props.C14
