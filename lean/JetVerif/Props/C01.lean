/-
  C01 — Every value an action renders is escaped exactly once; only SafeWriters bypass.

  Model: `printEscaped` / `printSafe` / `writeLit` (JetVerif/Model/Eval.lean), `htmlEscape`,
  `printValue` (JetVerif/Model/Val.lean).  The plumbing part ("what is buffered by try re-enters the
  outer destination unchanged", "exec discards") is C13.success_copies_buffer / C09.
-/
import JetVerif.Lemmas.EvalGood

namespace JetVerif.Props.C01
open JetVerif JetVerif.Eval

/-- the default escaper is a byte-wise homomorphism, so escaping a string in 4096-byte chunks (as
    fastprinter writes it) equals escaping the whole string -/
theorem htmlEscape_append (a b : Bytes) : htmlEscape (a ++ b) = htmlEscape a ++ htmlEscape b := by
  induction a with
  | nil => simp [htmlEscape]
  | cons c cs ih => simp [htmlEscape, ih, List.append_assoc]

theorem htmlEscape_flatten (chunks : List Bytes) :
    htmlEscape chunks.flatten = (chunks.map htmlEscape).flatten := by
  induction chunks with
  | nil => simp [htmlEscape]
  | cons c cs ih => simp [htmlEscape_append, ih]

theorem htmlEscapeByte_no_raw_special (x : UInt8) :
    ∀ c ∈ htmlEscapeByte x, c ≠ 60 ∧ c ≠ 62 ∧ c ≠ 39 ∧ c ≠ 34 ∧ c ≠ 0 := by
  unfold htmlEscapeByte
  split
  · decide
  · split
    · decide
    · split
      · decide
      · split
        · decide
        · split
          · decide
          · split
            · decide
            · intro c hc
              simp at hc
              subst hc
              refine ⟨?_, ?_, ?_, ?_, ?_⟩ <;> assumption

/-- **No raw special byte survives the default escaper**: the output never contains `<`, `>`, `'`,
    `"` or NUL, whatever the input. -/
theorem htmlEscape_no_raw_special (s : Bytes) :
    ∀ c ∈ htmlEscape s, c ≠ 60 ∧ c ≠ 62 ∧ c ≠ 39 ∧ c ≠ 34 ∧ c ≠ 0 := by
  induction s with
  | nil => simp [htmlEscape]
  | cons x xs ih =>
    intro c hc
    simp only [htmlEscape, List.mem_append] at hc
    rcases hc with h | h
    · exact htmlEscapeByte_no_raw_special x c h
    · exact ih c h

/-- bytes that need no escaping pass through unchanged: nothing is escaped twice unless the data
    itself contained an entity's `&` -/
theorem htmlEscape_plain (s : Bytes) (h : ∀ c ∈ s, c ≠ 34 ∧ c ≠ 39 ∧ c ≠ 38 ∧ c ≠ 60 ∧ c ≠ 62 ∧ c ≠ 0) :
    htmlEscape s = s := by
  induction s with
  | nil => simp [htmlEscape]
  | cons x xs ih =>
    have hx := h x (by simp)
    simp [htmlEscape, htmlEscapeByte, hx.1, hx.2.1, hx.2.2.1, hx.2.2.2.1, hx.2.2.2.2.1, hx.2.2.2.2.2]
    exact ih (fun c hc => h c (by simp [hc]))

/-- **An action that prints a value writes exactly the Set's escaper applied once to each write of
    the printed form** (to the current destination, after what was there), and nothing else. -/
theorem printed_value_is_escaped_once (env : Env) (esc : String) (v : Val) (pieces escaped : List Piece)
    (rt : RT) (k : Nat) (hesc : env.escapee = some esc) (hp : printValue v = some pieces)
    (he : pieces.mapM (escapePiece esc) = some escaped) (hk : rt.writer.idx = some k) :
    ∃ rt', printEscaped env v rt = .ok () rt' ∧
      rt'.sink k = (escaped.map fun p => ({ tag := .esc, piece := p } : Chunk)).reverse ++ rt.sink k := by
  refine ⟨appendTo rt rt.writer (escaped.map fun p => { tag := .esc, piece := p }), by simp [printEscaped, hp, hesc, he], ?_⟩
  simp [appendTo, hk]

/-- with `WithSafeWriter(nil)` the printed form is written as is -/
theorem printed_value_raw_when_no_escaper (env : Env) (v : Val) (pieces : List Piece) (rt : RT) (k : Nat)
    (hesc : env.escapee = none) (hp : printValue v = some pieces) (hk : rt.writer.idx = some k) :
    ∃ rt', printEscaped env v rt = .ok () rt' ∧
      rt'.sink k = (pieces.map fun p => ({ tag := .raw, piece := p } : Chunk)).reverse ++ rt.sink k := by
  refine ⟨appendTo rt rt.writer (pieces.map fun p => { tag := .raw, piece := p }), by simp [printEscaped, hp, hesc], ?_⟩
  simp [appendTo, hk]

/-- **A SafeWriter applies its own escaping instead** (not in addition): its writes go to the
    current destination directly, not through the Set's escaper. -/
theorem safewriter_bypasses_set_escaper (sw : String) (v : Val) (pieces escaped : List Piece)
    (rt : RT) (k : Nat) (hv : v.isValid = true) (hp : printValue v = some pieces)
    (he : pieces.mapM (escapePiece sw) = some escaped) (hk : rt.writer.idx = some k) :
    ∃ rt', printSafe sw v rt = .ok () rt' ∧
      rt'.sink k = (escaped.map fun p => ({ tag := .safe sw, piece := p } : Chunk)).reverse ++ rt.sink k := by
  refine ⟨appendTo rt rt.writer (escaped.map fun p => { tag := .safe sw, piece := p }), by simp [printSafe, hv, hp, he], ?_⟩
  simp [appendTo, hk]

/-- **Literal template text is never escaped** -/
theorem literal_text_is_raw (b : Bytes) (rt : RT) (k : Nat) (hk : rt.writer.idx = some k) :
    ∃ rt', writeLit b rt = .ok () rt' ∧ rt'.sink k = { tag := .lit, piece := .lit b } :: rt.sink k := by
  refine ⟨_, rfl, ?_⟩
  simp [appendTo, hk]

/-- the string printer's chunks are the string -/
theorem chunk4096_flatten : ∀ (fuel : Nat) (s : Bytes), s.length / 4096 + 2 ≤ fuel + 1 →
    (chunk4096 fuel s).flatten = s ∨ fuel = 0 := by
  intro fuel
  induction fuel with
  | zero => intro s _; exact .inr rfl
  | succ n ih =>
    intro s hs
    left
    unfold chunk4096
    by_cases h0 : s.isEmpty
    · simp [h0]; exact (List.isEmpty_iff.mp h0)
    · by_cases h1 : s.length ≤ 4096
      · simp [h0, h1]
      · simp only [h0, h1, Bool.false_eq_true, if_false]
        have hlen : (s.drop 4096).length / 4096 + 2 ≤ n + 1 := by
          simp only [List.length_drop]
          omega
        rcases ih (s.drop 4096) hlen with h | h
        · simp [h]
        · subst h
          simp only [List.length_drop] at hlen
          omega

/-- non-vacuity: the D-example value `<a&'">` under the default escaper -/
example : htmlEscape [60, 97, 38, 39, 34, 62] = entLt ++ [97] ++ entAmp ++ entApos ++ entQuot ++ entGt := by
  decide

end JetVerif.Props.C01
