/-
  C12, the link between the parser and the evaluator theorems: what the parser model produces has the shape the
  evaluator theorems assume.

  Props/C12T.lean proves that `Execute` only ever re-raises a panic of a called Go function, for syntax trees
  satisfying `TmplWf` / `EnvWf` (Lemmas/EvalTotal.lean: "what the parser guarantees").  Here that guarantee is
  proved of the parser model (Model/Parse.lean), through all 45 productions:

  * Lemmas/ParseShapeDefs.lean states the shapes on the parser's own trees (`PExpr.Shaped`, `PSet.Shaped`,
    `PSet.LenOk`, `PCmd.Shaped`, `PPipe.Shaped`, `PStmt.Shaped`, `PTmpl.Shaped`);
  * Lemmas/ParseShape.lean proves them of every production (for every item sequence, fuel, literal table and
    loader), including of every block registered in `passedBlocks`;
  * Lemmas/ShapeErase.lean restates the erasure of Driver/ExecSrc.lean (`exprA`, `setA`, `cmdA`, `pipeA`,
    `paramsA`, `stmtA`, `optListA`; several of them `partial def`s there) as total functions and proves that
    it maps shaped parser trees to well-formed evaluator trees; the effective block tables
    (`Blocks.tableOf`: own definitions collected from the erased root by `ownRegs`, plus those of the
    extended and imported templates of the store) hold well-formed blocks as soon as every root of the
    store is well-formed - the table is NOT built from the parser's `passed` list, so no hypothesis about
    block tables is left.
-/
import JetVerif.Lemmas.ParseShape
import JetVerif.Lemmas.ShapeErase
import JetVerif.Props.C12T

namespace JetVerif.Props.C12W
open JetVerif JetVerif.Lex JetVerif.Parse JetVerif.Eval

/-- every node `parseTemplate` returns and every block it registers is shaped, whatever the items -/
theorem parsed_tree_is_shaped (cfg : Parse.Cfg) (name input : Bytes) (toks : List Parse.Item) (fuel : Nat)
    (rl : Nat) (nodes : List Parse.PStmt) (s' : Parse.PSt)
    (hk : Parse.parseTemplate cfg fuel { input := input, name := name, toks := toks } = .ok (rl, nodes) s') :
    (∀ n ∈ nodes, n.Shaped) ∧ (∀ b ∈ s'.passed, b.2.Shaped) := by
  obtain ⟨hj, hr⟩ := parseTemplate_shape cfg fuel _ (initial_JS input name toks) _ _ hk
  exact ⟨hr.2, hj⟩

/-- **the same from source bytes**, for every delimiter configuration: root list and registered blocks of
    the template `Set.parse` returns -/
theorem parsed_template_is_shaped (cfg : Parse.Cfg) (l r lc rc name input : Bytes) (t : Parse.PTmpl)
    (h : Parse.parseSource cfg (mkDelims l r lc rc) name input = .ok t) : t.Shaped := by
  unfold Parse.parseSource at h
  cases hl : lexRun (mkDelims l r lc rc) input with
  | done evs =>
    rw [hl] at h
    simp only at h
    unfold Parse.parseItems at h
    cases hp : Parse.parseTemplate cfg (Parse.fuelFor (Parse.itemsOf evs))
        { input := input, name := name, toks := Parse.itemsOf evs } with
    | ok r s =>
      obtain ⟨rl, nodes⟩ := r
      rw [hp] at h
      simp at h
      subst h
      exact parsed_tree_is_shaped cfg name input _ _ rl nodes s hp
    | err l2 m2 => rw [hp] at h; simp at h
    | crash w' => rw [hp] at h; simp at h
    | fuel => rw [hp] at h; simp at h
    | unsupported w' => rw [hp] at h; simp at h
  | crash m e => rw [hl] at h; simp at h
  | outOfFuel e => rw [hl] at h; simp at h

/-- **What the parser model produces has the shape the evaluator theorems assume**: the erasure
    (`eraseTmpl`, the total restatement of Driver/ExecSrc.lean's `stmtA` on the root list, block table empty as
    in `parseFile`) of a parsed template is well-formed. -/
theorem parsed_template_is_well_formed (cfg : Parse.Cfg) (l r lc rc name input path : Bytes) (t : Parse.PTmpl)
    (t' : Tmpl) (h : Parse.parseSource cfg (mkDelims l r lc rc) name input = .ok t)
    (he : eraseTmpl path t = some t') : TmplWf t' :=
  eraseTmpl_wf (parsed_template_is_shaped cfg l r lc rc name input t h).1 he

/-- the blocks the parser registered in `passedBlocks` erase to well-formed block nodes as well -/
theorem parsed_blocks_are_well_formed (cfg : Parse.Cfg) (l r lc rc name input path : Bytes) (t : Parse.PTmpl)
    (h : Parse.parseSource cfg (mkDelims l r lc rc) name input = .ok t) (b : Bytes × Parse.PStmt)
    (hb : b ∈ t.passed) (b' : Stmt) (he : eraseStmt path b.2 = some b') : StmtWf b' :=
  eraseStmt_wf path _ _ ((parsed_template_is_shaped cfg l r lc rc name input t h).2 b hb) he

/-- a store all of whose templates were produced by the parser model and the erasure (each file with its own
    literal table, loader, delimiters and path) -/
def FromSources (usable : List (Bytes × Option Tmpl)) : Prop :=
  ∀ p ∈ usable, ∀ tm, p.2 = some tm →
    ∃ (cfg : Parse.Cfg) (l r lc rc name input path : Bytes) (t : Parse.PTmpl),
      Parse.parseSource cfg (mkDelims l r lc rc) name input = .ok t ∧ eraseTmpl path t = some tm

/-- the environment `exec-src` builds - every file parsed by the model and erased, then every template given
    its effective block table (`withBlocks` restates that step of `execSrcCmd`) - is well-formed -/
theorem parsed_store_is_well_formed (usable : List (Bytes × Option Tmpl)) (hu : FromSources usable) (env : Env)
    (hs : env.store = withBlocks usable) : EnvWf env := by
  refine withBlocks_envWf usable ?_ env hs
  intro p hp tm htm
  obtain ⟨cfg, l, r, lc, rc, name, input, path, t, h, he⟩ := hu p hp tm htm
  exact (parsed_template_is_well_formed cfg l r lc rc name input path t tm h he).root

/-- **Executing a parsed template never re-raises a panic of the engine's own making**: all files of the
    environment parsed by the model, the entry template looked up in it; the only panic `Execute` re-raises is
    one raised by a called Go function. -/
theorem parsed_templates_only_repanic_callee_panics (usable : List (Bytes × Option Tmpl)) (hu : FromSources usable)
    (env : Env) (hs : env.store = withBlocks usable) (entry : Bytes) (t : Tmpl) (ht : findTmpl env entry = some t)
    (fuel : Nat) (vars : List (Bytes × Val)) (data : Val) (msg : String) (out : List Chunk) :
    execute fuel env t vars data = .crash msg out → CalleePanic msg := by
  have he := parsed_store_is_well_formed usable hu env hs
  exact C12T.execute_only_repanics_callee_panics fuel env t vars data (findTmpl_wf he entry t ht) he msg out

/-! ### non-vacuity -/

/-- literal table of the demo: the number tokens `1` and `2` -/
private def demoCfg : Parse.Cfg :=
  { lit := fun ty txt => if ty = Tok.number then
      (match txt with
       | [49] => .num true true true false 1 1 0
       | [50] => .num true true true false 2 2 0
       | _ => .unknown) else .unknown
    load := fun _ => none }

/-- a lookup assignment, a range with `:=`, a pipeline with a slot and a product, a block definition -/
private def demoSrc : List UInt8 :=
  Parse.str "{{ a, ok := m[1] }}{{ range i, v := .L }}{{ v | f(_, 2*i) }}{{ end }}{{ block b(p=a) }}hi{{ end }}"

private def demoChk : Parse.Outcome → Bool
  | .ok t => (match eraseTmpl [] t with | some t' => t'.root.length == 3 && t.passed.length == 1 | none => false)
  | _ => false

/-- the hypotheses of `parsed_template_is_well_formed` are satisfiable: the demo source lexes, parses (three root
    nodes, one registered block) and erases, and the result is well-formed -/
example : ∃ t t', Parse.parseSource demoCfg (mkDelims [] [] [] []) [] demoSrc = .ok t ∧ eraseTmpl [] t = some t' ∧
    t'.root.length = 3 ∧ t.passed.length = 1 ∧ TmplWf t' := by
  have hc : demoChk (Parse.parseSource demoCfg (mkDelims [] [] [] []) [] demoSrc) = true := by decide +kernel
  cases hp : Parse.parseSource demoCfg (mkDelims [] [] [] []) [] demoSrc with
  | ok t =>
    rw [hp] at hc
    simp only [demoChk] at hc
    cases he : eraseTmpl [] t with
    | none => rw [he] at hc; simp at hc
    | some t' =>
      rw [he] at hc
      simp at hc
      exact ⟨t, t', rfl, he, hc.1, hc.2, parsed_template_is_well_formed demoCfg [] [] [] [] [] demoSrc [] t t' hp he⟩
  | err l m => rw [hp] at hc; simp [demoChk] at hc
  | crash w => rw [hp] at hc; simp [demoChk] at hc
  | fuel => rw [hp] at hc; simp [demoChk] at hc
  | unsupported w => rw [hp] at hc; simp [demoChk] at hc

/-- the shapes are not trivially true: a pipeline without commands, a `:=` of a field, a product node with `+` -/
example : ¬ (Parse.PStmt.action 1 none (some { line := 1, cmds := [] })).Shaped := by
  simp [PStmt.Shaped, PPipe.Shaped]
private def letOfField : Parse.PSet :=
  { line := 1, isLet := true, lookup := false, left := [.field 1 [[120]]], right := [.nilLit 1] }
example : ¬ (Parse.PStmt.action 1 (some letOfField) none).Shaped := by
  simp [PStmt.Shaped, PSet.Shaped, LeftShape, PExpr.nt, letOfField]
example : ¬ (Parse.PExpr.binary .mul 1 Tok.add (some (.nilLit 1)) (.nilLit 1)).Shaped := by
  intro h
  simp only [PExpr.Shaped, MulTok] at h
  exact absurd (h.2.2 trivial).1 (by decide)

end JetVerif.Props.C12W
