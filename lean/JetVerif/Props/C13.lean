/-
  C13 — try is all-or-nothing and leaves no trace of a failed body.
  Model: `executeTry`, `tryStart`, `tryReset`, `tryCatch` in JetVerif/Model/Eval.lean.
-/
import JetVerif.Lemmas.EvalGood

namespace JetVerif.Props.C13
open JetVerif JetVerif.Eval

variable (fuel : Nat) (env : Env)

/-- **A failed body leaves no output.**  If the try body fails (error *or* runtime panic — Go's
    `recover()` catches both), then in the runtime the catch clause starts from, every sink that
    existed before the try — in particular the try's own destination — holds exactly what it held
    before: none of the body's output got anywhere. -/
theorem failed_body_writes_nothing (body : List Stmt) (rt rt2 : RT) (hwf : WF rt)
    (hfail : (∃ e, (recAt fuel).execList env body (tryStart rt) = .err e rt2) ∨
             (∃ s, (recAt fuel).execList env body (tryStart rt) = .crash s rt2)) :
    ∀ k, k ≤ rt.nbufs → (tryReset rt rt2).sink k = rt.sink k := by
  have hp := ((recGood_recAt fuel).execList env body).post (tryStart rt) (wf_tryStart rt)
  have e : Ext (tryStart rt) rt2 := by
    rcases hfail with ⟨e, h⟩ | ⟨s, h⟩ <;> (rw [h] at hp; exact hp)
  intro k hk
  simp [tryReset, tryStart_old_untouched e k hk]

/-- **A failed body leaves no trace in the state.**  The catch clause (and, without one, the
    statements after the try) start with the scope chain, '.', block content and output
    destination the try statement itself started with. -/
theorem failed_body_state_restored (rt rt2 : RT) :
    (tryReset rt rt2).scope = rt.scope ∧ (tryReset rt rt2).ctx = rt.ctx ∧
    (tryReset rt rt2).content = rt.content ∧ (tryReset rt rt2).writer = rt.writer :=
  ⟨rfl, rfl, rfl, rfl⟩

/-- **After the try statement** — body succeeded, failed, caught or not — rendering continues with
    the same scope chain, context, block content and output destination; the catch variable's
    scope is gone. -/
theorem try_restores_everything (body : List Stmt) (hasCatch : Bool) (cv : Option Bytes)
    (cb : Option (List Stmt)) (rt rt' : RT) (v : Val) (hwf : WF rt)
    (h : executeTry (recAt fuel) env body hasCatch cv cb rt = .ok v rt') :
    rt'.scope = rt.scope ∧ rt'.ctx = rt.ctx ∧ rt'.content = rt.content ∧ rt'.writer = rt.writer := by
  have hp := (good_executeTry (recGood_recAt fuel) env body hasCatch cv cb).post rt hwf
  rw [h] at hp
  exact ⟨hp.2.scope, hp.2.ctx, hp.2.content, hp.1.writer⟩

/-- **Success copies the buffer, once, unchanged.** If the body finishes, the try's destination
    receives exactly the chunks the body wrote to its private buffer, in order, after what was
    there before, and every other existing sink is untouched. -/
theorem success_copies_buffer (body : List Stmt) (hasCatch : Bool) (cv : Option Bytes)
    (cb : Option (List Stmt)) (rt rt2 : RT) (v : Val) (k : Nat) (hwf : WF rt)
    (hbody : (recAt fuel).execList env body (tryStart rt) = .ok v rt2) (hk : rt.writer.idx = some k) :
    ∃ rt', executeTry (recAt fuel) env body hasCatch cv cb rt = .ok v rt' ∧
      rt'.sink k = rt2.sink (rt.nbufs + 1) ++ rt.sink k := by
  have hp := ((recGood_recAt fuel).execList env body).post (tryStart rt) (wf_tryStart rt)
  rw [hbody] at hp
  refine ⟨_, by unfold executeTry; rw [hbody], ?_⟩
  unfold appendTo
  rw [hk]
  simp [tryStart_old_untouched hp.1 k (hwf k hk)]

/-- without a catch clause a failed try evaluates to nothing and renders nothing -/
theorem no_catch_swallows (hasCatch : Bool) (cv : Option Bytes) (cb : Option (List Stmt)) (errVal : Val)
    (rt : RT) (h : hasCatch = false) : Eval.tryCatch (recAt fuel) env hasCatch cv cb errVal rt = .ok .invalid rt := by
  unfold Eval.tryCatch
  simp [h]
  rfl

end JetVerif.Props.C13
