/-
  C09 — include renders in place with the caller's variables; exec returns a value and discards
  all output; includeIfExists behaves like include when the template exists.
-/
import JetVerif.Lemmas.EvalGood

namespace JetVerif.Props.C09
open JetVerif JetVerif.Eval

/-- `P` holds of the runtime every outcome (success, error, runtime panic) leaves behind -/
def InAllOutcomes {α} (P : RT → Prop) : Res α → Prop
  | .ok _ rt' => P rt'
  | .err _ rt' => P rt'
  | .crash _ rt' => P rt'
  | _ => True

/-- **Whatever runs with the output destination swapped for Discard (the body of `exec`) writes
    nothing**: every sink that existed before holds exactly what it held — also when the body
    fails half-way — and the destination is put back (a `defer` in the code). -/
theorem discarded_body_writes_nothing {α} {body : M α} (hb : Good body) (rt : RT) (hwf : WF rt) :
    InAllOutcomes (fun rt' => rt'.writer = rt.writer ∧ ∀ k, k ≤ rt.nbufs → rt'.sink k = rt.sink k)
      (withWriterD .discard body rt) := by
  unfold withWriterD deferred
  have hwf1 : WF { rt with writer := Wr.discard } := by intro k hk; simp [Wr.idx] at hk
  have h := hb.post { rt with writer := Wr.discard } hwf1
  have key : ∀ rt2, Ext { rt with writer := Wr.discard } rt2 → ∀ k, k ≤ rt.nbufs → rt2.sink k = rt.sink k :=
    fun rt2 e k hk => e.other k hk (by simp [Wr.idx])
  cases hbr : body { rt with writer := Wr.discard } with
  | ok a rt2 => rw [hbr] at h; exact ⟨rfl, key rt2 h.1⟩
  | err e rt2 => rw [hbr] at h; exact ⟨rfl, key rt2 h⟩
  | crash s rt2 => rw [hbr] at h; exact ⟨rfl, key rt2 h⟩
  | fuel => trivial
  | unsupported w => trivial

/-- the template body that `exec` runs is such a body, for every fuel -/
theorem exec_body_is_discarded (fuel : Nat) (env : Env) (l : List Stmt) (rt : RT) (hwf : WF rt) :
    InAllOutcomes (fun rt' => rt'.writer = rt.writer ∧ ∀ k, k ≤ rt.nbufs → rt'.sink k = rt.sink k)
      (withWriterD .discard ((recAt fuel).execList env l) rt) :=
  discarded_body_writes_nothing ((recGood_recAt fuel).execList env l) rt hwf

/-- **include leaks nothing back**: after `{{include ...}}` (with or without a context) the scope
    chain, '.', block content and destination are the includer's again; and the same holds for
    `exec` / `includeIfExists` called from an expression. -/
theorem include_restores (fuel : Nat) (env : Env) (loc : Loc) (name : Expr) (ctx : Option Expr)
    (rt rt' : RT) (v : Val) (hwf : WF rt)
    (h : executeInclude (recAt fuel) env loc name ctx rt = .ok v rt') :
    rt'.scope = rt.scope ∧ rt'.ctx = rt.ctx ∧ rt'.content = rt.content ∧ rt'.writer = rt.writer := by
  have hp := (good_executeInclude (recGood_recAt fuel) env loc name ctx).post rt hwf
  rw [h] at hp
  exact ⟨hp.2.scope, hp.2.ctx, hp.2.content, hp.1.writer⟩

theorem exec_restores (fuel : Nat) (env : Env) (isExec : Bool) (a : Args) (rt rt' : RT) (v : Val) (hwf : WF rt)
    (h : execBuiltin (recAt fuel) env isExec a rt = .ok v rt') :
    rt'.scope = rt.scope ∧ rt'.ctx = rt.ctx ∧ rt'.content = rt.content ∧ rt'.writer = rt.writer := by
  have hp := (good_execBuiltin (recGood_recAt fuel) env isExec a).post rt hwf
  rw [h] at hp
  exact ⟨hp.2.scope, hp.2.ctx, hp.2.content, hp.1.writer⟩

/-- **the value of a list is the value of the last `return` it executed**: a later statement that
    executed no return does not erase it (D12), a later return replaces it -/
theorem return_value_merge (r : Rec) (env : Env) (s : Stmt) (rest : List Stmt) (rv : Val) (b : Bool)
    (rt rt1 : RT) (ret v2 : Val) (ins : Bool)
    (h : execStmt r env b s rt = .ok (ret, v2, ins) rt1) :
    execListGo r env (s :: rest) rv b rt =
      execListGo r env rest (if isReturnStmt s then v2 else if ret.isValid then ret else rv) ins rt1 := by
  simp [execListGo, h]

/-- a `return` statement yields its operand's value -/
theorem return_stmt_value (r : Rec) (env : Env) (loc : Loc) (e : Expr) (b : Bool) (rt rt1 : RT) (v : Val)
    (h : r.evalExpr env e rt = .ok v rt1) :
    execStmt r env b (.ret loc e) rt = .ok (.invalid, v, b) rt1 := by
  simp [execStmt, bind_def, h]
  rfl

/-- no return executed: the list evaluates to nil (an invalid Value) -/
theorem empty_list_returns_nil (r : Rec) (env : Env) (rt : RT) :
    execListF r env [] rt = .ok .invalid rt := by
  simp [execListF, execListGo]
  rfl

end JetVerif.Props.C09
