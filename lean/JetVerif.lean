import JetVerif.Model.Path
import JetVerif.Lemmas.Path
