#!/usr/bin/env python3
"""Regenerates MANIFEST.json from propsconf.py (claimed checks) and properties.jsonl."""
import json, os, sys
ROOT = os.path.dirname(os.path.abspath(__file__))
sys.path.insert(0, ROOT)
from propsconf import PROPS, MANIFEST_TEXT
ids = [json.loads(l)["id"] for l in open(os.path.join(ROOT, "properties.jsonl")) if l.strip()]
checks, na = [], []
for pid in ids:
    if pid in PROPS and PROPS[pid].get("claimed", True):
        c = PROPS[pid]
        t = MANIFEST_TEXT[pid]
        checks.append({
            "property_id": pid,
            "quick_cmd": "./check %s quick" % pid,
            "thorough_cmd": "./check %s thorough" % pid,
            "evidence_file": "/verif/evidence/%s.json" % pid,
            "replay_cmd_template": "./check %s --replay {path}" % pid,
            "engine": "lean4-model+ties",
            "level_claimed": {"category": "proof", "text": t["level"], "design_ref": t.get("design_ref", "DESIGN.md section 6, " + pid)},
            "level_note": t["note"],
            "technique": t["technique"],
        })
    else:
        na.append({"property_id": pid, "reason": MANIFEST_TEXT.get(pid, {}).get("na", "not claimed: no sound check built for it yet in this family (see DESIGN.md)")})
m = {
    "version": 1,
    "setup_cmd": "./setup.sh",
    "hooks": {
        "guard": "verif",
        "enable": "go build -tags verif (the harness module replaces github.com/CloudyKit/jet/v6 => /repo)",
        "baseline_off_cmd": "cd /repo && GOFLAGS=-mod=mod GOPROXY=off GOSUMDB=off GOTOOLCHAIN=local go test -json -vet=off -count=1 -timeout 25m ./...",
        "source_commits": [l.strip() for l in open(os.path.join(ROOT, "hook_commits.txt")) if l.strip()],
        "add_only": True,
    },
    "engines": [{"name": "lean4-model+ties", "path": "/verif/lean", "serves_properties": [c["property_id"] for c in checks],
                 "kind_free_text": "Lean 4 theorems about a hand-written executable model; tied to /repo by regenerated facts (factgen) and differential correspondence (jetcheck + jetdriver)"}],
    "checks": checks,
    "not_applicable": na,
    "notes": "See DESIGN.md. Known findings: known_findings.json. Seeded changes: seeded/.",
}
json.dump(m, open(os.path.join(ROOT, "MANIFEST.json"), "w"), indent=1)
print("claimed:", [c["property_id"] for c in checks])
