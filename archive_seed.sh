#!/bin/sh
# usage: archive_seed.sh <suffix>   -- confirm every finished /tmp/seed/*-<suffix> seed that is not archived yet
# (confirm_seed.sh in a scratch worktree) and archive the confirmed ones under /verif/seeded/<id>-<suffix>/.
SFX="$1"; ROUND="$2"
for j in /tmp/seed/*-$SFX.json; do
  n=$(basename $j .json); p=${n%-$SFX}
  [ -d /verif/seeded/$n ] && continue
  [ -f /tmp/seed/$n.patch ] && [ -f /tmp/seed/${n}_demo_test.go ] || continue
  c=$(/verif/confirm_seed.sh $n 2>&1 | tail -1)
  echo "$c"
  case "$c" in
    *"build=ok buildverif=ok suite_with_change=pass demo_with_change=fail demo_without=pass"*)
      mkdir -p /verif/seeded/$n
      cp /tmp/seed/$n.patch /verif/seeded/$n/patch.diff
      cp /tmp/seed/${n}_demo_test.go /verif/seeded/$n/demo_test.go
      python3 - "$n" "$c" "$ROUND" <<'PY'
import json,sys
n,c,rnd=sys.argv[1],sys.argv[2],sys.argv[3]
m=json.load(open(f'/tmp/seed/{n}.json'))
m['confirmed']={'by':'/verif/confirm_seed.sh in a scratch worktree of /repo HEAD','result':c.split(': ',1)[1]}
m['source']='independent sub-agent ('+rnd+') given only the property text and its own scratch worktree'
json.dump(m,open(f'/verif/seeded/{n}/meta.json','w'),indent=1)
PY
      ;;
  esac
done
