#!/bin/sh
# MANIFEST.setup_cmd: build everything from files on disk, offline.
set -e
cd "$(dirname "$0")"
REPO="${VERIF_REPO:-/repo}"
sed -i "s#^replace github.com/CloudyKit/jet/v6 => .*#replace github.com/CloudyKit/jet/v6 => $REPO#" harness/go.mod
export GOFLAGS=-mod=mod GOPROXY=off GOSUMDB=off GOTOOLCHAIN=local
mkdir -p build evidence replays
cp "$REPO/go.sum" harness/go.sum
(cd harness && go build -o ../build/factgen ./cmd/factgen)
mkdir -p lean/JetVerif/Generated build
rm -f lean/JetVerif/Generated/Facts.lean lean/JetVerif/Generated/Unicode.lean
./build/factgen -repo "$REPO" -o lean/JetVerif/Generated/Facts.lean -unicode lean/JetVerif/Generated/Unicode.lean
# every property and audit module as well, so that the first run of a check does not pay for the proofs
MODS=$(cd lean/JetVerif && ls Props/*.lean Audit/*.lean | sed 's#/#.#; s#\.lean$##; s#^#JetVerif.#')
(cd lean && lake build JetVerif jetdriver $MODS)
(cd harness && go build -tags verif -o ../build/jetcheck ./cmd/jetcheck)
echo setup ok
