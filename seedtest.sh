#!/bin/sh
# usage: seedtest.sh <patchfile> <prop> [<prop>...]  -- applies a seeded change to /repo, runs the
# quick checks, and always reverts.  Prints one line per property.
patch="$1"; shift
cd /repo || exit 2
if ! git diff --quiet; then echo "repo dirty"; exit 2; fi
if ! git apply "$patch" 2>/dev/null && ! git apply --3way "$patch"; then echo "patch does not apply"; git reset -q --hard HEAD; exit 2; fi
trap 'cd /repo && git reset -q --hard HEAD && git clean -fdq -- . >/dev/null 2>&1' EXIT
for p in "$@"; do
  cp /verif/evidence/$p.json /tmp/seedtest-evidence-$p.json 2>/dev/null
  out=$(cd /verif && ./check "$p" ${TIER:-quick} 2>&1)
  rc=$?
  # the evidence file describes the unchanged tree: put it back
  cp /tmp/seedtest-evidence-$p.json /verif/evidence/$p.json 2>/dev/null; rm -f /tmp/seedtest-evidence-$p.json
  echo "$p rc=$rc $(echo "$out" | grep -E 'VIOLATION|KNOWN' | head -2 | tr '\n' ' ') | $(echo "$out" | tail -1 | cut -c1-150)"
done
