# Static per-property configuration for ./check (what is proved where, trusted base, rules).
COMMON_TB = [
    "Lean 4.33.0 kernel (thorough tier re-checks the Props modules with leanchecker)",
    "axioms: at most propext, Classical.choice, Quot.sound (audited per theorem on every run; no sorry/admit/native_decide/bv_decide/own axioms)",
    "factgen (go/ast translator, /verif/harness/cmd/factgen) and the correspondence harness (/verif/harness) incl. the s-expression protocol",
    "Lean compiler/runtime for the executable model driver (jetdriver)",
]

PROPS = {
    "C15": {
        "lean_modules": ["C15"],
        "rule": "names from a segment grammar ('', '.', '..', ordinary, multi-byte, backslash segments; 0-2 leading slashes; optional trailing slash) resolved through GetTemplate/extends/import/include/computed include/exec/includeIfExists from canonical referring templates at depth 0-4; a case is non-trivial when the spelling contains '..', '//' or '/./'; distinct = distinct (stream, command)",
        "trusted_base": COMMON_TB + [
            "modelled, not verified: Go's path.Clean/Join/Dir/Base (segment-level model, differentially validated against the standard library on every run); filepath.ToSlash = identity (linux)",
            "os/filepath semantics of the OS loader are exercised (temp tree outside /repo and /verif), not proved",
        ],
        "assumptions": ["platform path separator is '/'", "template names handed to loaders are Set-produced (sibling names are absolute)"],
        "explanation": "Theorems: every resolved name is canonical for all spellings and all absolute referring names; canonical names are fixed points; Parse/normalize canonical. Tie B: model's resolveSibling/parseName vs. paths a recording Loader actually receives from the real Set.",
    },
}

# Texts for MANIFEST.json (gen_manifest.py)
MANIFEST_TEXT = {
    "C15": {
        "level": "Machine-checked Lean 4 theorems over all name spellings and all absolute referring names: the path computation of getSiblingTemplate / Parse / InMemLoader.normalize always yields a canonical path (absolute, clean, no '.', '..' or empty segment), canonical names are fixed points, resolution is idempotent. The model is tied to /repo on every run by differential correspondence: the same spellings go through the real Set with a recording loader and through the model.",
        "note": "Trusted: Lean kernel + {propext, Classical.choice, Quot.sound}; segment-level model of Go's path package (validated against the stdlib each run, not verified); harness and protocol; OS loader containment is exercised on a temp tree, not proved.",
        "technique": "Lean 4 proof (induction over segment lists) about a hand-written model + differential correspondence with the implementation",
    },
}
