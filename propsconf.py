# Static per-property configuration for ./check (what is proved where, trusted base, rules).
COMMON_TB = [
    "Lean 4.33.0 kernel (thorough tier re-checks the Props modules with leanchecker)",
    "axioms: at most propext, Classical.choice, Quot.sound (audited per theorem on every run; no sorry/admit/native_decide/bv_decide/own axioms)",
    "factgen (go/ast translator, /verif/harness/cmd/factgen) and the correspondence harness (/verif/harness) incl. the s-expression protocol",
    "Lean compiler/runtime for the executable model driver (jetdriver)",
]

PROPS = {
    "C15": {
        "lean_modules": ["C15"],
        "rule": "names from a segment grammar ('', '.', '..', ordinary, multi-byte, backslash segments; 0-2 leading slashes; optional trailing slash) resolved through GetTemplate/extends/import/include/computed include/exec/includeIfExists from canonical referring templates at depth 0-4; a case is non-trivial when the spelling contains '..', '//' or '/./'; distinct = distinct (stream, command)",
        "trusted_base": COMMON_TB + [
            "modelled, not verified: Go's path.Clean/Join/Dir/Base (segment-level model, differentially validated against the standard library on every run); filepath.ToSlash = identity (linux)",
            "os/filepath semantics of the OS loader are exercised (temp tree outside /repo and /verif), not proved",
        ],
        "assumptions": ["platform path separator is '/'", "template names handed to loaders are Set-produced (sibling names are absolute)"],
        "explanation": "Theorems: every resolved name is canonical for all spellings and all absolute referring names; canonical names are fixed points; Parse/normalize canonical. Tie B: model's resolveSibling/parseName vs. paths a recording Loader actually receives from the real Set.",
    },
}


EVAL_TB = COMMON_TB + [
    "modelled, not verified (validated by the correspondence on every run): reflect semantics for the kinds in the type zoo, fastprinter.PrintValue (4096-byte chunking, ints, bools, []byte, fmt.Fprint of flat composites), text/template.HTMLEscape, strconv.ParseInt, path.Clean/Join/Dir; float formatting is delegated to the implementation through placeholders",
    "the Go parser is NOT modelled for these properties: the evaluator model runs on the AST the real parser produced (dumped by the verif hook VerifDumpTemplate, with Line/TemplatePath of every node)",
    "outside the model (reported as 'unsupported', excluded and counted): printing of structs/pointers/nested composites, non-ASCII case mapping, assignment through fields, Stringer/Renderer values other than the hidden booleans, channels, custom Rangers, dump, msg/trans, complex numbers",
]
EVAL_RULE = "stream 'eval': random template sets (main + partials in sub-directories + exec target + optional extends chain/import library) over a fixed variable environment (ints, floats, strings with HTML-special bytes, typed and interface slices, maps, structs, nil pointers/maps/slices/interfaces, registry functions) with the flavour's constructs weighted up; stream 'oracle': programs built bottom-up together with the output the property demands (direct oracle, independent of the model). Every case is non-trivial (>= 2 statements, executes through the real parser and evaluator); distinct = distinct (stream, AST+inputs)."
EVAL_ASSUME = ["single goroutine per Execute", "map iteration order is abstracted: bodies of ranges over maps emit delimited records that are sorted on both sides"]
def evalprop(flavor, extra=""):
    return {"lean_modules": None, "rule": EVAL_RULE + " Flavour: " + flavor + ". " + extra, "trusted_base": EVAL_TB, "assumptions": EVAL_ASSUME,
            "explanation": "Theorems are proved about the evaluator model for every program, runtime state and fuel (see Lemmas/EvalGood.lean: recGood_recAt); tie B compares output bytes, result class, error (file,line) and probe logs of the real Execute with the model on the same AST and inputs."}
for pid, fl in [("C01","escape"),("C05","control"),("C07","scope"),("C09","include"),("C12","errors"),("C13","try"),("C17","isset")]:
    PROPS[pid] = evalprop(fl)
    PROPS[pid]["lean_modules"] = [pid]

LEX_TB = COMMON_TB + [
    "modelled, not verified (validated by the lexer correspondence on every run): Go string slicing/indexing, strings.Index/IndexByte/HasPrefix, utf8.DecodeRuneInString, unicode.IsLetter/IsDigit (tables regenerated from the toolchain by factgen)",
    "the lexer's tables (single/two-character tokens, keywords, sign-exclusion lists, terminators, token kinds) are regenerated from lex.go by factgen on every run (tie A); the state functions are a hand-written model compared token-by-token with the real lexer (hook VerifLex)",
]
PROPS["C02"] = {
    "lean_modules": ["C02"],
    "rule": "stream 'lex': sources from a grammar-directed generator (all statement and expression forms, 8 delimiter families) and their mutations (byte flips, deletions, duplicated/removed delimiters, unbalanced quotes and parentheses, truncations) - real lexer vs model, token by token; non-trivial = longer than 8 bytes. stream 'parse' (direct oracle): the same sources plus a catalogue of structural mistakes (unterminated action / comment / string / raw string / char, missing and surplus end, stray else/content, two else, extends after content / import / extends, unclosed and surplus parentheses) and their well-formed counterparts, through Set.GetTemplate and Set.Parse under every delimiter family: a template or a non-nil error that names /t.jet and a line within the source; mistakes always reported, well-formed counterparts accepted; the worker process survives (no panic in caller or lexer goroutine), returns within the per-case timeout, and no goroutine is left. stream 'cycles' (direct oracle): 2-4 templates referring to each other by extends/import through absolute, extension-less, relative and unclean names, closed into a cycle (or self-reference) or not: an error exactly when there is a cycle, also on a second attempt. stream 'setm': histories of the abstract Set model (cycles included) vs the real Set.",
    "trusted_base": LEX_TB + ["the recursive-descent parser is exercised, not modelled: its totality is covered by the oracle stream only", "the abstract Set model (Model/SetM.lean) is tied to set.go/parse.go by the history correspondence of C16"],
    "assumptions": ["a Loader whose Exists/Open terminate"],
    "explanation": "Theorems: loading through extends/import references needs at most 2 + n(R+3) nested calls for n files with headers of at most R references, for every reference graph (getTemplate_terminates, by induction on the number of names not yet on the parsing stack, mutually over getTemplate/loadFromFile/refsLoop), a name on the stack is refused; every lexer run ends as done/crash/out-of-fuel and its items are adjacent verbatim slices of the source. Tie: lexer correspondence, Set-history correspondence; direct oracles for parser totality, error positions, structural mistakes, goroutine leaks and cycles.",
}

PROPS["C03"] = {
    "lean_modules": ["C03"],
    "rule": "stream 'segments' (direct oracle): templates assembled from 1-7 segments - text (whitespace runs of every mix, multi-byte runes, invalid UTF-8, NUL, lone delimiter characters and closing delimiters), actions printing a known marker with/without '- ' and ' -' trim markers and inner whitespace, comments containing delimiters and trim-like text - under 8 delimiter families (default, custom action delimiters, custom comment delimiters, multi-byte delimiters); the expected bytes are assembled from the same segments by the rule of the property (text verbatim, trim markers remove the adjacent whitespace run of the text, comments nothing). Non-trivial = more than one segment. stream 'lex': the same sources, plus the general source generator and its mutations, through the lexer model token by token.",
    "trusted_base": LEX_TB + ["the parser and the evaluator are the real ones for the oracle stream; that text tokens become TextNodes written raw is covered by C01's theorem and correspondence"],
    "assumptions": ["no extends/import header in the segment stream (leading whitespace next to them is covered by C02's parser oracle)"],
    "explanation": "Theorems (for every source, every delimiter configuration, every way the scan ends): the lexer's emit/ignore events, read in order, are adjacent ranges starting at 0 and every token value is exactly the source slice of its range (global invariant over all state functions); the trim lengths are exactly the maximal runs of space/tab/CR/LF. Tie: token streams of the real lexer vs the model; direct oracle on rendered output.",
}

PROPS["C04"] = evalprop("expressions", "Stream 'exprs' (constructive direct oracle + model): typed expression trees of depth 1-4 over Go ints (variables, slice elements, struct fields, call results, parenthesised), float literals and a float variable, strings and bools, with recording probe functions as boolean operands; the generator evaluates each tree by the documented rules and prints it with exactly the parentheses the documented precedence/associativity require, plus random redundant ones, every binary operator either spaced on both sides or on none (a-1, (a)-1, f(x)-1, li[0]-1), && || ! also spelt and/or/not; expected rendered value and probe log (short-circuit) are checked against the real engine and the model. Stream 'lex': expression sources through the lexer model (sign vs operator).")
PROPS["C04"]["lean_modules"] = ["C04"]
PROPS["C04"]["trusted_base"] = PROPS["C04"]["trusted_base"] + ["the precedence ladder of the recursive-descent expression parser is NOT modelled: it is decided by the constructive oracle (sampled, not proved)"]

PROPS["C06"] = evalprop("fields", "Stream 'cache': random struct types built with reflect.StructOf (1-4 fields per struct from a small name pool so names clash, exported and unexported fields, embedded structs and embedded struct pointers nested up to 4 deep) - the index-path table of the real buildCache (hook VerifBuildCache) vs the model's buildCache, plus a direct oracle (every path is valid and leads to a field of that name). Stream 'structs' (direct oracle, no model): a value of such a type with a unique value in every leaf and nil / non-nil embedded pointers; for every field name occurring anywhere in the type and a missing one, '.Name' and '.[\"Name\"]' are rendered: an unambiguous exported name must render exactly the value stored where Go's selector rule (shallowest depth, through embedded structs and pointers) reaches and both spellings must agree; unexported and missing names and paths through nil embedded pointers must be errors; Execute must never panic.")
PROPS["C06"]["lean_modules"] = ["C06"]

PROPS["C08"] = evalprop("blocks", "Stream 'blocksets' (direct oracle, no model): random acyclic template sets - 2-4 libraries that may import earlier libraries, a layout, an optional middle layout extending it, 1-3 leaves extending either or standing alone, import lists in random order, overlapping definitions of four block names incl. nested definitions (inside other blocks, if, range), parameters with defaults, yields with named arguments in either order or omitted, caller content and default content that print a caller-scope variable the block body shadows; all templates are parsed in a random order in ONE Set and then each is executed; the expected bytes of every template are computed by the generator from the precedence rule. Stream 'tables': effective block table (name -> defining template, line) of every template, real parser vs the model's table construction. Each template of a set also runs through the evaluator model (stream 'eval').")
PROPS["C08"]["lean_modules"] = ["C08"]

PROPS["C10"] = {
    "lean_modules": ["C10"],
    "rule": "stream 'history': 3-6 programs (residue probes that print yield content / '.' / isset of names other programs bind; programs that fail inside a yield with content, after the content, in a range, in an include with context, in try and catch, in nested yields; random programs of the errors/try/include/scope/blocks/control flavours; constructive-oracle programs), each with its own Set, executed 7-13 times in a random order with repeats inside one worker process on one goroutine (the sync.Pool hands the same Runtime back). Non-trivial = every case (>= 7 calls, at least one probe executed first, again after the others). distinct = distinct history.",
    "trusted_base": EVAL_TB + ["factgen's extraction of the Runtime field lists (F9): fields of Runtime/escapeeWriter/scope, `st.F = ...` assignments at the top level of Template.Execute and Runtime.recover, uses through receivers of these types; a field used only through an alias the extractor does not follow would be missed (the history stream is the backstop)", "sync.Pool itself (may drop or hand out any pooled Runtime; the theorem covers the worst case: always the same one)"],
    "assumptions": EVAL_ASSUME + ["Go functions registered by the caller are themselves stateless (the harness's probe log is reset per call)"],
    "explanation": "Theorems: the reset discipline of the pooled Runtime as a taint machine - for every history of executions, each ending anywhere after touching any fields, no field a later execution can observe carries a value from an earlier one, provided every used field is assigned by Execute or reset by recover; that coverage condition is discharged by decide over the field lists regenerated from eval.go/exec.go on every run (and the converse: an uncovered field leaks). Tie B: the real Execute in histories vs the stateless model, call by call; direct oracle: the same call returns the same result wherever it occurs in the history, and the parsed templates are structurally unchanged afterwards.",
}

PROPS["C14"] = evalprop("calls", "Stream 'forms' (direct oracle, no model): one call - reflected fixed/variadic funcs incl. interface-typed variadic tails, methods on a value and on a pointer (fixed and variadic), jet.Func values, built-ins, a non-function - with 0-6 arguments (right or wrong count, nil/invalid and wrong-kind values, values needing conversion such as float->int) written as f(a..), f: a.., a0 | f(rest), a0 | f: rest, a0 | ident | f(rest), ak | f(.., _, ..) for every slot position k, nested in another call and as a pipe source; all spellings must render the same bytes or all fail. Every spelling also runs through the model (stream 'eval'). Stream 'stages': pipelines of 2-5 recording stages in mixed forms with the expected output and call log (each stage once, left to right). Stream 'builtins': each documented built-in on random strings (HTML-special, non-ASCII, separators) against the Go function it is documented to expose, computed by the harness.")
PROPS["C14"]["lean_modules"] = ["C14"]

PROPS["C18"] = evalprop("runtime API", "Stream 'twins' (direct oracle, no model): the same random sequence of variable / context / block operations at nesting depth 0-3 (if, range with and without variables, try, if-with-declaration, include), over names that are template variables, root variables, Set globals ('g'), default functions ('len') or unknown, written once with template syntax (:=, =, identifier, '.', yield name() ctx) and once through Runtime.Let/Set/SetOrLet/Resolve/Context/YieldBlock from inside jet.Func values; both must render the same bytes or both fail. Stream 'api-expect': fixed-shape programs with generator-computed outputs for what has no syntax twin (LetGlobal from any depth, through blocks and includes; SetOrLet on names of globals/defaults; YieldBlock once, with/without context, with a recording block body). Stream 'argpos' (direct oracle): a jet.Func reading Arguments.Get/NumOfArguments, one using ParseInto(&int,&string,&interface{}) and one using IsSet, each next to a reflected Go function / isset() receiving the same call, over plain, prefix, piped, slot-at-any-index and chained shapes with 0-4 arguments. Every API program also runs through the model (stream 'eval').")
PROPS["C18"]["lean_modules"] = ["C18"]

PROPS["C19"] = {
    "lean_modules": ["C19"],
    "rule": "stream 'inmem': histories of 3-12 Set/Delete/Exists/Open operations on one InMemLoader over 3 base names, each operation with a random spelling (./, leading/trailing slashes, x/../, //, clean form); non-trivial = contains a Delete. stream 'multi': stacks of 0-3 in-memory loaders with overlapping contents, every path queried with Exists and Open; non-trivial = >= 2 loaders. stream 'fs' (oracle only): OS, http (http.Dir), embed loaders and an OS loader stacked under an empty in-memory loader over one tree (files, nested and empty directories), every canonical path and near-misses.",
    "trusted_base": COMMON_TB + ["os / net/http / embed file-system semantics: exercised on a real tree (scratch dir outside /repo and /verif, removed afterwards; an embed.FS compiled into the harness), modelled as an abstract tree of regular files, not proved"],
    "assumptions": ["file-system loaders are only given the clean absolute paths a Set produces (C15)"],
    "explanation": "Theorems: InMemLoader refines a finite map keyed by normalize(path) under every history (set-then-open, delete under every spelling, spelling independence, keys canonical), Exists implies Open; Multi opens the first loader that has the path and keeps the contract. Tie B: real InMemLoader / Multi vs the model on the same histories; direct oracle: the harness's own record keyed by path.Clean.",
}

PROPS["C16"] = {
    "lean_modules": ["C16"],
    "rule": "histories of 4-15 operations on one Set: GetTemplate (often immediately repeated), Parse, Execute of a previously returned template (its includes are resolved at that moment), loader edits / deletions / fault injection (Exists true but Open or Read failing, syntax errors), over 4 base paths x extension lists ([\"\",.jet,.html.jet,.jet.html], [.jet], [.html,\"\"], [.a,.b]) x development mode on/off, with a recording Loader and a recording custom Cache; templates import and include each other by absolute and relative names (import cycles included). Non-trivial = more than 5 operations; distinct = distinct history.",
    "trusted_base": COMMON_TB + ["the abstract content language (marker, imports, includes, syntax-error flag) is rendered to real template source by the harness; sync.Map semantics of the default cache are replaced by a recording custom Cache (WithCache)"],
    "assumptions": ["single goroutine", "a well-behaved Cache (Get after Put returns the template)"],
    "explanation": "Theorems over the abstract Set model for every fuel and state: a second lookup outside dev mode returns the identical template and only touches the cache; dev mode never calls Cache.Get/Put; Parse never caches (neither itself nor what it pulls in); extensions are probed in configured order, first existing file wins, all are probed on a miss; frame_all: which calls any lookup may make, by mode and caching flag. Tie B: call traces (Exists/Open/Get/Put in order), identity classes of returned templates and rendered markers of the real Set vs the model on the same histories.",
}

PROPS["C20"] = {
    "lean_modules": ["C20"],
    "rule": "templates assembled from a grammar-covering snippet list (every production; optional parts present and absent: omitted slice bounds, '_', unary operators, try with/without catch and catch variable, include with/without context, return, yield content, block content) and from the random source generator; each is parsed by the real parser, its tree is rebuilt by reflection over node.go's struct layout and walked by the real utils.Walk and by the model's walk over the regenerated visit table. Non-trivial = source longer than 10 bytes.",
    "trusted_base": COMMON_TB + ["factgen's reading of node.go struct declarations and of utils/visitor.go helper bodies (shape flags fail the check when a construct is not understood)", "the nil-ability table of child slots is hand-written from parse.go and validated on every run (wf of every tree the real parser produced)"],
    "assumptions": ["a visitor that descends with VisitorContext.Visit; the callback is not invoked for the ListNode of a block body (list nodes are compared 'at most once')"],
    "explanation": "Generic theorem walk_complete (for any schema and visit table with covers = true, walking a schema-conforming tree never panics and visits exactly its nodes, each once, in order) + jet_visitor_covers : covers jetSchema Facts.visitArms = true by kernel evaluation over the tables regenerated from /repo on this run.",
}

# Texts for MANIFEST.json (gen_manifest.py)
MANIFEST_TEXT = {
    "C15": {
        "level": "Machine-checked Lean 4 theorems over all name spellings and all absolute referring names: the path computation of getSiblingTemplate / Parse / InMemLoader.normalize always yields a canonical path (absolute, clean, no '.', '..' or empty segment), canonical names are fixed points, resolution is idempotent. The model is tied to /repo on every run by differential correspondence: the same spellings go through the real Set with a recording loader and through the model.",
        "note": "Trusted: Lean kernel + {propext, Classical.choice, Quot.sound}; segment-level model of Go's path package (validated against the stdlib each run, not verified); harness and protocol; OS loader containment is exercised on a temp tree, not proved.",
        "technique": "Lean 4 proof (induction over segment lists) about a hand-written model + differential correspondence with the implementation",
    },
    "C01": {
        "level": "Machine-checked Lean 4 theorems: the default escaper is a byte homomorphism that never emits a raw < > ' \" or NUL (all inputs); an action's printed value reaches the destination as the Set's escaper applied once per write of the printed form, a SafeWriter writes through its own escaper instead, literal text is written raw; the buffering plumbing (try, exec) neither re-escapes nor loses chunks (C13/C09 theorems over every program and fuel). Tied to /repo by differential execution of random and constructive template sets.",
        "note": "Trusted: Lean kernel + standard axioms; model of fastprinter/HTMLEscape/reflect validated by correspondence, not verified; AST comes from the real parser via the verif hook; custom escapers other than the registered test escaper are outside the model.",
        "technique": "Lean 4 proof (induction over bytes; invariant over the fuel-indexed evaluator) + differential correspondence + constructive direct oracle",
    },
    "C05": {
        "level": "Lean 4 theorems: truthiness table (false, zero numbers, empty string, nil values are falsy; interface elements are unwrapped); an if runs exactly the then-list / the else-list / nothing; slice and ints rangers yield every element once in order with indices 0..n-1; an empty ranger runs the else-list iff present and a non-empty one never does; '.' is restored after each body. Tie: differential execution incl. constructive oracle (exactly one branch, DEAD markers, per-element output).",
        "note": "Known finding D13 (return inside a range body ends the loop) is pinned by the suite and excluded by hypothesis. Channel and custom Rangers are outside the model (exercised only by the oracle stream through the implementation).",
        "technique": "Lean 4 proof about the evaluator model + differential correspondence + constructive direct oracle",
    },
    "C07": {
        "level": "Lean 4 theorem for every statement list, runtime state and fuel: after it finishes the scope chain is the same chain of scope objects, '.', block content and destination are unchanged (recGood_recAt); resolution order (scopes innermost first, Execute variables, globals, built-ins) and assignment to the innermost declaring scope are proved from the definitions. Tie: differential execution of scope-heavy programs + constructive oracle (shadowing, let visibility, probes after bodies).",
        "note": "Value stability of stored loop variables (D17) is covered by correspondence, not by a theorem. Assignment through fields (mutating Go data) is outside the model.",
        "technique": "Lean 4 proof (invariant by induction on fuel over an open-recursion evaluator) + differential correspondence + constructive direct oracle",
    },
    "C09": {
        "level": "Lean 4 theorems: any body run with the destination swapped for Discard (exec) leaves every existing sink untouched, on success and on failure; include/exec/includeIfExists restore scope chain, context, content and destination; the value of a list is the value of the last return executed. Tie: differential execution with include/exec/includeIfExists at depth, relative names, return at every position; constructive oracle predicts exec values and silence.",
        "note": "Template lookup for include/exec uses the Path model (C15) against the pre-parsed store; cache/loader interaction is C16.",
        "technique": "Lean 4 proof about the evaluator model + differential correspondence + constructive direct oracle",
    },
    "C12": {
        "level": "Lean 4 theorems: output only grows (what was rendered before a failure is still there, nothing is taken back), a failing statement ends its list (nothing after it runs), errors raised at a node carry that node's file and line and returned helper errors are positioned at the calling node. Tie: differential execution comparing result class and (file,line) of every error; constructive oracle plants a failing action of each class and checks prefix output and the reported position.",
        "note": "'Never panics' is not proved as a theorem for the whole evaluator (the model has explicit crash outcomes that mirror Go); it is checked by correspondence and the oracle. Errors raised inside called functions need not carry a position (as the property says).",
        "technique": "Lean 4 proof about the evaluator model + differential correspondence + constructive direct oracle",
    },
    "C13": {
        "level": "Lean 4 theorems for every body, every failure point and every fuel: a failed body (error or runtime panic) leaves every pre-existing sink byte-for-byte unchanged and the catch clause starts from the scope chain, context, content and destination the try started with; a successful body's buffer is copied once, unchanged, to the saved destination; after the statement everything is restored. Tie: differential execution of try-heavy programs + constructive oracle.",
        "note": "That the body renders the same bytes inside and outside try (writer parametricity) is covered by correspondence, not by a theorem.",
        "technique": "Lean 4 proof (invariant by induction on fuel) + differential correspondence + constructive direct oracle",
    },
    "C17": {
        "level": "Lean 4 theorems: Runtime.isSet, Arguments.IsSet and the isset built-in with >= 1 argument never produce an error or runtime panic, for every expression, data and fuel; zero values are set, nil values are not; a piped argument is judged by its value. Tie: differential execution over access paths valid/invalid at every depth, direct and piped; constructive oracle.",
        "note": "Exactness (true iff every step exists) is covered by correspondence against the implementation and the oracle, not yet by a theorem against an independent existence spec.",
        "technique": "Lean 4 proof about the evaluator model + differential correspondence + constructive direct oracle",
    },
    "C02": {
        "level": "Lean 4 theorems: (1) template loading terminates - for every loader content and every extends/import reference graph, cycles and self-references included, the mutually recursive getTemplate/loadFromFile/refsLoop of the abstract Set model need at most 2 + n(R+3) nested calls and return a template or an error (the parsing stack strictly grows over the finitely many file names); (2) every lexer run ends and its items are adjacent verbatim slices of the source. The lexer model is tied token-by-token to the real lexer, the Set model by operation histories. The parser itself is not modelled: that Parse/GetTemplate never panic, never hang, leave no goroutine, report every structural mistake and name template and line is decided by a direct oracle over generated, mutated and catalogued malformed sources in a crash-contained worker (partial: sampled, not proved).",
        "note": "Not proved: absence of slice-bound panics in the lexer model (the model represents them as crash outcomes and the correspondence would show a divergence); parser totality.",
        "technique": "Lean 4 proof (termination by a decreasing measure, mutual induction; lexer invariant) + differential correspondence + direct oracle in a crash/hang-contained worker",
    },
    "C03": {
        "level": "Lean 4 theorems about the lexer model, for every source, every delimiter configuration and every way the scan ends: the emit and ignore events form a chain of adjacent ranges from offset 0, and each token's value is the verbatim source slice of its range (an invariant proved through all twelve state functions and their loops), so nothing is added, reordered or altered and every byte outside a token was dropped at one of the five ignore sites; left/right trim lengths are exactly the maximal whitespace runs. Tie: real lexer vs model token by token (hook VerifLex, tables regenerated by factgen) on generated and mutated sources under 8 delimiter families; direct oracle on rendered bytes of segment-built templates.",
        "note": "That the ranges dropped at the five ignore sites are exactly comment / marker / whitespace-run is proved for the run lengths (trim specs) and otherwise shown by the oracle; bounds of ignore ranges (a <= b) are not part of the proved invariant.",
        "technique": "Lean 4 proof (global invariant over the lexer state machine) + differential correspondence via a build-tagged hook + constructive direct oracle",
    },
    "C04": {
        "level": "Lean 4 theorems: (lexer) after every token kind an operand can end with, '-' and '+' before a digit are operators, decided by the kernel over the exclusion lists regenerated from lex.go, and signArm follows those lists; (evaluator model, for all operand values and states) two ints combine integrally with truncating / and %, a zero divisor is an error, any float operand promotes, literals flagged float evaluate to floats, string + x concatenates and string - x is an error, relational operators yield bools with float promotion, && and || skip the right operand when the left decides and always yield a bool, ?: evaluates one branch. Precedence, associativity and the no-space spellings are decided by a constructive oracle over generated expression trees (the parser is not modelled), together with the model correspondence on the same cases.",
        "note": "Partial by design: grouping is a property of the parser, which this framework exercises but does not model.",
        "technique": "Lean 4 proof about the evaluator and lexer models + decide over regenerated facts + constructive direct oracle + differential correspondence",
    },
    "C06": {
        "level": "Lean 4 theorems: for every struct type (any fields, any nesting of embedded structs, any name clashes) every entry name -> path of the model of buildCache leads through exported embedded structs to an exported field of that name (buildCache_sound, induction on embedding depth and on the field loop), and a struct's own field is never hidden by a promoted one (direct_field_wins); on the evaluator model's resolveIndex: a.b agrees with a[\"b\"] on maps and structs, absent map keys yield nil, present entries and slice elements are returned as stored, out-of-range/negative indexes, missing fields and nil pointers are errors. Tie: the real buildCache (hook) vs the model on random reflect.StructOf types; differential execution of access-heavy programs; a direct oracle comparing '.F' / '.[\"F\"]' on generated struct values with Go's own selector rule.",
        "note": "Method lookup (value/pointer receivers) is exercised through C14's forms stream, not modelled. The cache validation against reflect.FieldByName added by the D43 fix is outside the model (the hook exposes the raw builder); its effect is covered by the struct-access oracle.",
        "technique": "Lean 4 proof (induction) about a hand-written model + differential correspondence via a build-tagged hook + direct oracle against Go's reflect",
    },
    "C08": {
        "level": "Lean 4 theorems: for every extends table, import list and own definition list the effective block table resolves a name to the template's own last-registered definition, else the latest import that has it, else the extended chain (precedence, by induction over the addBlocks folds; tables have one entry per name); along the links of any template set (tableOf_precedence); an execution runs the root ancestor's body with the executed template's table and top-level lookups go to that table. Tie: block tables of the real parser vs the model on random template sets; differential execution; a constructive oracle that executes every template of a set after parsing them in a random order in one Set.",
        "note": "Parameter matching by name/defaults and the scope of caller content are covered by the evaluator correspondence and the constructive oracle, not by a dedicated theorem.",
        "technique": "Lean 4 proof (induction over folds) about a hand-written model + differential correspondence (tables and execution) + constructive direct oracle",
    },
    "C10": {
        "level": "Machine-checked Lean 4 theorem over all histories: the pooled Runtime's reset discipline (assign at the top of Execute, reset in the deferred recover before Put) leaves no field an execution can observe holding a value from an earlier execution, however that earlier execution ended; the coverage premise is decided by the kernel over the field lists factgen regenerates from eval.go/exec.go each run, so a new field, a dropped reset or a missing defer breaks the proof. Tie: the real Execute run in random histories (failing yields with content, ranges, includes, try) on one goroutine vs the stateless evaluator model, plus a model-independent same-call-same-result oracle and a structural hash of every template before/after.",
        "note": "Purity of the model's execute is by construction (no pooled state in its signature); what is proved is the reset discipline at field granularity, not the heap reachable from those fields (e.g. a caller-supplied VarMap is mutated by Let() by design).",
        "technique": "Lean 4 proof (invariant by induction over histories, premise discharged by decide over regenerated facts) + differential correspondence over execution histories + direct oracle",
    },
    "C14": {
        "level": "Lean 4 theorems about the evaluator model, for all argument lists, signatures, piped values and states: (a) for reflected functions, evaluateArgs of `x | f(a..)` equals evaluateArgs of `f(x, a..)` and of `x | f(.., _, ..)` equals the plain call with the slot filled, whenever x is a value expression; (b) for jet.Func values, Arguments.Get / NumOfArguments of the piped forms coincide index-by-index with the plain form; (c) a pipeline is the left-to-right composition of its stages, each evaluated exactly once; (d) a SafeWriter stage that is not last is a located error; (e) the built-in table regenerated from default.go binds every documented name to the Go function it documents (decide). Tie: differential execution of call-heavy programs + three direct oracles (all spellings agree; recorded stage order; built-ins vs the Go standard library).",
        "note": "Methods are exercised by the oracle streams only (the model treats the method-carrying type as opaque); url/json/writeJson are checked by the built-ins oracle, not modelled.",
        "technique": "Lean 4 proof about the evaluator model + decide over regenerated facts + differential correspondence + direct oracles",
    },
    "C18": {
        "level": "Lean 4 theorems about the evaluator model with the Runtime API inside it, for every runtime state: Let has exactly the effect of `name := v` at the call site; Set succeeds, rebinds and fails exactly as `name = v`; SetOrLet is Set when some open scope declares the name and Let otherwise, independent of globals and defaults; Resolve returns what the identifier evaluates to; Context is '.'; LetGlobal writes the last scope of the chain; YieldBlock(name, ctx) equals `{{yield name() ctx}}` for parameterless blocks (body executed once, '.' restored) - the last via the evaluator's restore invariant (recGood_recAt); Arguments.IsSet/Get/NumOfArguments place piped and slot values where a plain call has them (with C14's theorems). Tie: differential execution of API-using programs; direct oracles: syntax/API twin programs, computed expectations, jet.Func vs reflected function on the same call.",
        "note": "ParseInto is covered by correspondence and the argpos oracle (modelled for int/string/interface{} targets), not by a theorem. MustResolve is not exercised.",
        "technique": "Lean 4 proof about the evaluator model + differential correspondence + direct oracles (twin programs)",
    },
    "C19": {
        "level": "Machine-checked Lean 4 theorems over all histories of Set/Delete and all spellings: the in-memory loader is a finite map keyed by the normalised path (set-then-open returns the stored content under every spelling with that normal form, delete removes it under every spelling and nothing else, Exists implies Open); Multi.Open is the first stacked loader's Open that succeeds and Multi keeps Exists => Open. File-system loaders are modelled as a tree of regular files; their agreement with os/http/embed is exercised on real trees (partial by nature).",
        "note": "Trusted: Lean kernel + standard axioms; Path model (C15); the file-system part is observed, not proved.",
        "technique": "Lean 4 proof (refinement of a finite map; induction over loader stacks) + differential correspondence + direct oracle on real trees",
    },
    "C16": {
        "level": "Machine-checked Lean 4 theorems (induction on fuel over the mutually recursive lookup/load/header functions of an abstract Set model): identical-and-silent second lookup, dev mode never uses the cache, Parse never caches, extension order, and a frame theorem bounding the loader/cache calls of every lookup by mode and caching flag. Tied to /repo by differential execution of operation histories with a recording Loader and Cache, comparing call traces, template identity classes and rendered output after edits.",
        "note": "'Failures are never cached' is covered by the frame theorem only in the form 'Put happens exactly on the success path' plus correspondence (failed lookups retried after a repair are part of the histories).",
        "technique": "Lean 4 proof (invariant by induction on fuel) about a hand-written abstract model + differential correspondence over operation histories + direct oracle",
    },
    "C20": {
        "level": "Machine-checked Lean 4: a generic completeness theorem for table-driven visitors (induction on fuel, for all trees conforming to a schema) instantiated, by kernel evaluation (decide), with the node schema and visit table that factgen regenerates from node.go and utils/visitor.go on every run; a change to the visitor or to the node structs changes the table the theorem is checked against. Tie B: the real Walk and the model walk are compared on trees the real parser produced.",
        "note": "Trusted: Lean kernel (jet_visitor_covers depends on no axioms); factgen; the nil-ability table (validated against parser output each run).",
        "technique": "Lean 4 proof (generic theorem + decide over regenerated facts) + differential correspondence + direct oracle (every node exactly once, no panic, terminates)",
    },
}
