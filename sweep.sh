#!/bin/sh
# usage: sweep.sh [tier] [seeds...]  -- every check on the unchanged tree (VERIF_REPO / VP_RUN_REPO / /repo), for false alarms
cd "$(dirname "$0")"
REPO="${VERIF_REPO:-${VP_RUN_REPO:-/repo}}"; export VERIF_REPO="$REPO"
TIER="${1:-thorough}"; shift
SEEDS="${*:-1}"
[ -x build/jetcheck ] || ./setup.sh >/dev/null 2>&1 || { echo "setup failed"; exit 2; }
for s in $SEEDS; do
  for i in 01 02 03 04 05 06 07 08 09 10 11 12 13 14 15 16 17 18 19 20; do
    out=$(VERIF_SEED=$s ./check C$i $TIER 2>&1); rc=$?
    echo "seed=$s C$i rc=$rc $(echo "$out" | grep -E 'VIOLATION|KNOWN' | head -2 | tr '\n' ' ') | $(echo "$out" | tail -1 | cut -c1-160)"
    if [ $rc -ne 0 ]; then cp replays/C$i-$s-0.json replays/keep-C$i-$s.json 2>/dev/null; fi
  done
done
